#!/usr/bin/env python3
# Regenerates the table of seeded changes in DESIGN.md §10 from seeded/*/meta.json
# (between the markers "<!-- seeded-table:begin -->" and "<!-- seeded-table:end -->").
import json, glob, re, os
os.chdir('/verif')
def key(p):
    n=os.path.basename(os.path.dirname(p))
    m=re.match(r'(?:R(\d+))?C(\d+)$',n)
    return (int(m.group(2)), int(m.group(1) or 1))
rows=[]; first_caught={}; total={}
for f in sorted(glob.glob('seeded/*/meta.json'), key=key):
    m=json.load(open(f)); n=m['id']; rnd=key(f)[1]
    res=m['detection']['result']
    low=res.lower()
    caught_first = low.startswith('caught')
    total[rnd]=total.get(rnd,0)+1
    if caught_first: first_caught[rnd]=first_caught.get(rnd,0)+1
    after=res
    if not caught_first:
        after=re.sub(r'^(MISSED|missed)[^.;(]*?(\([^)]*\))?[.;]?\s*(Strengthened:\s*)?','',res,count=1)
        if after==res or not after.strip(): after=res
    else:
        after=re.sub(r'^caught( as first built)?\s*','',res)
    ch=m.get('change','').replace('|','\\|').replace('\n',' ')
    if len(ch)>260: ch=ch[:257]+'…'
    after=after.replace('|','\\|').replace('\n',' ')
    if len(after)>330: after=after[:327]+'…'
    rows.append(f"| `{n}` | {m['breaks_property']} | {ch} | {'caught' if caught_first else '**missed**'} | {after} |")
hdr="| Seeded change | Property | What it changes | First built check | After strengthening / how caught |\n|---|---|---|---|---|\n"
summary="Caught by the check as it stood when the change arrived, per round: "+", ".join(f"round {r}: {first_caught.get(r,0)}/{total[r]}" for r in sorted(total))+f". Stored: {sum(total.values())}; all are caught now by the check and tier recorded in their meta.json - the quick tier of the property's own check unless noted in the last column (`scripts/regress_seeded.sh`).\n\n"
block="<!-- seeded-table:begin -->\n"+summary+hdr+"\n".join(rows)+"\n<!-- seeded-table:end -->"
d=open('DESIGN.md').read()
if '<!-- seeded-table:begin -->' in d:
    d=re.sub(r'<!-- seeded-table:begin -->.*?<!-- seeded-table:end -->',lambda _:block,d,flags=re.S)
else:
    i=d.index('| Seeded change | Property |')
    j=d.index('In addition the repairs of §6 double as seeded changes')
    d=d[:i]+block+"\n\n"+d[j:]
open('DESIGN.md','w').write(d)
print(summary)
