#!/bin/bash
# Evaluates a seeded change that is applied in a scratch worktree (never touches /repo or /verif/evidence).
# usage: eval_wt.sh <worktree-dir> <tier> <check> [<check>...]
wt=$(readlink -f "$1"); tier=$2; shift 2
mkdir -p /verif/bin/seeded-logs
for c in "$@"; do
  log=/verif/bin/seeded-logs/$(basename "$wt")-$c-$tier.log
  (cd /verif && VERIF_REPO=$wt timeout 3600 ./vcheck "$c" "$tier" > "$log" 2>&1); rc=$?
  caught=no; [ $rc -eq 1 ] && grep -q "^VIOLATION property=$c " "$log" && caught=yes
  echo "$(basename "$wt") $c $tier exit=$rc caught=$caught  $(grep -m1 '  class:' "$log" | cut -c1-140)"
done
