#!/bin/bash
# Independently re-verifies a seeded change delivered by a sub-agent and, if it holds up, stores it under /verif/seeded/<name>.
# usage: verify_seeded.sh <agent-worktree> <agent-out-dir> <name> <property-id>
set -u
awt=$(readlink -f "$1"); out=$(readlink -f "$2"); name=$3; prop=$4
export GOFLAGS= GOPROXY=off GOSUMDB=off GOTOOLCHAIN=local
vs=/tmp/vs/$name
rm -rf "$vs"; mkdir -p /tmp/vs
git -C /repo worktree add -q --detach "$vs" HEAD || exit 2
cleanup() { git -C /repo worktree remove --force "$vs" 2>/dev/null; }
trap cleanup EXIT
demos=$(git -C "$awt" status --porcelain | awk '$1=="??"{print $2}' | grep -v '/$' )
[ -z "$demos" ] && { echo "$name: no demonstration file found"; exit 1; }
for f in $demos; do mkdir -p "$vs/$(dirname $f)"; cp "$awt/$f" "$vs/$f"; done
rundemo() { rc=0; for f in $demos; do d=$(dirname "$f"); (cd "$vs/$d" && go test ${DEMO_FLAGS:-} -vet=off -count=1 -run "${DEMO_RUN:-Seeded}" . > /tmp/vs/$name.demo.log 2>&1) || rc=1; done; return $rc; }
rundemo; clean_rc=$?
git -C "$vs" apply "$out/patch.diff" || { echo "$name: patch does not apply"; exit 1; }
build_ok=yes
for m in libvore libvore/algo libvore/ast libvore/bytecode libvore/ds libvore/engine libvore/files; do (cd "$vs/$m" && go build ./... ) >/dev/null 2>&1 || build_ok=no; done
(cd "$vs" && go build -o /tmp/vs/vore_$name . && rm -f /tmp/vs/vore_$name) >/dev/null 2>&1 || build_ok=no
suite_ok=yes
for m in libvore libvore/algo libvore/ast libvore/ds libvore/files; do (cd "$vs/$m" && go test -vet=off -count=1 -skip 'Seeded' ./... ) >/tmp/vs/$name.suite.log 2>&1 || suite_ok=no; done
rundemo; mut_rc=$?
echo "$name: demo-on-clean=$([ $clean_rc -eq 0 ] && echo pass || echo FAIL) build=$build_ok suite=$suite_ok demo-with-change=$([ $mut_rc -ne 0 ] && echo fails || echo PASSES)"
if [ $clean_rc -eq 0 ] && [ $build_ok = yes ] && [ $suite_ok = yes ] && [ $mut_rc -ne 0 ]; then
  d=/verif/seeded/$name; mkdir -p "$d"
  cp "$out/patch.diff" "$d/patch.diff"; [ -f "$out/notes.md" ] && cp "$out/notes.md" "$d/notes.md"
  for f in $demos; do cp "$awt/$f" "$d/$(echo $f | tr / _)"; done
  python3 - "$d" "$name" "$prop" "$demos" <<'PY'
import json,sys,subprocess
d,name,prop,demos=sys.argv[1:5]
meta={"id":name,"breaks_property":prop,"origin":"independent sub-agent given only the property text and a scratch worktree",
 "demonstration_files":[{"place_at":f,"stored_as":f.replace('/','_')} for f in demos.split()],
 "verified_here":{"patch_applies_to":subprocess.run(['git','-C','/repo','rev-parse','--short','HEAD'],capture_output=True,text=True).stdout.strip(),
   "builds_with_change":True,"repository_suite_passes_with_change":True,"demonstration_passes_without_change":True,"demonstration_fails_with_change":True,
   "commands":"scripts/verify_seeded.sh: fresh worktree of /repo HEAD; go test -run Seeded in the demo's package before and after `git apply patch.diff`; go build ./... in every module + CLI; go test -vet=off -count=1 -skip Seeded ./... in libvore, algo, ast, ds, files"}}
json.dump(meta,open(d+'/meta.json','w'),indent=1)
PY
  echo "$name: stored in $d"
fi
