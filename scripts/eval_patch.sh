#!/bin/bash
# usage: eval_patch.sh <dir holding patch.diff> <tier> <checks...>
# Evaluates a seeded change against the CURRENT /repo HEAD: fresh scratch worktree + the patch, checks run with
# VERIF_REPO pointing at it (nothing in /repo or /verif/evidence changes); the worktree is removed afterwards.
set -u
d=$(readlink -f "$1"); tier=$2; shift 2
n=$(basename $d)
wt=/tmp/wt/E_$n
git -C /repo worktree remove --force $wt >/dev/null 2>&1
git -C /repo worktree add --detach $wt HEAD >/dev/null 2>&1 || { echo "$n: cannot create worktree"; exit 2; }
if ! git -C $wt apply $d/patch.diff 2>/dev/null; then echo "$n: patch does not apply to HEAD"; git -C /repo worktree remove --force $wt; exit 2; fi
/verif/scripts/eval_wt.sh $wt $tier "$@" | sed "s/^E_//"
git -C /repo worktree remove --force $wt >/dev/null 2>&1
