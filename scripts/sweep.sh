#!/bin/bash
# usage: sweep.sh <tier> <seed> [checks...]  — runs checks sequentially, one summary line each; evidence is restored afterwards
tier=$1; seed=$2; shift 2
checks=${@:-C01 C02 C03 C04 C05 C06 C07 C08 C09 C10 C11 C12 C13 C14 C15 C16 C17 C18 C19 C20}
cp -a /verif/evidence /verif/bin/evidence.sweep.$$
for c in $checks; do
  log=/verif/bin/sweep-$c-$tier-$seed.log
  (cd /verif && VERIF_SEED=$seed ./vcheck $c $tier > $log 2>&1); rc=$?
  echo "$c $tier seed=$seed exit=$rc $(tail -1 $log | cut -c1-150)"
  [ $rc -ne 0 ] && grep -m3 "^VIOLATION\|^INCONCLUSIVE\|class:" $log | cut -c1-200
done
rm -rf /verif/evidence && mv /verif/bin/evidence.sweep.$$ /verif/evidence
