#!/bin/bash
# Applies one seeded change to /repo, runs the given checks against it, restores /repo.
# usage: run_seeded.sh <seeded-dir> <tier> <check> [<check>...]     (e.g. run_seeded.sh seeded/C01 quick C01 C13)
# Prints one line per check: "<seeded-id> <check> <tier> exit=<code> caught=<yes|no>"
set -u
d=$(readlink -f "$1"); tier=$2; shift 2
if [ -n "$(git -C /repo status --porcelain)" ]; then echo "/repo is not clean"; exit 2; fi
restore() { git -C /repo checkout -- . ; git -C /repo clean -fdq -- libvore main.go 2>/dev/null; }
trap restore EXIT
if ! git -C /repo apply "$d/patch.diff"; then echo "patch does not apply: $d"; exit 2; fi
mkdir -p /verif/bin/seeded-logs
cp -a /verif/evidence /verif/bin/evidence.saved
for c in "$@"; do
  log=/verif/bin/seeded-logs/$(basename "$d")-$c-$tier.log
  (cd /verif && timeout 3600 ./vcheck "$c" "$tier" > "$log" 2>&1); rc=$?
  caught=no; [ $rc -eq 1 ] && grep -q "^VIOLATION property=$c " "$log" && caught=yes
  echo "$(basename "$d") $c $tier exit=$rc caught=$caught  $(grep -m1 '  class:' "$log" | cut -c1-120)"
done
# evidence files must describe the unchanged tree: put them back
rm -rf /verif/evidence && mv /verif/bin/evidence.saved /verif/evidence
