#!/usr/bin/env python3
"""Regenerates /verif/MANIFEST.json from the table below (kept in one place so it stays valid)."""
import json, subprocess

CHECKS = {
 # id: (technique, level text, level_note, design_ref)
}
exec(open('/verif/scripts/manifest_table.py').read())

hooks = subprocess.run(['git','-C','/repo','log','--format=%H %s'],capture_output=True,text=True).stdout.splitlines()
hook_commits = [l.split()[0] for l in hooks if ' verif hook:' in l]

props = [json.loads(l)['id'] for l in open('/verif/properties.jsonl')]
checks = []
na = []
for pid in props:
    if pid in CHECKS:
        tech, text, note, ref = CHECKS[pid]
        checks.append({
          "property_id": pid,
          "quick_cmd": f"./vcheck {pid} quick",
          "thorough_cmd": f"./vcheck {pid} thorough",
          "evidence_file": f"/verif/evidence/{pid}.json",
          "replay_cmd_template": "./vcheck --replay {path}",
          "engine": "vcheck",
          "level_claimed": {"category": "exploration", "text": text, "design_ref": ref},
          "level_note": note,
          "technique": tech,
        })
    else:
        na.append({"property_id": pid, "reason": NOT_CLAIMED.get(pid, "check not built yet (work in progress in this session)")})

m = {
 "version": 1,
 "setup_cmd": "cd /verif/harness && GOFLAGS=-mod=mod GOPROXY=off GOSUMDB=off GOTOOLCHAIN=local GOWORK=off go build -o /verif/bin/vcheck-setup ./cmd/vcheck && GOFLAGS=-mod=mod GOPROXY=off GOSUMDB=off GOTOOLCHAIN=local GOWORK=off go build -tags verif -o /verif/bin/vworker-setup ./cmd/vworker",
 "hooks": {
   "guard": "verif",
   "enable": "go build -tags verif (harness module /verif/harness replaces all libvore modules with /repo/libvore/...; every check rebuilds the worker from /repo's working tree)",
   "baseline_off_cmd": "/verif/scripts/baseline_off.sh",
   "source_commits": hook_commits,
   "add_only": True,
 },
 "engines": [{"name": "vcheck", "path": "/verif/harness", "serves_properties": [c["property_id"] for c in checks],
              "kind_free_text": "runtime monitoring: driver (oracles, reference models, history checkers) + killable worker processes linking the real library with verif-tagged hooks; Go race detector for C19; strace for CLI write monitoring"}],
 "checks": checks,
 "not_applicable": na,
 "notes": "Exit codes: 0 held on everything observed; 1 VIOLATION (unlisted); 2 BUILD-FAILED; 3 INCONCLUSIVE (coverage floor missed, guard tripped, oracle self-check disagreed) - never a VIOLATION line. Known findings: /verif/known_findings.json.",
}
json.dump(m, open('/verif/MANIFEST.json','w'), indent=1)
print("checks:", len(checks), "not claimed:", len(na))
