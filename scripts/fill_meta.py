#!/usr/bin/env python3
# usage: fill_meta.py <name> <change> <needs> <result-text> [check that detects it, default: the property's own]
import json,sys
n,change,needs,result=sys.argv[1:5]
p=f'/verif/seeded/{n}/meta.json'
m=json.load(open(p))
prop=m['breaks_property']
if len(sys.argv)>5: prop=sys.argv[5]
m['change']=change
m['needs_in_order_to_manifest']=needs
m['detection']={"check":prop,"tier":"quick","result":result,
 "how_run":f"scripts/eval_wt.sh <worktree with the patch applied> quick {prop}; reproducible on /repo with scripts/run_seeded.sh seeded/{n} quick {prop}"}
json.dump(m,open(p,'w'),indent=1)
