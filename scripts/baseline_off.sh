#!/bin/bash
# Runs the repository's own test suite with the verif guard OFF (no build tags).
# Workspace mode (go.work) is how the repository builds; modules listed are those with tests.
export GOPROXY=off GOSUMDB=off GOTOOLCHAIN=local GOFLAGS=
rc=0
for m in libvore libvore/algo libvore/ast libvore/ds libvore/files libvore/bytecode libvore/engine; do
  (cd /repo/$m && go test -vet=off -count=1 -timeout 25m ./...) || rc=1
done
# leftovers the files tests write into their cwd
exit $rc
