NOT_CLAIMED = {}
CHECKS = {
 "C01": ("reference-model monitor: independent backtracking matcher + Go regexp arbiter over generated programs x program-derived inputs, VM step hook for coverage",
         "Every run of the real engine on generated (program, input) pairs is compared with an independent executable model of the documented semantics; on the regular subset the model itself is cross-checked against Go's regexp on every case. Held-on-observed, not for-all: bounds are in the evidence.",
         "Trusts the harness reference matcher (cross-checked vs Go regexp on the regular subset) and the generator's reading of the grammar; inputs <= 14 bytes.", "DESIGN.md 5/C01"),
}
