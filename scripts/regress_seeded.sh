#!/bin/bash
# Re-applies every stored seeded change to /repo in turn and runs the quick tier of the check recorded as detecting it (normally the check of the property it breaks).
# usage: regress_seeded.sh [name-glob]      Output: one line per change; exit 1 if any is not caught.
set -u
cd /verif
fail=0
for d in seeded/${1:-*}/; do
  n=$(basename $d)
  prop=$(python3 -c "import json;m=json.load(open('$d/meta.json'));print(m.get('detection',{}).get('check') or m['breaks_property'])")
  line=$(./scripts/run_seeded.sh $d quick $prop 2>&1 | tail -1)
  echo "$line"
  echo "$line" | grep -q "caught=yes" || fail=1
done
exit $fail
