#!/bin/bash
# Re-applies every stored seeded change to /repo in turn and runs the check recorded as detecting it, in the tier recorded (quick unless the meta.json says thorough) (normally the check of the property it breaks).
# usage: regress_seeded.sh [name-glob]      Output: one line per change; exit 1 if any is not caught.
set -u
cd /verif
fail=0
for d in seeded/${1:-*}/; do
  n=$(basename $d)
  prop=$(python3 -c "import json;m=json.load(open('$d/meta.json'));print(m.get('detection',{}).get('check') or m['breaks_property'])")
  tier=$(python3 -c "import json;m=json.load(open('$d/meta.json'));print(m.get('detection',{}).get('tier') or 'quick')")
  line=$(./scripts/run_seeded.sh $d $tier $prop 2>&1 | tail -1)
  echo "$line"
  echo "$line" | grep -q "caught=yes" || fail=1
done
exit $fail
