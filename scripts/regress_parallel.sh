#!/bin/bash
# Like regress_seeded.sh, but never touches /repo: every stored change is applied in its own scratch worktree
# (scripts/eval_patch.sh) and P of them run at a time.  usage: regress_parallel.sh <P> [name-glob]
# Output: one line per change; exit 1 if any is not caught.
set -u
cd /verif
P=${1:-4}; glob=${2:-*}
one() {
  d=$1; n=$(basename $d)
  prop=$(python3 -c "import json;m=json.load(open('$d/meta.json'));print(m.get('detection',{}).get('check') or m['breaks_property'])")
  tier=$(python3 -c "import json;m=json.load(open('$d/meta.json'));print(m.get('detection',{}).get('tier') or 'quick')")
  ./scripts/eval_patch.sh $d $tier $prop 2>&1 | tail -1
}
export -f one
ls -d seeded/$glob/ | xargs -P $P -I{} bash -c 'one {}' | tee /tmp/regress_parallel.$$.log
! grep -v "caught=yes" /tmp/regress_parallel.$$.log | grep -q .
rc=$?; rm -f /tmp/regress_parallel.$$.log; exit $rc
