// Package ref is the executable model of the search language: a continuation-passing
// backtracker over the harness's own AST, with a persistent environment so that bindings
// of abandoned paths vanish by construction. It never sees the library's parse.
package ref

import (
	"strings"

	"verifharness/gen"
)

// Env is a persistent association list.
type Env struct {
	name string
	val  string
	next *Env
}

func (e *Env) Bind(name, val string) *Env { return &Env{name, val, e} }

func (e *Env) Get(name string) (string, bool) {
	for p := e; p != nil; p = p.next {
		if p.name == name {
			return p.val, true
		}
	}
	return "", false
}

func (e *Env) Map() map[string]string {
	m := map[string]string{}
	for p := e; p != nil; p = p.next {
		if _, ok := m[p.name]; !ok {
			m[p.name] = p.val
		}
	}
	return m
}

// Policy selects the answer at the word-anchor positions where the documentation does
// not fix the meaning (DESIGN §4.2): CodeLike answers "true", Conventional answers like \b.
type Policy int

const (
	CodeLike Policy = iota
	Conventional
)

type Span struct {
	S, E int
	Vars map[string]string
}

type Matcher struct {
	Text    string
	Prog    *gen.Program
	Policy  Policy
	Steps   int
	Budget  int
	GaveUp  bool
	subs    map[string][]gen.Node
	globals map[string]*gen.Global
	depth   int
}

func New(p *gen.Program, text string, pol Policy, budget int) *Matcher {
	m := &Matcher{Text: text, Prog: p, Policy: pol, Budget: budget, subs: map[string][]gen.Node{}, globals: map[string]*gen.Global{}}
	for i := range p.Globals {
		g := &p.Globals[i]
		m.globals[g.Name] = g
	}
	return m
}

func collectSubs(nodes []gen.Node, into map[string][]gen.Node) {
	for _, n := range nodes {
		switch x := n.(type) {
		case gen.SubDef:
			into[x.Name] = x.Body
			collectSubs(x.Body, into)
		case gen.Seq:
			collectSubs(x.Items, into)
		case gen.Loop:
			collectSubs([]gen.Node{x.Body}, into)
		case gen.Or:
			collectSubs(x.Alts, into)
		case gen.Capture:
			collectSubs([]gen.Node{x.Body}, into)
		case gen.Regex:
			collectSubs([]gen.Node{x.Tree}, into)
		}
	}
}

func isWord(b byte) bool {
	return (b >= 'a' && b <= 'z') || (b >= 'A' && b <= 'Z') || (b >= '0' && b <= '9') || b == '_'
}

func classHas(kind string, b byte) bool {
	switch kind {
	case "any":
		return true
	case "whitespace":
		return b == ' ' || b == '\t' || b == '\n' || b == '\r'
	case "digit":
		return b >= '0' && b <= '9'
	case "upper":
		return b >= 'A' && b <= 'Z'
	case "lower":
		return b >= 'a' && b <= 'z'
	case "letter":
		return (b >= 'a' && b <= 'z') || (b >= 'A' && b <= 'Z')
	}
	return false
}

func foldEq(a, b string) bool {
	if len(a) != len(b) {
		return false
	}
	for i := 0; i < len(a); i++ {
		x, y := a[i], b[i]
		if x >= 'A' && x <= 'Z' {
			x += 32
		}
		if y >= 'A' && y <= 'Z' {
			y += 32
		}
		if x != y {
			return false
		}
	}
	return true
}

func (m *Matcher) anchor(kind string, p int) bool {
	t := m.Text
	n := len(t)
	switch kind {
	case "filestart":
		return p == 0
	case "fileend":
		return p == n
	case "linestart":
		return p == 0 || t[p-1] == '\n'
	case "lineend":
		return p == n || t[p] == '\n' || (p+1 < n && t[p] == '\r' && t[p+1] == '\n')
	case "wordstart":
		if p == n {
			return m.Policy == CodeLike
		}
		if p == 0 {
			return isWord(t[p])
		}
		return isWord(t[p]) && !isWord(t[p-1])
	case "wordend":
		if p == 0 {
			return m.Policy == CodeLike
		}
		if p == n {
			if isWord(t[p-1]) {
				return true
			}
			return m.Policy == CodeLike
		}
		return !isWord(t[p]) && isWord(t[p-1])
	}
	return false
}

type cont func(pos int, e *Env) bool

func (m *Matcher) tick() bool {
	m.Steps++
	if m.Budget > 0 && m.Steps > m.Budget {
		m.GaveUp = true
		return false
	}
	return true
}

func (m *Matcher) seq(items []gen.Node, i int, pos int, e *Env, k cont) bool {
	if i == len(items) {
		return k(pos, e)
	}
	return m.node(items[i], pos, e, func(p int, e2 *Env) bool {
		return m.seq(items, i+1, p, e2, k)
	})
}

func (m *Matcher) itemMatch(it gen.ListItem, pos int) (int, bool) {
	t := m.Text
	switch it.Kind {
	case "lit":
		l := len(it.S)
		if l == 0 || pos+l > len(t) {
			return 0, false
		}
		sub := t[pos : pos+l]
		if it.Caseless {
			return l, foldEq(sub, it.S)
		}
		return l, sub == it.S
	case "range":
		if pos >= len(t) {
			return 0, false
		}
		b := t[pos]
		return 1, it.From[0] <= b && b <= it.To[0]
	case "class":
		if pos >= len(t) {
			return 0, false
		}
		return 1, classHas(it.Class, t[pos])
	}
	return 0, false
}

func (m *Matcher) node(n gen.Node, pos int, e *Env, k cont) bool {
	if m.GaveUp || !m.tick() {
		return false
	}
	t := m.Text
	switch x := n.(type) {
	case gen.Lit:
		l := len(x.S)
		if l == 0 {
			return false // the empty literal is outside the generator scope
		}
		if pos+l > len(t) {
			return false
		}
		sub := t[pos : pos+l]
		eq := sub == x.S
		if x.Caseless {
			eq = foldEq(sub, x.S)
		}
		if eq != x.Not {
			return k(pos+l, e)
		}
		return false
	case gen.Class:
		if x.Not && x.Kind == "any" {
			return false
		}
		if pos >= len(t) {
			return false
		}
		if classHas(x.Kind, t[pos]) != x.Not {
			return k(pos+1, e)
		}
		return false
	case gen.Anchor:
		if m.anchor(x.Kind, pos) != x.Not {
			return k(pos, e)
		}
		return false
	case gen.In:
		if !x.Not {
			for _, it := range x.Items {
				if l, ok := m.itemMatch(it, pos); ok {
					if k(pos+l, e) {
						return true
					}
					if m.GaveUp {
						return false
					}
				}
			}
			return false
		}
		for _, it := range x.Items {
			if _, ok := m.itemMatch(it, pos); ok {
				return false
			}
		}
		if pos >= len(t) {
			return false
		}
		return k(pos+1, e)
	case gen.Seq:
		return m.seq(x.Items, 0, pos, e, k)
	case gen.Or:
		for _, a := range x.Alts {
			if m.node(a, pos, e, k) {
				return true
			}
			if m.GaveUp {
				return false
			}
		}
		return false
	case gen.Capture:
		return m.node(x.Body, pos, e, func(p int, e2 *Env) bool {
			return k(p, e2.Bind(x.Name, t[pos:p]))
		})
	case gen.BackRef:
		v, ok := e.Get(x.Name)
		if !ok {
			return false
		}
		if pos+len(v) > len(t) || t[pos:pos+len(v)] != v {
			return false
		}
		return k(pos+len(v), e)
	case gen.SubDef:
		return m.call(x.Body, nil, pos, e, k)
	case gen.SubCall:
		body, ok := m.subs[x.Name]
		if !ok {
			return false
		}
		return m.call(body, nil, pos, e, k)
	case gen.GlobalRef:
		g, ok := m.globals[x.Name]
		if !ok {
			return false
		}
		return m.call(g.Body, g.Pred, pos, e, k)
	case gen.Regex:
		return m.node(x.Tree, pos, e, k)
	case gen.Loop:
		return m.loop(x, pos, e, k)
	}
	panic("ref: unknown node")
}

func (m *Matcher) call(body []gen.Node, pred *gen.Pred, pos int, e *Env, k cont) bool {
	m.depth++
	defer func() { m.depth-- }()
	if m.depth > 2000 {
		m.GaveUp = true
		return false
	}
	return m.seq(body, 0, pos, e, func(p int, e2 *Env) bool {
		if pred != nil && !pred.Fn(m.Text[pos:p]) {
			return false
		}
		return k(p, e2)
	})
}

func (m *Matcher) loop(l gen.Loop, pos int, e *Env, k cont) bool {
	// mandatory copies (vore unrolls them: no zero-width guard there)
	var mand func(i int, p int, e2 *Env) bool
	mand = func(i int, p int, e2 *Env) bool {
		if i == l.Min {
			if l.Min == l.Max {
				return k(p, e2)
			}
			rem := -1
			if l.Max >= 0 {
				rem = l.Max - l.Min
			}
			return m.optional(l, rem, 0, p, e2, k)
		}
		return m.node(l.Body, p, e2, func(p2 int, e3 *Env) bool { return mand(i+1, p2, e3) })
	}
	return mand(0, pos, e)
}

func (m *Matcher) optional(l gen.Loop, rem int, done int, pos int, e *Env, k cont) bool {
	if m.GaveUp || !m.tick() {
		return false
	}
	more := func() bool {
		if rem >= 0 && done >= rem {
			return false
		}
		return m.node(l.Body, pos, e, func(p2 int, e2 *Env) bool {
			if p2 == pos {
				return false // an optional iteration that consumes nothing fails
			}
			return m.optional(l, rem, done+1, p2, e2, k)
		})
	}
	if l.Lazy {
		if k(pos, e) {
			return true
		}
		if m.GaveUp {
			return false
		}
		return more()
	}
	if more() {
		return true
	}
	if m.GaveUp {
		return false
	}
	return k(pos, e)
}

// MatchAt returns the first complete match of body starting exactly at pos.
func (m *Matcher) MatchAt(body []gen.Node, pos int) (end int, vars map[string]string, ok bool) {
	var fe *Env
	ok = m.seq(body, 0, pos, nil, func(p int, e *Env) bool {
		end = p
		fe = e
		return true
	})
	if ok {
		vars = fe.Map()
	}
	return
}

// Scan is the outer loop the property states: non-empty first matches, resumed at their
// end; one byte forward after a failure or an empty match; nothing on empty input.
func (m *Matcher) Scan(body []gen.Node) []Span {
	m.subs = map[string][]gen.Node{}
	for _, g := range m.Prog.Globals {
		collectSubs(g.Body, m.subs)
	}
	collectSubs(body, m.subs)
	var out []Span
	n := len(m.Text)
	if n == 0 {
		return out
	}
	p := 0
	for p < n {
		end, vars, ok := m.MatchAt(body, p)
		if m.GaveUp {
			return out
		}
		if ok && end > p {
			out = append(out, Span{p, end, vars})
			p = end
		} else {
			p++
		}
	}
	return out
}

// HasWordAnchor reports whether the don't-care policy can matter for the program.
func HasWordAnchor(nodes []gen.Node) bool {
	for _, n := range nodes {
		switch x := n.(type) {
		case gen.Anchor:
			if strings.HasPrefix(x.Kind, "word") {
				return true
			}
		case gen.Seq:
			if HasWordAnchor(x.Items) {
				return true
			}
		case gen.Loop:
			if HasWordAnchor([]gen.Node{x.Body}) {
				return true
			}
		case gen.Or:
			if HasWordAnchor(x.Alts) {
				return true
			}
		case gen.Capture:
			if HasWordAnchor([]gen.Node{x.Body}) {
				return true
			}
		case gen.SubDef:
			if HasWordAnchor(x.Body) {
				return true
			}
		case gen.Regex:
			if HasWordAnchor([]gen.Node{x.Tree}) {
				return true
			}
		}
	}
	return false
}
