// Package ref is the executable model of the search language: a continuation-passing
// backtracker over the harness's own AST, with a persistent environment so that bindings
// of abandoned paths vanish by construction. It never sees the library's parse.
package ref

import (
	"strings"

	"verifharness/gen"
)

// Val is a variable value: a string, or (for named loops) a map of values.
type Val struct {
	IsMap bool
	S     string
	M     map[string]Val // never mutated after construction
}

func StrVal(s string) Val { return Val{S: s} }

// Env is a persistent association list.
type Env struct {
	name string
	val  Val
	next *Env
}

func (e *Env) BindVal(name string, v Val) *Env { return &Env{name, v, e} }

func (e *Env) Bind(name, val string) *Env { return &Env{name, StrVal(val), e} }

// Get returns the string bound to name (a map-valued name does not count: vore fails such a back-reference).
func (e *Env) Get(name string) (string, bool) {
	for p := e; p != nil; p = p.next {
		if p.name == name {
			if p.val.IsMap {
				return "", false
			}
			return p.val.S, true
		}
	}
	return "", false
}

// Map flattens the environment; map values appear as "<map>".
func (e *Env) Map() map[string]string {
	m := map[string]string{}
	for p := e; p != nil; p = p.next {
		if _, ok := m[p.name]; !ok {
			if p.val.IsMap {
				m[p.name] = "<map>"
			} else {
				m[p.name] = p.val.S
			}
		}
	}
	return m
}

// Tree returns the full (nested) variable map.
func (e *Env) Tree() map[string]Val {
	m := map[string]Val{}
	for p := e; p != nil; p = p.next {
		if _, ok := m[p.name]; !ok {
			m[p.name] = p.val
		}
	}
	return m
}

// Frame is one active *named* loop: bindings made inside it go to the map of its current iteration.
// Frames are immutable; every change builds a new one.
type Frame struct {
	name   string
	iter   int
	vars   map[int]map[string]Val // iteration -> name -> value (copied on write)
	parent *Frame
}

// Ctx is what a continuation carries: the flat environment and the stack of named-loop frames.
type Ctx struct {
	E *Env
	F *Frame
}

func (c Ctx) bind(name string, v Val) Ctx {
	if c.F == nil {
		return Ctx{c.E.BindVal(name, v), nil}
	}
	f := c.F
	nv := make(map[int]map[string]Val, len(f.vars))
	for k, m := range f.vars {
		nv[k] = m
	}
	cur := map[string]Val{}
	for k, x := range f.vars[f.iter] {
		cur[k] = x
	}
	cur[name] = v
	nv[f.iter] = cur
	return Ctx{c.E, &Frame{f.name, f.iter, nv, f.parent}}
}

func (f *Frame) snapshot() Val {
	m := map[string]Val{}
	for k, it := range f.vars {
		im := map[string]Val{}
		for n, v := range it {
			im[n] = v
		}
		m[itoa(k)] = Val{IsMap: true, M: im}
	}
	return Val{IsMap: true, M: m}
}

func itoa(n int) string {
	if n == 0 {
		return "0"
	}
	s := ""
	for n > 0 {
		s = string(rune('0'+n%10)) + s
		n /= 10
	}
	return s
}

// Policy selects the answer at the word-anchor positions where the documentation does
// not fix the meaning (DESIGN §4.2): CodeLike answers "true", Conventional answers like \b.
type Policy int

const (
	CodeLike Policy = iota
	Conventional
)

type Span struct {
	S, E int
	Vars map[string]string // flat view (maps shown as "<map>")
	Tree map[string]Val    // full nested view
}

type Matcher struct {
	Text     string
	Prog     *gen.Program
	Policy   Policy
	Steps    int
	Budget   int
	GaveUp   bool
	subs     map[string][]gen.Node
	globals  map[string]*gen.Global
	depth    int
	lastTree map[string]Val
}

func New(p *gen.Program, text string, pol Policy, budget int) *Matcher {
	m := &Matcher{Text: text, Prog: p, Policy: pol, Budget: budget, subs: map[string][]gen.Node{}, globals: map[string]*gen.Global{}}
	for i := range p.Globals {
		g := &p.Globals[i]
		m.globals[g.Name] = g
	}
	return m
}

func collectSubs(nodes []gen.Node, into map[string][]gen.Node) {
	for _, n := range nodes {
		switch x := n.(type) {
		case gen.SubDef:
			into[x.Name] = x.Body
			collectSubs(x.Body, into)
		case gen.Seq:
			collectSubs(x.Items, into)
		case gen.Loop:
			collectSubs([]gen.Node{x.Body}, into)
		case gen.Or:
			collectSubs(x.Alts, into)
		case gen.Capture:
			collectSubs([]gen.Node{x.Body}, into)
		case gen.Regex:
			collectSubs([]gen.Node{x.Tree}, into)
		}
	}
}

func isWord(b byte) bool {
	return (b >= 'a' && b <= 'z') || (b >= 'A' && b <= 'Z') || (b >= '0' && b <= '9') || b == '_'
}

func classHas(kind string, b byte) bool {
	switch kind {
	case "any":
		return true
	case "whitespace":
		return b == ' ' || b == '\t' || b == '\n' || b == '\r'
	case "digit":
		return b >= '0' && b <= '9'
	case "upper":
		return b >= 'A' && b <= 'Z'
	case "lower":
		return b >= 'a' && b <= 'z'
	case "letter":
		return (b >= 'a' && b <= 'z') || (b >= 'A' && b <= 'Z')
	}
	return false
}

// foldEq: caseless equality of two equally long byte strings = Unicode simple case folding (strings.EqualFold),
// which is plain ASCII folding on ASCII. The language documentation leaves `caseless` undescribed (TODO); this is
// what the pinned implementation does and what the property's "pattern as written" is taken to mean.
func foldEq(a, b string) bool {
	if len(a) != len(b) {
		return false
	}
	return strings.EqualFold(a, b)
}

func (m *Matcher) anchor(kind string, p int) bool {
	t := m.Text
	n := len(t)
	switch kind {
	case "filestart":
		return p == 0
	case "fileend":
		return p == n
	case "linestart":
		return p == 0 || t[p-1] == '\n'
	case "lineend":
		return p == n || t[p] == '\n' || (p+1 < n && t[p] == '\r' && t[p+1] == '\n')
	case "wordstart":
		if p == n {
			return m.Policy == CodeLike
		}
		if p == 0 {
			return isWord(t[p])
		}
		return isWord(t[p]) && !isWord(t[p-1])
	case "wordend":
		if p == 0 {
			return m.Policy == CodeLike
		}
		if p == n {
			if isWord(t[p-1]) {
				return true
			}
			return m.Policy == CodeLike
		}
		return !isWord(t[p]) && isWord(t[p-1])
	}
	return false
}

type cont func(pos int, e Ctx) bool

func (m *Matcher) tick() bool {
	m.Steps++
	if m.Budget > 0 && m.Steps > m.Budget {
		m.GaveUp = true
		return false
	}
	return true
}

func (m *Matcher) seq(items []gen.Node, i int, pos int, e Ctx, k cont) bool {
	if i == len(items) {
		return k(pos, e)
	}
	return m.node(items[i], pos, e, func(p int, e2 Ctx) bool {
		return m.seq(items, i+1, p, e2, k)
	})
}

func (m *Matcher) itemMatch(it gen.ListItem, pos int) (int, bool) {
	t := m.Text
	switch it.Kind {
	case "lit":
		l := len(it.S)
		if l == 0 || pos+l > len(t) {
			return 0, false
		}
		sub := t[pos : pos+l]
		if it.Caseless {
			return l, foldEq(sub, it.S)
		}
		return l, sub == it.S
	case "range":
		if len(it.From) != 1 || len(it.To) != 1 {
			// bounds of more than one byte: the candidate lengths len(To) .. len(From) are tried longest first,
			// each compared as a string; a length the input has no room for is skipped
			for i := len(it.To); i >= len(it.From); i-- {
				if i < 1 || pos+i > len(t) {
					continue
				}
				v := t[pos : pos+i]
				if it.From <= v && v <= it.To {
					return i, true
				}
			}
			return 0, false
		}
		if pos >= len(t) {
			return 0, false
		}
		b := t[pos]
		return 1, it.From[0] <= b && b <= it.To[0]
	case "class":
		if pos >= len(t) {
			return 0, false
		}
		return 1, classHas(it.Class, t[pos])
	}
	return 0, false
}

func (m *Matcher) node(n gen.Node, pos int, e Ctx, k cont) bool {
	if m.GaveUp || !m.tick() {
		return false
	}
	t := m.Text
	switch x := n.(type) {
	case gen.Lit:
		l := len(x.S)
		if l == 0 {
			// the empty string matches everywhere without consuming; its negation matches nowhere
			if x.Not {
				return false
			}
			return k(pos, e)
		}
		if pos+l > len(t) {
			return false
		}
		sub := t[pos : pos+l]
		eq := sub == x.S
		if x.Caseless {
			eq = foldEq(sub, x.S)
		}
		if eq != x.Not {
			return k(pos+l, e)
		}
		return false
	case gen.Class:
		if x.Not && x.Kind == "any" {
			return false
		}
		if pos >= len(t) {
			return false
		}
		if classHas(x.Kind, t[pos]) != x.Not {
			return k(pos+1, e)
		}
		return false
	case gen.Anchor:
		if m.anchor(x.Kind, pos) != x.Not {
			return k(pos, e)
		}
		return false
	case gen.In:
		if !x.Not {
			for _, it := range x.Items {
				if l, ok := m.itemMatch(it, pos); ok {
					if k(pos+l, e) {
						return true
					}
					if m.GaveUp {
						return false
					}
				}
			}
			return false
		}
		for _, it := range x.Items {
			if _, ok := m.itemMatch(it, pos); ok {
				return false
			}
		}
		if pos >= len(t) {
			return false
		}
		return k(pos+1, e)
	case gen.Seq:
		return m.seq(x.Items, 0, pos, e, k)
	case gen.Or:
		for _, a := range x.Alts {
			if m.node(a, pos, e, k) {
				return true
			}
			if m.GaveUp {
				return false
			}
		}
		return false
	case gen.Capture:
		return m.node(x.Body, pos, e, func(p int, e2 Ctx) bool {
			return k(p, e2.bind(x.Name, StrVal(t[pos:p])))
		})
	case gen.BackRef:
		v, ok := e.E.Get(x.Name)
		if !ok {
			return false
		}
		if pos+len(v) > len(t) || t[pos:pos+len(v)] != v {
			return false
		}
		return k(pos+len(v), e)
	case gen.SubDef:
		return m.call(x.Body, nil, pos, e, k)
	case gen.SubCall:
		body, ok := m.subs[x.Name]
		if !ok {
			return false
		}
		return m.call(body, nil, pos, e, k)
	case gen.GlobalRef:
		g, ok := m.globals[x.Name]
		if !ok {
			return false
		}
		return m.call(g.Body, g.Pred, pos, e, k)
	case gen.Regex:
		return m.node(x.Tree, pos, e, k)
	case gen.Loop:
		return m.loop(x, pos, e, k)
	}
	panic("ref: unknown node")
}

func (m *Matcher) call(body []gen.Node, pred *gen.Pred, pos int, e Ctx, k cont) bool {
	m.depth++
	defer func() { m.depth-- }()
	if m.depth > 2000 {
		m.GaveUp = true
		return false
	}
	return m.seq(body, 0, pos, e, func(p int, e2 Ctx) bool {
		if pred != nil && !pred.Fn(m.Text[pos:p]) {
			return false
		}
		return k(p, e2)
	})
}

func (m *Matcher) loop(l gen.Loop, pos int, e Ctx, k cont) bool {
	if l.Name != "" {
		return m.namedLoop(l, pos, e, k)
	}
	// mandatory copies (vore unrolls them: no zero-width guard there)
	var mand func(i int, p int, e2 Ctx) bool
	mand = func(i int, p int, e2 Ctx) bool {
		if i == l.Min {
			if l.Min == l.Max {
				return k(p, e2)
			}
			rem := -1
			if l.Max >= 0 {
				rem = l.Max - l.Min
			}
			return m.optional(l, rem, 0, p, e2, k)
		}
		return m.node(l.Body, p, e2, func(p2 int, e3 Ctx) bool { return mand(i+1, p2, e3) })
	}
	return mand(0, pos, e)
}

func (m *Matcher) optional(l gen.Loop, rem int, done int, pos int, e Ctx, k cont) bool {
	if m.GaveUp || !m.tick() {
		return false
	}
	more := func() bool {
		if rem >= 0 && done >= rem {
			return false
		}
		return m.node(l.Body, pos, e, func(p2 int, e2 Ctx) bool {
			if p2 == pos {
				return false // an optional iteration that consumes nothing fails
			}
			return m.optional(l, rem, done+1, p2, e2, k)
		})
	}
	if l.Lazy {
		if k(pos, e) {
			return true
		}
		if m.GaveUp {
			return false
		}
		return more()
	}
	if more() {
		return true
	}
	if m.GaveUp {
		return false
	}
	return k(pos, e)
}

// MatchAt returns the first complete match of body starting exactly at pos.
func (m *Matcher) MatchAt(body []gen.Node, pos int) (end int, vars map[string]string, ok bool) {
	var fe *Env
	ok = m.seq(body, 0, pos, Ctx{}, func(p int, e Ctx) bool {
		end = p
		fe = e.E
		return true
	})
	if ok {
		vars = fe.Map()
		m.lastTree = fe.Tree()
	}
	return
}

// namedLoop: a loop with a name is not unrolled by vore. Every arrival at the loop head (first entry
// and after each iteration) opens a fresh per-iteration variable map; an iteration that consumed
// nothing fails, also a mandatory one; bindings made in the body go to the current iteration's map of
// the nearest named loop; on exit the loop's name is bound (in the enclosing scope) to the map of
// iteration maps collected so far.
func (m *Matcher) namedLoop(l gen.Loop, pos int, e Ctx, k cont) bool {
	var arrive func(iter int, p int, c Ctx) bool
	arrive = func(iter int, p int, c Ctx) bool {
		if m.GaveUp || !m.tick() {
			return false
		}
		// open iteration `iter`
		f := c.F
		nv := make(map[int]map[string]Val, len(f.vars)+1)
		for kk, mm := range f.vars {
			nv[kk] = mm
		}
		nv[iter] = map[string]Val{}
		fr := &Frame{f.name, iter, nv, f.parent}
		inner := Ctx{c.E, fr}
		body := func() bool {
			return m.node(l.Body, p, inner, func(p2 int, c2 Ctx) bool {
				if p2 == p {
					return false
				}
				return arrive(iter+1, p2, c2)
			})
		}
		if iter < l.Min {
			return body()
		}
		if l.Max >= 0 && iter > l.Max {
			return false
		}
		exit := func() bool {
			return k(p, Ctx{c.E, fr.parent}.bind(l.Name, fr.snapshot()))
		}
		canMore := l.Max < 0 || iter < l.Max
		if l.Lazy {
			if exit() {
				return true
			}
			if m.GaveUp || !canMore {
				return false
			}
			return body()
		}
		if canMore && body() {
			return true
		}
		if m.GaveUp {
			return false
		}
		return exit()
	}
	start := Ctx{e.E, &Frame{l.Name, 0, map[int]map[string]Val{}, e.F}}
	return arrive(0, pos, start)
}

// Scan is the outer loop the property states: non-empty first matches, resumed at their
// end; one byte forward after a failure or an empty match; nothing on empty input.
func (m *Matcher) Scan(body []gen.Node) []Span {
	m.subs = map[string][]gen.Node{}
	for _, g := range m.Prog.Globals {
		collectSubs(g.Body, m.subs)
	}
	collectSubs(body, m.subs)
	var out []Span
	n := len(m.Text)
	if n == 0 {
		return out
	}
	p := 0
	for p < n {
		end, vars, ok := m.MatchAt(body, p)
		if m.GaveUp {
			return out
		}
		if ok && end > p {
			out = append(out, Span{p, end, vars, m.lastTree})
			p = end
		} else {
			p++
		}
	}
	return out
}

// HasWordAnchor reports whether the don't-care policy can matter for the program.
func HasWordAnchor(nodes []gen.Node) bool {
	for _, n := range nodes {
		switch x := n.(type) {
		case gen.Anchor:
			if strings.HasPrefix(x.Kind, "word") {
				return true
			}
		case gen.Seq:
			if HasWordAnchor(x.Items) {
				return true
			}
		case gen.Loop:
			if HasWordAnchor([]gen.Node{x.Body}) {
				return true
			}
		case gen.Or:
			if HasWordAnchor(x.Alts) {
				return true
			}
		case gen.Capture:
			if HasWordAnchor([]gen.Node{x.Body}) {
				return true
			}
		case gen.SubDef:
			if HasWordAnchor(x.Body) {
				return true
			}
		case gen.Regex:
			if HasWordAnchor([]gen.Node{x.Tree}) {
				return true
			}
		}
	}
	return false
}
