// Package wire defines the protocol between the deciding driver (vcheck) and the
// worker processes (vworker) that link and execute the real library.
package wire

// Case is one unit of work for a worker. Byte slices travel as base64 so that
// arbitrary (non UTF-8) sources and texts survive JSON.
type Case struct {
	ID int    `json:"id"`
	Op string `json:"op"`

	Src   []byte   `json:"src,omitempty"`   // program source (run, compile, json, runfiles, hist)
	Srcs  [][]byte `json:"srcs,omitempty"`  // several sources (astcmp, conc, hist)
	Texts [][]byte `json:"texts,omitempty"` // inputs for Run
	// sources compiled (results ignored) in the same process BEFORE the case proper: history for what follows
	Prelude [][]byte `json:"prelude,omitempty"`
	// astcmp: indices of Srcs to compile through CompileFile (written to a scratch file first) instead of Compile
	ViaFile []int `json:"via_file,omitempty"`

	// budgets (0 = default)
	StepBudget int `json:"step_budget,omitempty"`
	LexBudget  int `json:"lex_budget,omitempty"`

	WantJSON bool `json:"want_json,omitempty"` // also render Json()/FormattedJson() for every run
	WantAST  bool `json:"want_ast,omitempty"`  // include canonical AST dump
	WantBC   bool `json:"want_bc,omitempty"`   // include canonical bytecode dump before/after runs

	// runfiles
	Dir   string   `json:"dir,omitempty"`
	Files []string `json:"files,omitempty"`
	Mode  string   `json:"mode,omitempty"` // NOTHING | NEW | OVERWRITE

	// reader op: random seek/read history against a file
	Path  string `json:"path,omitempty"`
	Truth []byte `json:"truth,omitempty"`
	// reader op: take the ground truth from the file itself (os.ReadFile), for files too large to ship in a case
	TruthFromFile bool    `json:"truth_from_file,omitempty"`
	Ops           int     `json:"ops,omitempty"`
	ConcRender    int     `json:"conc_render,omitempty"` // json op: also render every result list from this many goroutines at once
	Offsets       []int64 `json:"offsets,omitempty"`     // readerbig: the places the history clusters around
	Seed          uint64  `json:"seed,omitempty"`
	ReadPlan      []int   `json:"read_plan,omitempty"` // explicit (op,off,len) triples

	// glob op
	Pattern string `json:"pattern,omitempty"`
	// the same as bytes (a string that is not valid UTF-8 does not survive JSON): used instead of Pattern when set
	PatternB []byte `json:"pattern_b,omitempty"`

	// session op: several RunFiles calls (and file rewrites in between) on the same paths in ONE process
	Steps []Step `json:"steps,omitempty"`

	// conc / hist ops
	Calls      []Call `json:"calls,omitempty"`
	Goroutines int    `json:"goroutines,omitempty"`
	Yield      bool   `json:"yield,omitempty"`
	Rounds     int    `json:"rounds,omitempty"`

	// runfiles: the soft limit on open file descriptors during the call (0 = leave it alone); Rounds repeats the call
	FdLimit int `json:"fd_limit,omitempty"`
	// runfiles: search (and with a replace command: rename by) the file NAMES instead of the contents
	ProcessFilenames bool `json:"process_filenames,omitempty"`
}

// Call is one API call inside a history or a concurrent round.
type Call struct {
	Kind string `json:"k"`             // "compile" | "run" | "compile+run"
	Prog int    `json:"p"`             // index into Case.Srcs
	Text int    `json:"t"`             // index into Case.Texts
	G    int    `json:"g,omitempty"`   // goroutine the call is issued from (conc)
	Own  int    `json:"own,omitempty"` // kind "runfiles-new": the call searches its OWN copy of the text (file number Own)
	// filled by worker
	Digest string `json:"d,omitempty"`
	T0     int64  `json:"t0,omitempty"`
	T1     int64  `json:"t1,omitempty"`
	Err    string `json:"e,omitempty"`
	Panic  string `json:"x,omitempty"`
}

// Step of a session: optionally (re)write files, then optionally run a program over files.
type Step struct {
	Write       map[string][]byte `json:"write,omitempty"` // name (relative to Case.Dir) -> new content
	Src         []byte            `json:"src,omitempty"`
	Files       []string          `json:"files,omitempty"` // names relative to Case.Dir
	Mode        string            `json:"mode,omitempty"`
	Text        []byte            `json:"text,omitempty"` // also run the program on this text in memory
	WantMatches bool              `json:"want_matches,omitempty"`
}

type StepResult struct {
	CompileErr    string            `json:"compile_err,omitempty"`
	Panic         *PanicInfo        `json:"panic,omitempty"`
	NMatches      int               `json:"n_matches"`
	Matches       []Match           `json:"matches,omitempty"`
	StringMatches []Match           `json:"string_matches,omitempty"`
	Contents      map[string][]byte `json:"contents"` // every regular file in the directory after the step
}

type Var struct {
	IsMap bool            `json:"m,omitempty"`
	Str   []byte          `json:"s,omitempty"`
	Map   map[string]*Var `json:"k,omitempty"`
}

type Match struct {
	File    string `json:"f"`
	Num     int    `json:"n"`
	S       int    `json:"s"`
	E       int    `json:"e"`
	L1      int    `json:"l1"`
	L2      int    `json:"l2"`
	C1      int    `json:"c1"`
	C2      int    `json:"c2"`
	Val     []byte `json:"v"`
	HasRepl bool   `json:"hr,omitempty"`
	Repl    []byte `json:"r,omitempty"`
	Vars    *Var   `json:"vars,omitempty"`
}

type PanicInfo struct {
	Msg   string `json:"msg"`
	Frame string `json:"frame"` // first stack frame inside the repository
	Stack string `json:"stack,omitempty"`
}

type Run struct {
	ConcRenderMismatch string     `json:"conc_render_mismatch,omitempty"`
	Panic              *PanicInfo `json:"panic,omitempty"`
	Budget             string     `json:"budget,omitempty"` // "steps:N" when the step budget sentinel fired
	Matches            []Match    `json:"matches"`

	Steps      int            `json:"steps"`
	Backtracks int            `json:"bt"` // times the VM resumed from a saved choice point (pc discontinuity after FAIL paths is not visible; counted as pushes seen)
	MaxBT      int            `json:"max_bt"`
	MaxCall    int            `json:"max_call"`
	MaxLoop    int            `json:"max_loop"`
	Kinds      map[string]int `json:"kinds,omitempty"`

	JSON     []byte     `json:"json,omitempty"`
	FJSON    []byte     `json:"fjson,omitempty"`
	JSONErr  *PanicInfo `json:"json_panic,omitempty"`
	FJSONErr *PanicInfo `json:"fjson_panic,omitempty"`

	// file runs
	Reads         int      `json:"reads,omitempty"`
	ReadMismatch  string   `json:"read_mismatch,omitempty"`
	RefillFwd     int      `json:"refill_fwd,omitempty"`
	RefillBack    int      `json:"refill_back,omitempty"`
	EdgeReads     int      `json:"edge_reads,omitempty"`
	LastByteReads int      `json:"lastbyte_reads,omitempty"`
	WriteOpens    []string `json:"write_opens,omitempty"`
}

type Compile struct {
	OK       bool       `json:"ok"`
	Err      string     `json:"err,omitempty"`
	ErrType  string     `json:"err_type,omitempty"`
	Panic    *PanicInfo `json:"panic,omitempty"`
	ErrPanic *PanicInfo `json:"err_panic,omitempty"` // Error() itself panicked
	BothNil  bool       `json:"both_nil,omitempty"`
	BothSet  bool       `json:"both_set,omitempty"`
	Budget   string     `json:"budget,omitempty"`
	LexReads int        `json:"lex_reads"`
	Holes    []string   `json:"holes,omitempty"`
	AST      string     `json:"ast,omitempty"`
	BC       string     `json:"bc,omitempty"`
	BCAfter  string     `json:"bc_after,omitempty"`
	Reloc    []string   `json:"reloc,omitempty"` // instruction kinds found inside relocated (global-pattern) regions
	NInst    int        `json:"ninst,omitempty"`
}

type Result struct {
	ID          int            `json:"id"`
	Compile     *Compile       `json:"compile,omitempty"`
	Compiles    []Compile      `json:"compiles,omitempty"`
	Runs        []Run          `json:"runs,omitempty"`
	ASTEqual    []bool         `json:"ast_equal,omitempty"` // astcmp: Srcs[i] vs Srcs[0]
	Files       []string       `json:"files,omitempty"`     // glob
	FilesB      [][]byte       `json:"files_b,omitempty"`   // glob: the same names as bytes
	Calls       []Call         `json:"calls,omitempty"`
	Mismatch    string         `json:"mismatch,omitempty"` // reader op: first wrong read
	Counters    map[string]int `json:"counters,omitempty"`
	Panic       *PanicInfo     `json:"panic,omitempty"` // panic outside a classified phase
	Races       int            `json:"races,omitempty"`
	StepResults []StepResult   `json:"step_results,omitempty"`

	ElapsedMs int `json:"elapsed_ms,omitempty"` // wall time the worker spent on this case

	// filled by the driver when the worker died on this case
	Died   bool   `json:"died,omitempty"`
	Stderr string `json:"stderr,omitempty"`
	Guard  string `json:"guard,omitempty"` // "cpu" | "heap" | "wall"
}
