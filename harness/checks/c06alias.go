package checks

import (
	"bytes"
	"fmt"
	"os"
	"path/filepath"
	"sort"

	"verifharness/drv"
	"verifharness/fsmon"
	"verifharness/wire"
)

// c06Aliases: a directory argument whose entries include two or three NAMES OF ONE FILE (hard links, a symbolic link to
// a sibling) next to an independent file. The entries are searched in name order; OVERWRITE leaves in every file the
// result of replacing in what the file held when its entry's turn came (so the second name of a file finds the text
// the first one left), NEW writes <entry>.vored from the unchanged file, NOTHING changes nothing.
func c06Aliases(r *drv.Run) {
	cmds := []litCmd{{"a", "bb"}, {"ab", "a"}, {"a", "aa"}, {"b", ""}, {"a.a", "a"}, {"x", "y"}}
	contents := []string{"a.a", "ab ab abab", "aaa", "b a b", "", "xa.aab"}
	kinds := []string{"hardlink", "symlink", "hardlink+symlink", "listed-twice"}
	type job struct {
		cmd     litCmd
		content string
		kind    string
		mode    string
	}
	var jobs []job
	for ci, c := range cmds {
		for ti, t := range contents {
			for ki, k := range kinds {
				for mi, m := range []string{"OVERWRITE", "NEW", "NOTHING"} {
					if (ci+ti+ki+mi)%3 != 0 && m != "OVERWRITE" {
						continue
					}
					jobs = append(jobs, job{c, t, k, m})
				}
			}
		}
	}
	r.Exec(len(jobs), drv.ExecOpts{Batch: 8}, func(i int) *drv.Item {
		jb := jobs[i]
		dir := filepath.Join(r.WorkDir, "c06alias", fmt.Sprint(i))
		os.MkdirAll(filepath.Join(dir, "d"), 0o755)
		d := filepath.Join(dir, "d")
		os.WriteFile(filepath.Join(d, "a.txt"), []byte(jb.content), 0o644)
		os.WriteFile(filepath.Join(d, "c.txt"), []byte("c:"+jb.content), 0o644)
		// entry name -> the file it names
		real := map[string]string{"a.txt": "a.txt", "c.txt": "c.txt"}
		switch jb.kind {
		case "hardlink":
			os.Link(filepath.Join(d, "a.txt"), filepath.Join(d, "b.txt"))
			real["b.txt"] = "a.txt"
		case "symlink":
			os.Symlink("a.txt", filepath.Join(d, "b.txt"))
			real["b.txt"] = "a.txt"
		case "hardlink+symlink":
			os.Link(filepath.Join(d, "a.txt"), filepath.Join(d, "b.txt"))
			os.Symlink("b.txt", filepath.Join(d, "z.txt"))
			real["b.txt"], real["z.txt"] = "a.txt", "a.txt"
		}
		args := []string{d + "/"}
		var order []string
		for n := range real {
			order = append(order, n)
		}
		sort.Strings(order)
		if jb.kind == "listed-twice" {
			// no directory argument: the same file named twice in the list, once through another spelling
			args = []string{filepath.Join(d, "a.txt"), filepath.Join(d, "c.txt"), d + "/./a.txt"}
			order = []string{"a.txt", "c.txt", "a.txt"}
		}
		before := fsmon.Take(dir)
		src := "replace all " + quoteLit(jb.cmd.from) + " with " + quoteLit(jb.cmd.to)
		c := wire.Case{Op: "runfiles", Src: []byte(src), Files: args, Mode: jb.mode, StepBudget: 5_000_000}
		return &drv.Item{Case: c, Check: func(res *wire.Result) {
			defer os.RemoveAll(dir)
			if crashOrGuard(r, res, &c, src, false) {
				return
			}
			if res.Compile == nil || !res.Compile.OK || len(res.Runs) < 1 {
				r.Inconclusive("fixed program rejected: " + src)
				return
			}
			r.Eval(1)
			if p := res.Runs[0].Panic; p != nil {
				r.Violate(&drv.Violation{Sig: "runfiles-panic:" + p.Frame, Panic: p.Msg, Frame: p.Frame, Src: src, Case: &c, Detail: map[string]any{"mode": jb.mode, "names": jb.kind}})
				return
			}
			// model
			cur := map[string][]byte{"a.txt": []byte(jb.content), "c.txt": []byte("c:" + jb.content)}
			want := map[string][]byte{}
			for _, n := range order {
				f := real[n]
				if f == "" {
					f = n
				}
				out := bytes.ReplaceAll(cur[f], []byte(jb.cmd.from), []byte(jb.cmd.to))
				switch jb.mode {
				case "OVERWRITE":
					cur[f] = out
				case "NEW":
					want[n+".vored"] = out
				}
			}
			for f, b := range cur {
				want[f] = b
			}
			for name, exp := range want {
				got, err := os.ReadFile(filepath.Join(d, name))
				if err != nil || !bytes.Equal(got, exp) {
					r.Violate(&drv.Violation{Sig: "several-names-of-one-file:" + jb.mode, Src: src, Case: &c,
						Detail: map[string]any{"names": jb.kind, "file": name, "held_before": jb.content, "expected": string(exp), "observed": string(got), "entries_in_order": fmt.Sprint(order)}})
					return
				}
			}
			// nothing else appeared or changed
			for _, ch := range fsmon.Diff(before, fsmon.Take(dir)) {
				base := filepath.Base(ch.Path)
				_, isName := real[base] // (another name of a file that changed shows the same change)
				if _, ok := want[base]; !ok && !isName {
					r.Violate(&drv.Violation{Sig: "several-names-of-one-file:touched-another-file:" + jb.mode, Src: src, Case: &c, Detail: map[string]any{"change": ch.String(), "names": jb.kind}})
					return
				}
			}
			r.Count("calls_over_several_names_of_one_file_verified", 1)
			if jb.mode == "OVERWRITE" && jb.cmd.from != jb.cmd.to && bytes.Contains([]byte(jb.content), []byte(jb.cmd.from)) {
				r.Nontrivial(fmt.Sprintf("alias|%d", i))
			}
		}}
	})
	if r.NViolations() == 0 && r.Counter("calls_over_several_names_of_one_file_verified") == 0 {
		r.Inconclusive("coverage floor: calls_over_several_names_of_one_file_verified = 0")
	}
}

func quoteLit(s string) string { return "'" + s + "'" }
