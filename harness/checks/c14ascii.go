package checks

import (
	"verifharness/drv"
	"verifharness/gen"
	"verifharness/wire"
)

// c14EveryByte: what each escape and class of the subset says about EVERY ASCII byte of the property's domain (all
// of 0x00..0x7F but \r and \f), alone, between two letters, and in runs - the generated texts draw from some thirty
// printable bytes, and a translation that widens or narrows a class by one control byte shows only on that byte.
func c14EveryByte(r *drv.Run) {
	ws := func(not bool) gen.Node { return gen.Class{Kind: "whitespace", Not: not} }
	dg := func(not bool) gen.Node { return gen.Class{Kind: "digit", Not: not} }
	dot := gen.Lit{S: "\n", Not: true}
	a, b := gen.Lit{S: "a"}, gen.Lit{S: "b"}
	plus := func(n gen.Node) gen.Node { return gen.Loop{Min: 1, Max: -1, Body: n} }
	rng := func(not bool) gen.Node {
		return gen.In{Not: not, Items: []gen.ListItem{{Kind: "range", From: "a", To: "c"}}}
	}
	type rx struct {
		src  string
		tree gen.Seq
	}
	seq := func(n ...gen.Node) gen.Seq { return gen.Seq{Items: n} }
	res := []rx{
		{"\\s", seq(ws(false))}, {"\\S", seq(ws(true))}, {"\\s+", seq(plus(ws(false)))}, {"\\S+", seq(plus(ws(true)))},
		{"\\d", seq(dg(false))}, {"\\D", seq(dg(true))}, {"\\D+", seq(plus(dg(true)))}, {".", seq(dot)}, {".+", seq(plus(dot))},
		{"[^a]", seq(gen.In{Not: true, Items: []gen.ListItem{{Kind: "lit", S: "a"}}})}, {"[a-c]", seq(rng(false))}, {"[^a-c]+", seq(plus(rng(true)))},
		{"a\\sb", seq(a, ws(false), b)}, {"a\\Sb", seq(a, ws(true), b)}, {"a.b", seq(a, dot, b)}, {"a\\Db", seq(a, dg(true), b)}, {"a\\db", seq(a, dg(false), b)},
		{"\\s\\S", seq(ws(false), ws(true))}, {"\\S\\s", seq(ws(true), ws(false))},
	}
	var texts [][]byte
	var run []byte
	for c := 0; c < 128; c++ {
		if c == '\r' || c == '\f' {
			continue
		}
		texts = append(texts, []byte{byte(c)}, []byte{'a', byte(c), 'b'}, []byte{' ', byte(c), byte(c), '1'})
		run = append(run, byte(c))
		if len(run) == 14 {
			texts = append(texts, run)
			run = nil
		}
	}
	texts = append(texts, run)
	var cases []*c14Case
	for _, x := range res {
		re := gen.Regex{Src: x.src, Tree: x.tree}
		p := &gen.Program{Commands: []gen.Command{{Amount: gen.Amount{Kind: "all"}, Body: []gen.Node{re}}}}
		cases = append(cases, &c14Case{&gen.RegexGen{}, re, p, gen.RenderProgram(p), texts, nil})
	}
	r.Exec(len(cases), drv.ExecOpts{Batch: 4}, func(i int) *drv.Item {
		cs := cases[i]
		c := wire.Case{Op: "run", Src: []byte(cs.src), Texts: cs.texts, StepBudget: 400000}
		return &drv.Item{Case: c, Check: func(res *wire.Result) {
			c14Check(r, cs, &c, res)
			r.Count("every_ascii_byte_cases", 1)
			r.Count("every_ascii_byte_texts", len(cs.texts))
		}}
	})
}
