package checks

import (
	"fmt"
	"os"
	"path/filepath"

	"verifharness/drv"
	"verifharness/gen"
	"verifharness/wire"
)

// c03Names: RunFiles asked to search file NAMES (its third argument): the searched text of a match is the name it
// reports as Filename - Value == Filename[Start:End], lines and columns are those of that text - however the
// directory or file argument was spelled (trailing slash, doubled slash, /./, sub/../, a name with a line feed).
func c03Names(r *drv.Run) {
	dir := filepath.Join(r.WorkDir, "c03names")
	os.MkdirAll(filepath.Join(dir, "d", "sub"), 0o755)
	defer os.RemoveAll(dir)
	for _, n := range []string{"abc.txt", "a b.txt", "x1y22.dat", "two\nlines.txt", "été.txt"} {
		os.WriteFile(filepath.Join(dir, "d", n), []byte("x"), 0o644)
	}
	d := filepath.Join(dir, "d")
	args := [][]string{{d}, {d + "/"}, {d + "//"}, {d + "/."}, {d + "/sub/.."}, {dir + "/./d/"}, {dir + "//d"}, {d + "/abc.txt"}, {d + "//abc.txt", d + "/./a b.txt"}, {d + "/sub/../x1y22.dat"}}
	progs := []struct {
		src string
		am  gen.Amount
	}{
		{"find all at least 1 letter", gen.Amount{Kind: "all"}},
		{"find all 'a'", gen.Amount{Kind: "all"}},
		{"find all at least 1 digit", gen.Amount{Kind: "all"}},
		{"find last 2 any", gen.Amount{Kind: "last", Last: 2}},
		{"find all line start any", gen.Amount{Kind: "all"}},
		{"find all '.' at least 1 letter file end", gen.Amount{Kind: "all"}},
	}
	type job struct{ p, a int }
	var jobs []job
	for p := range progs {
		for a := range args {
			jobs = append(jobs, job{p, a})
		}
	}
	r.Exec(len(jobs), drv.ExecOpts{Batch: 12}, func(i int) *drv.Item {
		jb := jobs[i]
		pr := progs[jb.p]
		c := wire.Case{Op: "runfiles", Src: []byte(pr.src), Files: args[jb.a], Mode: "NOTHING", StepBudget: 5_000_000, ProcessFilenames: true}
		return &drv.Item{Case: c, Check: func(res *wire.Result) {
			if crashOrGuard(r, res, &c, pr.src, false) {
				return
			}
			if res.Compile == nil || !res.Compile.OK || len(res.Runs) < 1 {
				r.Inconclusive("fixed program rejected: " + pr.src)
				return
			}
			run := &res.Runs[0]
			r.Eval(1)
			if runTrouble(r, run, &c, pr.src, []byte(fmt.Sprint(args[jb.a])), false) {
				return
			}
			// group by reported file name, in order of appearance
			var order []string
			groups := map[string][]wire.Match{}
			for _, m := range run.Matches {
				if _, ok := groups[m.File]; !ok {
					order = append(order, m.File)
				}
				groups[m.File] = append(groups[m.File], m)
			}
			for _, name := range order {
				kind, msg := matchInvariants([]byte(name), groups[name], pr.am, isASCII([]byte(name)))
				if kind != "" {
					r.Violate(&drv.Violation{Sig: "names:" + kind, Src: pr.src, Text: name, Case: &c, Detail: map[string]any{"what": msg, "argument": fmt.Sprint(args[jb.a]), "reported_file_name": name}})
					return
				}
			}
			if len(run.Matches) > 0 {
				r.Count("file_name_searches_verified", 1)
				r.Nontrivial(fmt.Sprintf("names|%d", i))
			}
		}}
	})
	if r.NViolations() == 0 && r.Counter("file_name_searches_verified") == 0 {
		r.Inconclusive("coverage floor: file_name_searches_verified = 0")
	}
}
