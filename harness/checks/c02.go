package checks

import (
	"fmt"
	"os"
	"reflect"

	"verifharness/drv"
	"verifharness/gen"
	"verifharness/ref"
	"verifharness/wire"
)

func init() { Registry["C02"] = C02 }

func c02Random(seed uint64, i int, ntexts int) *c01Case {
	rng := gen.Derive(seed, "C02", i)
	if i%30 == 11 {
		// 9..101 captures in a row and back-references to some of them
		p, texts, _ := gen.WideProgram(rng, 0)
		return &c01Case{p, gen.RenderProgram(p), texts}
	}
	sc := gen.DefaultScope
	sc.CapHeavy = true
	sc.Globals = rng.Chance(1, 4)
	sc.GlobalCaps = true
	sc.Preds = false
	sc.WordAnch = rng.Chance(1, 3)
	if rng.Bool() {
		sc.Alpha = "abc"
	}
	pg := gen.NewPG(rng, sc)
	p := pg.FindProgram()
	if rng.Chance(1, 3) {
		// named loops: bindings made inside go to the loop's per-iteration maps - also inside stored patterns
		n := 0
		p.Commands[0].Body = gen.NameLoops(rng, p.Commands[0].Body, &n)
		for gi := range p.Globals {
			p.Globals[gi].Body = gen.NameLoops(rng, p.Globals[gi].Body, &n)
		}
	}
	if caps := gen.CaptureNames(p.Commands[0].Body); len(caps) > 0 && rng.Chance(1, 5) {
		// an unrelated stored pattern that carries the name of a capture: in this command the name is the capture
		nm := caps[rng.Intn(len(caps))]
		clash := false
		for _, g := range p.Globals {
			if g.Name == nm {
				clash = true
			}
		}
		if !clash {
			p.Globals = append([]gen.Global{{Name: nm, Body: []gen.Node{gen.Lit{S: []string{"q", "a", "ab"}[rng.Intn(3)]}}}}, p.Globals...)
		}
	}
	if rng.Chance(1, 4) {
		// the same bindings under an amount clause: a skipped or trimmed match is built like any other (its
		// back-references read its own bindings), only not reported
		p.Commands[0].Amount = gen.RandomAmount(rng)
	}
	src := gen.RenderProgram(p)
	sm := gen.NewSampler(rng, p, TextAlphaFor(sc.Alpha))
	maxLen := maxLenFor(p, 14)
	if len(gen.LoopNames(p.Commands[0].Body)) > 0 {
		// a named loop copies its per-iteration variable maps on every VM step: keep those inputs short
		maxLen = min(maxLen, 8)
	}
	texts := sm.Inputs(p.Commands[0].Body, ntexts, maxLen)
	return &c01Case{p, src, texts}
}

func hasCapture(nodes []gen.Node) bool {
	for _, n := range nodes {
		switch x := n.(type) {
		case gen.Capture:
			return true
		case gen.Seq:
			if hasCapture(x.Items) {
				return true
			}
		case gen.Loop:
			if hasCapture([]gen.Node{x.Body}) {
				return true
			}
		case gen.Or:
			if hasCapture(x.Alts) {
				return true
			}
		case gen.SubDef:
			if hasCapture(x.Body) {
				return true
			}
		}
	}
	return false
}

func spansVarsEqual(got []wire.Match, exp []ref.Span) (bool, string) {
	if len(got) != len(exp) {
		return false, "match count"
	}
	for i := range got {
		if got[i].S != exp[i].S || got[i].E != exp[i].E {
			return false, "span"
		}
		gv := flatVars(got[i].Vars)
		if sameVars(gv, exp[i].Vars) && !reflect.DeepEqual(normWire(got[i].Vars), normRefTree(exp[i].Tree)) {
			return false, "named-loop-variables"
		}
		if !sameVars(gv, exp[i].Vars) {
			// classify: stale (extra name), missing, wrong text
			for k := range gv {
				if _, ok := exp[i].Vars[k]; !ok {
					return false, "stale-binding"
				}
			}
			for k := range exp[i].Vars {
				if _, ok := gv[k]; !ok {
					return false, "missing-binding"
				}
			}
			return false, "wrong-binding-text"
		}
	}
	return true, ""
}

func fmtExp(sp []ref.Span) string {
	s := ""
	for _, x := range sp {
		s += fmt.Sprintf("[%d,%d)%s ", x.S, x.E, fmtNested(normRefTree(x.Tree)))
	}
	return "{" + s + "}"
}

func fmtGot(ms []wire.Match) string {
	s := ""
	for _, x := range ms {
		s += fmt.Sprintf("[%d,%d)%s ", x.S, x.E, fmtNested(normWire(x.Vars)))
	}
	return "{" + s + "}"
}

func checkVarsCase(r *drv.Run, cs *c01Case, res *wire.Result, label string) {
	c := &wire.Case{Op: "run", Src: []byte(cs.src), Texts: cs.texts, StepBudget: 150000}
	if crashOrGuard(r, res, c, cs.src, false) {
		return
	}
	if compileTrouble(r, res, c, cs.src, false) {
		return
	}
	body := cs.prog.Commands[0].Body
	for ti, text := range cs.texts {
		if ti >= len(res.Runs) {
			break
		}
		run := &res.Runs[ti]
		r.Eval(1)
		r.Count("runs_total", 1)
		if runTrouble(r, run, c, cs.src, text, false) {
			continue
		}
		mergeKinds(r, run)
		alts, gaveUp := expectedScans(cs.prog, body, string(text), 400000)
		if gaveUp {
			r.Count("reference_gave_up", 1)
			continue
		}
		okAny := false
		why := ""
		am := cs.prog.Commands[0].Amount
		for ai := range alts {
			alts[ai] = windowRef(alts[ai], am)
		}
		if am.Kind != "" && am.Kind != "all" && len(alts[0]) > 0 {
			r.Count("amount_clause_runs_with_matches", 1)
		}
		for _, a := range alts {
			ok, w := spansVarsEqual(run.Matches, a)
			if ok {
				okAny = true
				break
			}
			if why == "" {
				why = w
			}
		}
		if !okAny {
			r.Violate(&drv.Violation{Sig: label + why, Src: cs.src, Text: string(text), Case: c,
				Detail: map[string]any{"expected": fmtExp(alts[0]), "observed": fmtGot(run.Matches)}})
			continue
		}
		nvars := 0
		for _, m := range alts[0] {
			nvars += len(m.Vars)
		}
		if nvars > 0 {
			r.Count("matches_with_bindings", 1)
			if run.Backtracks > 0 {
				r.Nontrivial(cs.src + "\x00" + string(text))
			}
		}
		for _, m := range alts[0] {
			for _, v := range m.Tree {
				if v.IsMap {
					r.Count("matches_with_named_loop_maps", 1)
					break
				}
			}
		}
		if run.Kinds["MatchVariable"] > 0 {
			r.Count("runs_executing_backreference", 1)
		}
	}
	r.Sample(map[string]any{"program": cs.src, "text": string(cs.texts[len(cs.texts)/2])})
}

func enumCaptureShapes() []*gen.Program {
	lits := []gen.Node{gen.Lit{S: "a"}, gen.Lit{S: "b"}, gen.Lit{S: "ab"}, gen.Class{Kind: "any"}}
	var progs []*gen.Program
	mk := func(body ...gen.Node) {
		progs = append(progs, &gen.Program{Commands: []gen.Command{{Amount: gen.Amount{Kind: "all"}, Body: body}}})
	}
	cap := func(name string, b gen.Node) gen.Node { return gen.Capture{Name: name, Body: b} }
	for _, A := range lits {
		for _, B := range lits {
			for _, C := range lits {
				// binding in a first alternative that then fails
				mk(gen.Or{Alts: []gen.Node{gen.Seq{Items: []gen.Node{cap("x", A), B}}, gen.Seq{Items: []gen.Node{C}}}})
				// binding in an optional group that gets abandoned, then a back-reference
				mk(gen.Loop{Min: 0, Max: 1, Form: "maybe", Body: gen.Seq{Items: []gen.Node{cap("x", A), B}}}, C, gen.Loop{Min: 0, Max: 1, Form: "maybe", Body: gen.BackRef{Name: "x"}})
				// rebinding in a repeated group, back-reference afterwards
				mk(gen.Loop{Min: 0, Max: -1, Form: "atleast", Body: gen.Or{Alts: []gen.Node{gen.Seq{Items: []gen.Node{cap("x", A)}}, B}}}, gen.BackRef{Name: "x"}, C)
				// lazy variant
				mk(gen.Loop{Min: 0, Max: -1, Lazy: true, Form: "atleast", Body: gen.Seq{Items: []gen.Node{cap("x", gen.Or{Alts: []gen.Node{A, B}})}}}, C, gen.BackRef{Name: "x"})
				// binding inside a recursive subroutine
				mk(gen.SubDef{Name: "s", Body: []gen.Node{cap("x", A), gen.Loop{Min: 0, Max: 1, Form: "maybe", Body: gen.SubCall{Name: "s"}}, B}}, gen.Loop{Min: 0, Max: 1, Form: "maybe", Body: C})
				// two captures, earlier value must survive a failed later alternative
				mk(cap("x", A), gen.Or{Alts: []gen.Node{gen.Seq{Items: []gen.Node{cap("y", B), C}}, gen.Seq{Items: []gen.Node{gen.BackRef{Name: "x"}}}}})
				// bindings inside named loops: directly, under an inner unnamed loop, under an inner named loop
				alt := gen.Or{Alts: []gen.Node{gen.Seq{Items: []gen.Node{cap("x", A), B}}, gen.Seq{Items: []gen.Node{C}}}}
				mk(gen.Loop{Min: 0, Max: -1, Form: "atleast", Name: "r", Body: alt})
				mk(gen.Loop{Min: 1, Max: -1, Form: "atleast", Name: "r", Body: gen.Seq{Items: []gen.Node{gen.Loop{Min: 0, Max: 3, Form: "atmost", Body: alt}}}})
				mk(gen.Loop{Min: 1, Max: 3, Form: "between", Lazy: true, Name: "r", Body: gen.Seq{Items: []gen.Node{gen.Loop{Min: 0, Max: 1, Form: "maybe", Body: gen.Seq{Items: []gen.Node{cap("x", A), B}}}, C}}})
				mk(gen.Loop{Min: 1, Max: -1, Form: "atleast", Name: "r", Body: gen.Seq{Items: []gen.Node{gen.Loop{Min: 1, Max: -1, Form: "atleast", Name: "q", Body: gen.Or{Alts: []gen.Node{gen.Seq{Items: []gen.Node{cap("x", A)}}, B}}}, C}}})
				// a capture that wraps the optional part, inside a greedy loop: the last (empty) iteration is abandoned
				// and what it bound goes with it
				mk(B, gen.Loop{Min: 0, Max: -1, Form: "atleast", Body: gen.Seq{Items: []gen.Node{cap("x", gen.Seq{Items: []gen.Node{gen.Loop{Min: 0, Max: 1, Form: "maybe", Body: A}}})}}}, gen.Loop{Min: 0, Max: 1, Form: "maybe", Body: gen.Seq{Items: []gen.Node{gen.BackRef{Name: "x"}, C}}})
				mk(B, gen.Loop{Min: 0, Max: -1, Form: "atleast", Name: "r", Body: gen.Seq{Items: []gen.Node{cap("x", gen.Seq{Items: []gen.Node{gen.Loop{Min: 0, Max: -1, Form: "atleast", Body: A}}})}}}, C)
				// a capture whose body calls the subroutine it stands in: the same name is open at several call levels
				mk(gen.SubDef{Name: "s", Body: []gen.Node{cap("x", gen.Seq{Items: []gen.Node{A, gen.Loop{Min: 0, Max: 1, Form: "maybe", Body: gen.SubCall{Name: "s"}}}}), gen.BackRef{Name: "x"}}}, gen.Loop{Min: 0, Max: 1, Form: "maybe", Body: C})
				mk(gen.SubDef{Name: "s", Body: []gen.Node{A, gen.Loop{Min: 0, Max: -1, Form: "atleast", Name: "r", Body: gen.Seq{Items: []gen.Node{cap("x", gen.Or{Alts: []gen.Node{gen.SubCall{Name: "s"}, C}})}}}, B}})
				// a named loop with a capture INSIDE A STORED PATTERN: its bindings stay in the loop's scope when the
				// pattern is relocated into a command that binds the same name itself
				progs = append(progs, &gen.Program{
					Globals:  []gen.Global{{Name: "gw", Body: []gen.Node{gen.Loop{Min: 1, Max: -1, Form: "atleast", Name: "w", Body: gen.Seq{Items: []gen.Node{cap("x", A)}}}}}},
					Commands: []gen.Command{{Amount: gen.Amount{Kind: "all"}, Body: []gen.Node{cap("x", B), gen.GlobalRef{Name: "gw"}, gen.Loop{Min: 0, Max: 1, Form: "maybe", Body: gen.BackRef{Name: "x"}}, gen.Loop{Min: 0, Max: 1, Form: "maybe", Body: C}}}}})
				progs = append(progs, &gen.Program{
					Globals:  []gen.Global{{Name: "gw", Body: []gen.Node{gen.Loop{Min: 0, Max: 2, Form: "atmost", Name: "w", Body: gen.Seq{Items: []gen.Node{cap("y", A), gen.Loop{Min: 0, Max: 1, Form: "maybe", Body: B}}}}}}},
					Commands: []gen.Command{{Amount: gen.Amount{Kind: "all"}, Body: []gen.Node{gen.GlobalRef{Name: "gw"}, C, gen.GlobalRef{Name: "gw"}}}}})
				// two names that differ only in letter case are two names: a back-reference to the unbound one fails
				mk(cap("x", A), gen.Or{Alts: []gen.Node{gen.Seq{Items: []gen.Node{cap("X", B)}}, C}}, gen.BackRef{Name: "X"})
				// empty capture and its back-reference
				mk(A, cap("x", gen.Seq{Items: []gen.Node{gen.Loop{Min: 0, Max: 1, Form: "maybe", Body: B}}}), gen.BackRef{Name: "x"}, gen.Loop{Min: 0, Max: 1, Form: "maybe", Body: C})
			}
		}
	}
	return progs
}

func c02LastPath(r *drv.Run) {
	progs, texts := lastPathShapes()
	r.Exec(len(progs), drv.ExecOpts{Batch: 30}, func(i int) *drv.Item {
		p := progs[i]
		cs := &c01Case{prog: p, src: gen.RenderProgram(p), texts: texts}
		return &drv.Item{Case: wire.Case{Op: "run", Src: []byte(cs.src), Texts: cs.texts, StepBudget: 150000},
			Check: func(res *wire.Result) { checkVarsCase(r, cs, res, "last-path:") }}
	})
}

func C02(r *drv.Run) {
	r.BuildWorker()
	if os.Getenv("VERIF_FAMILY") == "iters" {
		// debugging aid: the many-iterations family alone (never set by a registered command)
		c02ManyIterations(r)
		return
	}
	nprog, ntext := 3000, 12
	if !quick(r) {
		nprog, ntext = 100000, 16
	}
	r.Rule = "short captures that BEGIN 101 .. 131 074 bytes into a match (behind one whole line of that length; both sides of 4 096 and 65 536), decided by a back-reference; thorough tier: one named loop of 1 100 and one of 10 052 iterations with an optional capture bound in eight of them - the loop's map has one entry per iteration and exactly those eight hold the binding; capture-heavy generator: `= name` bindings inside first alternatives that then fail, inside maybe/at most/at least 0 iterations that get abandoned, inside recursive subroutines, followed by back-references; inputs are near misses derived from the program; a quarter of the programs under a random amount clause (skip / take / top / last: expected = that window of the reference's list); plus an exhaustive family of 18 capture shapes (two with a named loop that captures inside a stored pattern) (one with two names differing only in letter case) (4 of them inside named loops, directly / under an inner unnamed loop / under an inner named loop) x 4^3 literal choices x all texts over {a,b} up to length 4; and 4 shapes with an OPTIONAL capture on the path tried last (last alternative, lazy loop body, lazy optional) x 3^3 literals x all texts over {a,b,c} up to length 4. Long bindings: `line start whole line = x` then a line feed and a back-reference to x on two-line texts whose first line has 100 .. 70 000 bytes (thorough: .. 262 145; lengths on both sides of 4 096 and 65 536) and whose second line is the first, differs in its first / middle / last / last-but-one / 65 535th / 65 536th byte, is longer or one byte shorter (expected from the text alone). Regex literals with 9..12 numbered groups and a two-digit back-reference (160 generated ones). Name reuse: three programs in which a named loop takes over the name of an earlier capture and a back-reference to that name follows, on texts that hold the printed forms of internal values ([ValueHashMap], map[], <nil> ...) right there: the reference matches nothing. Oracle: reference backtracker with a persistent environment gives the exact expected variable map of every match (spans AND flat variables must equal). Non-trivial = expected match carries >= 1 binding AND the VM backtracked; distinct by (program, text). One random program in thirty has 9..101 captures in a row followed by 1..6 back-references to some of them (last one included), on texts with matching and nearly matching blocks."
	r.Assumptions = []string{
		"named-loop variable maps are compared after dropping iteration entries that hold nothing (vore opens the map of an iteration before it knows whether the iteration will run)",
		"reference matcher semantics as in C01 (word-anchor boundary cases are don't-care)",
		"captures inside `set ... to pattern` bodies are included (bound at run time like any other; only the defining body can back-reference them)",
	}
	shapes := enumCaptureShapes()
	texts := allTexts("ab", 4)
	// a few longer texts: recursion three levels deep, repeated halves
	for _, t := range []string{"aaaaaa", "aaaaaaaa", "aaabbb", "aabbaabb", "abaaba", "aabaab", "bbbbbb", "ababab"} {
		texts = append(texts, []byte(t))
	}
	r.Exec(len(shapes), drv.ExecOpts{Batch: 50}, func(i int) *drv.Item {
		p := shapes[i]
		cs := &c01Case{prog: p, src: gen.RenderProgram(p), texts: texts}
		return &drv.Item{Case: wire.Case{Op: "run", Src: []byte(cs.src), Texts: cs.texts, StepBudget: 150000},
			Check: func(res *wire.Result) {
				r.Count("exhaustive_shape_programs", 1)
				checkVarsCase(r, cs, res, "shape:")
			}}
	})
	c02LastPath(r)
	// regex literals with 9..12 numbered groups and a two-digit back-reference (\10, \11, \12): the reference binds
	// and back-references group N, not group N/10 followed by a digit
	{
		var many []*c14Case
		for i := 0; len(many) < 160 && i < 20000; i++ {
			if cs := c14Gen(r.Seed, i, 8); cs.rg.ManyGroups && cs.prelude == nil {
				many = append(many, cs)
			}
		}
		r.Exec(len(many), drv.ExecOpts{Batch: 40}, func(i int) *drv.Item {
			m := many[i]
			cs := &c01Case{prog: m.prog, src: m.src, texts: m.texts}
			return &drv.Item{Case: wire.Case{Op: "run", Src: []byte(cs.src), Texts: cs.texts, StepBudget: 400000},
				Check: func(res *wire.Result) {
					before := r.NViolations()
					checkVarsCase(r, cs, res, "many-groups:")
					if r.NViolations() == before {
						r.Count("regex_programs_with_two_digit_back_references", 1)
					}
				}}
		})
	}
	c02Long(r)
	c02Printed(r)
	c02Late(r)
	if !quick(r) {
		c02ManyIterations(r)
	}
	r.Extra["exhaustive_shapes"] = fmt.Sprintf("%d programs x %d texts, enumerated completely in both tiers", len(shapes), len(texts))
	r.Exec(nprog, drv.ExecOpts{Batch: 250}, func(i int) *drv.Item {
		cs := c02Random(r.Seed, i, ntext)
		if !hasCapture(cs.prog.Commands[0].Body) && len(gen.GlobalCaptureNames(cs.prog, cs.prog.Commands[0].Body)) == 0 {
			r.Count("programs_without_capture_skipped", 1)
			return nil
		}
		return &drv.Item{Case: wire.Case{Op: "run", Src: []byte(cs.src), Texts: cs.texts, StepBudget: 150000},
			Check: func(res *wire.Result) { checkVarsCase(r, cs, res, "") }}
	})
	if r.NViolations() == 0 {
		expensiveFloor(r)
		if r.Counter("matches_with_bindings") == 0 {
			r.Inconclusive("no match carried a binding")
		}
		if r.Counter("matches_with_named_loop_maps") == 0 {
			r.Inconclusive("no match carried a named-loop variable map")
		}
		if r.Counter("runs_executing_backreference") == 0 {
			r.Inconclusive("no back-reference was executed")
		}
	}
}

// windowRef: the slice of the reference's match list an amount clause selects.
func windowRef(a []ref.Span, am gen.Amount) []ref.Span {
	n := len(a)
	clamp := func(x int) int {
		if x < 0 {
			return 0
		}
		if x > n {
			return n
		}
		return x
	}
	switch am.Kind {
	case "top", "take":
		return a[:clamp(am.Take)]
	case "skip":
		return a[clamp(am.Skip):]
	case "skiptake":
		return a[clamp(am.Skip):clamp(am.Skip+am.Take)]
	case "last":
		return a[clamp(n-am.Last):]
	}
	return a
}

// lastPathShapes: an OPTIONAL capture on the path that is tried last (the last alternative, a lazy loop body, a
// lazy optional), over literals a, b, c: an attempt may bind it and then fail with no choice point left, and a
// later match may succeed without binding it. Texts over {a,b,c} up to length 4.
func lastPathShapes() ([]*gen.Program, [][]byte) {
	lits := []gen.Node{gen.Lit{S: "a"}, gen.Lit{S: "b"}, gen.Lit{S: "c"}}
	var progs []*gen.Program
	mk := func(body ...gen.Node) {
		progs = append(progs, &gen.Program{Commands: []gen.Command{{Amount: gen.Amount{Kind: "all"}, Body: body}}})
	}
	cap := func(b gen.Node) gen.Node { return gen.Capture{Name: "v", Body: b} }
	for _, A := range lits {
		for _, B := range lits {
			for _, C := range lits {
				mk(gen.Or{Alts: []gen.Node{A, gen.Seq{Items: []gen.Node{cap(B)}}}}, C)
				mk(gen.Loop{Min: 0, Max: -1, Lazy: true, Form: "atleast", Body: gen.Seq{Items: []gen.Node{cap(A)}}}, B, gen.Loop{Min: 0, Max: 1, Form: "maybe", Body: C})
				mk(gen.Loop{Min: 0, Max: 1, Lazy: true, Form: "maybe", Body: gen.Seq{Items: []gen.Node{cap(A), B}}}, C)
				mk(gen.Or{Alts: []gen.Node{gen.Seq{Items: []gen.Node{A, B}}, gen.Seq{Items: []gen.Node{cap(C), gen.Class{Kind: "any"}}}}}, A)
			}
		}
	}
	return progs, allTexts("abc", 4)
}
