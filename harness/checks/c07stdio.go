package checks

import (
	"bytes"
	"fmt"
	"os"
	"path/filepath"

	"verifharness/drv"
	"verifharness/wire"
)

// c07Stdio: the searched file is ALSO what the process's standard output (a log the service appends to, `>> notes.txt`)
// is connected to - under the same name, through a hard link and through a symbolic link. A search reads the
// file like any other: same matches as the same bytes in memory. (The worker prints nothing during these cases.)
func c07Stdio(r *drv.Run) {
	dir := filepath.Join(r.WorkDir, "c07stdio")
	os.MkdirAll(dir, 0o755)
	defer os.RemoveAll(dir)
	content := bytes.Repeat([]byte("needle in line 12345 ab\n"), 250)
	kinds := []string{"same-name", "hard-link", "symbolic-link"}
	progs := []string{"find all 'needle'", "find all at least 1 digit", "replace all 'ab' with 'ba'"}
	for ki, kind := range kinds {
		out := filepath.Join(dir, fmt.Sprintf("out%d.log", ki))
		os.WriteFile(out, content, 0o644)
		searched := out
		switch kind {
		case "hard-link":
			searched = filepath.Join(dir, fmt.Sprintf("alias%d.txt", ki))
			os.Link(out, searched)
		case "symbolic-link":
			searched = filepath.Join(dir, fmt.Sprintf("link%d.txt", ki))
			os.Symlink(filepath.Base(out), searched)
		}
		r.Exec(len(progs), drv.ExecOpts{Batch: 10, Stdout: out}, func(i int) *drv.Item {
			src := progs[i]
			c := wire.Case{Op: "runfiles", Src: []byte(src), Files: []string{searched}, Mode: "NOTHING", Texts: [][]byte{content}, StepBudget: 30_000_000}
			return &drv.Item{Case: c, Check: func(res *wire.Result) {
				if crashOrGuard(r, res, &c, src, false) {
					return
				}
				if res.Compile == nil || !res.Compile.OK || len(res.Runs) != 2 {
					r.Inconclusive("stdio case: short result")
					return
				}
				r.Eval(1)
				fr, sr := &res.Runs[0], &res.Runs[1]
				if runTrouble(r, fr, &c, src, content, false) || runTrouble(r, sr, &c, src, content, false) {
					return
				}
				same := len(fr.Matches) == len(sr.Matches)
				for k := 0; same && k < len(sr.Matches); k++ {
					a, b := fr.Matches[k], sr.Matches[k]
					same = a.S == b.S && a.E == b.E && a.Num == b.Num && a.L1 == b.L1 && a.C1 == b.C1 && string(a.Val) == string(b.Val) && string(a.Repl) == string(b.Repl)
				}
				if !same || len(sr.Matches) == 0 {
					r.Violate(&drv.Violation{Sig: "file-that-is-also-standard-output:" + kind, Src: src, Case: &c,
						Detail: map[string]any{"matches_from_the_file": len(fr.Matches), "matches_from_the_same_bytes_in_memory": len(sr.Matches), "standard_output_of_the_process": out, "searched": searched}})
					return
				}
				r.Count("searches_of_the_file_standard_output_is_connected_to", 1)
				r.Nontrivial("stdio|" + kind + "|" + src)
			}}
		})
	}
	if r.NViolations() == 0 && r.Counter("searches_of_the_file_standard_output_is_connected_to") == 0 {
		r.Inconclusive("coverage floor: searches_of_the_file_standard_output_is_connected_to = 0")
	}
}
