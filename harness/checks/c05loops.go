package checks

import (
	"fmt"
	"strings"

	"verifharness/drv"
	"verifharness/wire"
)

// c05Loops: transforms whose loop runs as often as the match says - 3 .. 2 000 003 times, counts on both sides of
// 65 536, 1 000 000, 2^20: the value a transform returns is the value its statements compute, however long they run.
func c05Loops(r *drv.Run) {
	srcs := []struct {
		src string
		fn  func(n int) string
	}{
		{"set countTo to transform set i to 0 loop if i >= match then break end set i to i + 1 end return '<' + i + '>' end\nreplace all at least 1 digit with countTo",
			func(n int) string { return fmt.Sprintf("<%d>", n) }},
		{"set sum to transform set i to 0 set s to 0 loop set i to i + 1 if i > match then break end if i % 2 == 0 then continue end set s to s + 1 end return s end\nreplace all at least 1 digit with sum ':' sum",
			func(n int) string { return fmt.Sprintf("%d:%d", (n+1)/2, (n+1)/2) }},
	}
	ns := []int{3, 4096, 65537, 999999, 1000000, 1000001, 1048577, 2000003}
	var parts []string
	for _, n := range ns {
		parts = append(parts, fmt.Sprint(n))
	}
	text := strings.Join(parts, " ")
	r.Exec(len(srcs), drv.ExecOpts{Batch: 1}, func(i int) *drv.Item {
		sc := srcs[i]
		c := wire.Case{Op: "run", Src: []byte(sc.src), Texts: [][]byte{[]byte(text)}, StepBudget: 5_000_000}
		return &drv.Item{Case: c, Check: func(res *wire.Result) {
			if crashOrGuard(r, res, &c, sc.src, false) {
				return
			}
			if compileTrouble(r, res, &c, sc.src, false) {
				return
			}
			if len(res.Runs) < 1 {
				return
			}
			run := &res.Runs[0]
			r.Eval(1)
			if runTrouble(r, run, &c, sc.src, []byte(text), false) {
				return
			}
			if len(run.Matches) != len(ns) {
				r.Violate(&drv.Violation{Sig: "long-loops:match-count", Src: sc.src, Text: text, Case: &c, Detail: map[string]any{"expected": len(ns), "observed": len(run.Matches)}})
				return
			}
			for k, n := range ns {
				if got, want := string(run.Matches[k].Repl), sc.fn(n); got != want {
					r.Violate(&drv.Violation{Sig: "long-loops:replacement-differs", Src: sc.src, Text: text, Case: &c, Detail: map[string]any{"loop_iterations": n, "expected": want, "observed": got}})
					return
				}
				r.Max("most_iterations_of_a_transform_loop_verified", n)
			}
			r.Count("long_running_transforms_verified", 1)
		}}
	})
	if r.NViolations() == 0 && r.Counter("long_running_transforms_verified") == 0 {
		r.Inconclusive("coverage floor: long_running_transforms_verified = 0")
	}
}
