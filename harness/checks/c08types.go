package checks

import "strings"

// c08Types: process code whose variables CHANGE TYPE as a loop goes round - two and three names of different types
// exchanged through a helper, types that depend on a branch, a name re-typed after the loop that reads it, nested
// loops each swapping - in transforms and predicates: the checker answers (accepts or rejects) at once; an analysis
// that iterates until the types of a loop body settle must not wait for a cycle of types to settle.
func c08Types(add func(family, src string)) {
	bodies := []string{
		"set a to 1 set b to 'x' set i to 0 loop set i to i + 1 if i > 3 then break end set t to a set a to b set b to t end",
		"set a to 1 set b to 'x' set c to true set i to 0 loop set i to i + 1 if i > 4 then break end set t to a set a to b set b to c set c to t end",
		"set a to 1 set b to 'x' set i to 0 loop set i to i + 1 if i > 3 then break end if i % 2 == 0 then set a to b else set b to a end set a to i end",
		"set a to 1 set b to 'x' set i to 0 loop set i to i + 1 if i > 2 then break end set j to 0 loop set j to j + 1 if j > 2 then break end set t to a set a to b set b to t end set t to b set b to a set a to t end",
		"set a to 'x' set i to 0 loop set i to i + 1 if i > 3 then break end set a to a == 'x' end",
		"set a to 1 set i to 0 loop set i to i + 1 if i > 3 then break end set b to a set a to '' + b set a to matchLength end",
		"set a to 1 set b to 'x' loop set t to a set a to b set b to t break end",
		"set a to 1 set b to 'x' set i to 0 loop set i to i + 1 if i > 3 then break end set t to a set a to b set b to t continue end",
	}
	for _, b := range bodies {
		add("types-that-change-round-a-loop", "set f to transform "+b+" return i end\nreplace all 'a' with f")
		add("types-that-change-round-a-loop", "set f to transform "+b+" return '' + a end\nreplace all 'a' with f")
		add("types-that-change-round-a-loop", "set p to pattern 'a' begin "+strings.ReplaceAll(b, "matchLength", "matchLength")+" return true end\nfind all p")
	}
}
