package checks

import (
	"fmt"
	"sort"
	"strings"
	"sync"

	"verifharness/drv"
	"verifharness/gen"
	"verifharness/wire"
)

func init() { Registry["C15"] = C15 }

type c15Variant struct {
	src  string
	kind string
	gap  string // "<left token kind>|<right token kind>" or keyword
}

var c15Fillers = []struct{ name, text string }{
	{"newline", "\n"}, {"tab-run", "\t\t"}, {"line-comment", " -- c\n"}, {"block-comment-glued", "--(c)--"}, {"block-comment-blanks", " --(c)-- "},
	{"crlf", "\r\n"}, {"block-comment-multiline", " --(a\nb)-- "},
	// several ignorable tokens in ONE gap
	{"two-line-comments", " -- a\n-- b\n"}, {"two-block-comments-glued", "--(a)----(b)--"}, {"block-then-line-comment", " --(a)-- -- b\n"},
	{"three-comments-and-blanks", "\n--(a)--\t--(b)-- \n -- c\n "},
	// the documentation defines source whitespace as \s: vertical tab and form feed belong to it in every reading
	{"vertical-tab", "\v"}, {"form-feed", " \f"},
	// comment TEXT that looks like comment syntax: a block comment ends at the first `)--` whatever it mentions
	{"block-comment-mentioning-an-opener", " --( see --( here )-- "}, {"block-comment-of-dashes-and-parentheses", " --(-- ( ) - -- )-- "},
	{"empty-block-comment", " --()-- "}, {"line-comment-mentioning-block-syntax", " -- --( not a block )-- \n"},
	// comment text that is not valid UTF-8 (a Latin-1 source file) is comment text all the same
	// a line comment is a comment whatever its text begins with, directly after the dashes
	{"line-comment-text-starts-with-tab", " --\tnote 'q' = r\n"}, {"line-comment-text-starts-with-form-feed", " --\fsee digit\n"}, {"line-comment-text-starts-with-vertical-tab", " --\vany\n"},
	{"line-comment-text-glued-to-the-dashes", " --find all 'x'\n"}, {"line-comment-text-starts-with-a-quote", " --'unclosed\n"}, {"line-comment-of-dashes", " -----\n"},
	{"line-comment-text-starts-with-nel-or-nbsp", " --\u0085x\n --\u00a0y\n"},
	{"line-comment-with-latin1-bytes", " -- caf\xe9 na\xefve \xff\n"}, {"block-comment-with-latin1-bytes", " --( caf\xe9 \xfe\xff \xc3 )-- "},
}

// White_Space code points beyond ASCII. Whether they separate tokens depends on how \s is read (ASCII only, or
// Unicode as the lexer's unicode.IsSpace does); either reading is consistent, a mixture is not: they are judged
// as a group, never one by one.
var c15UnicodeSpaces = []rune{0x85, 0xA0, 0x1680, 0x2000, 0x2003, 0x2028, 0x205F, 0x3000}

func joinWithGap(ts []gen.Tok, gap int, filler string) string {
	var sb strings.Builder
	for i, t := range ts {
		if i > 0 {
			if i == gap {
				sb.WriteString(filler)
			} else {
				sb.WriteByte(' ')
			}
		}
		sb.WriteString(t.Text)
	}
	return sb.String()
}

func mixedCase(s string) string {
	b := []byte(s)
	for i := range b {
		if i%2 == 0 && b[i] >= 'a' && b[i] <= 'z' {
			b[i] -= 32
		}
	}
	return string(b)
}

func tokClass(t gen.Tok) string {
	if t.Kind == "word" && gen.Keywords[strings.ToLower(t.Text)] {
		return "kw:" + strings.ToLower(t.Text)
	}
	if t.Kind == "punct" {
		return "'" + t.Text + "'"
	}
	return t.Kind
}

func c15Variants(src string) (base string, vs []c15Variant) {
	ts := gen.Significant(gen.Tokenize(src))
	base = gen.JoinWith(ts, " ")
	if base != src {
		vs = append(vs, c15Variant{src, "original-layout", ""})
	}
	for g := 1; g < len(ts); g++ {
		gapName := tokClass(ts[g-1]) + " | " + tokClass(ts[g])
		for _, f := range c15Fillers {
			text := f.text
			if strings.HasPrefix(f.text, "--(") && ts[g-1].Kind == "punct" && strings.HasSuffix(ts[g-1].Text, "-") {
				continue // "-" glued to "--(" is a different token sequence, not a layout change
			}
			vs = append(vs, c15Variant{joinWithGap(ts, g, text), "gap:" + f.name, gapName})
		}
		if !gen.NeedsSeparator(ts[g-1], ts[g]) {
			vs = append(vs, c15Variant{joinWithGap(ts, g, ""), "gap:no-whitespace", gapName})
		}
		if ts[g-1].Kind == "number" && ts[g].Kind == "word" {
			// a run of digits ends at the first letter: `exactly 3digit`, `skip 1take 2`, `== 1then` are the spaced forms
			vs = append(vs, c15Variant{joinWithGap(ts, g, ""), "gap:number-glued-to-the-next-word", gapName})
		}
	}
	// a comment long enough to push the rest of the program across the lexer's 4096-byte read buffer
	if len(ts) > 2 {
		g := 1 + len(base)%(len(ts)-1)
		vs = append(vs, c15Variant{joinWithGap(ts, g, " --("+strings.Repeat("c", 4090-len(base)%50)+")-- "), "gap:buffer-sized-comment", tokClass(ts[g-1]) + " | " + tokClass(ts[g])})
	}
	// a LINE comment (and a blank run) straddling the buffer boundary, its text looking like program text
	if len(ts) > 2 {
		g := 1 + (len(base)/3)%(len(ts)-1)
		prefix := len(gen.JoinWith(ts[:g], " "))
		for _, boundary := range []int{4096, 8192} {
			k := boundary - prefix - 7
			if k > 0 {
				vs = append(vs, c15Variant{joinWithGap(ts, g, strings.Repeat(" ", k)+"-- next: digit 'x' find all any\n"), "gap:line-comment-across-buffer", tokClass(ts[g-1]) + " | " + tokClass(ts[g])})
				vs = append(vs, c15Variant{joinWithGap(ts, g, strings.Repeat("\t", k+3)+"\n"), "gap:blank-run-across-buffer", tokClass(ts[g-1]) + " | " + tokClass(ts[g])})
			}
		}
	}
	if len(ts) > 2 {
		g := 1 + (len(base)/7)%(len(ts)-1)
		for _, cp := range c15UnicodeSpaces {
			vs = append(vs, c15Variant{joinWithGap(ts, g, string(cp)), fmt.Sprintf("uspace:U+%04X", cp), tokClass(ts[g-1]) + " | " + tokClass(ts[g])})
		}
	}
	// a run of blanks in front of the program that puts the lexer's 4096-byte read boundary right before, inside and
	// right after every escape, two-character operator and comment opener of the program
	{
		pads := map[int]bool{}
		for p := 0; p < len(base); p++ {
			if strings.IndexByte("\\-=<>!:(@/'\"", base[p]) < 0 {
				continue
			}
			for d := -2; d <= 2; d++ {
				if pad := 4096 - p - d; pad > 0 && p+d >= 0 && p+d <= len(base) {
					pads[pad] = true
				}
			}
		}
		var ps []int
		for pad := range pads {
			ps = append(ps, pad)
		}
		sort.Ints(ps)
		if len(ps) > 60 {
			// long programs: every k-th boundary position, the first and the last ones always
			step := len(ps)/50 + 1
			var kept []int
			for i, pad := range ps {
				if i < 5 || i >= len(ps)-5 || i%step == 0 {
					kept = append(kept, pad)
				}
			}
			ps = kept
		}
		for _, pad := range ps {
			vs = append(vs, c15Variant{strings.Repeat(" ", pad) + base, "leading:blank-run-ending-at-the-read-boundary", fmt.Sprintf("boundary at byte %d of the program", 4096-pad)})
		}
	}
	// the same text read from a file (CompileFile) instead of a string, also without a final newline / with CR LF
	vs = append(vs, c15Variant{base, "file:same-text-through-CompileFile", "file"})
	vs = append(vs, c15Variant{gen.JoinWith(ts, "\r\n") + "\r\n", "file:crlf-through-CompileFile", "file"})
	// leading / trailing layout
	vs = append(vs, c15Variant{"\n\t " + base + " \n", "gap:outer-whitespace", "outer"})
	vs = append(vs, c15Variant{"-- c\n" + base + " --(c)--", "gap:outer-comments", "outer"})
	// ... and every filler once behind the last token and once before the first (a program whose last command has
	// an empty body ends in a keyword or a number: what follows it is layout all the same)
	for _, f := range c15Fillers {
		if strings.HasPrefix(f.text, "--(") && ts[len(ts)-1].Kind == "punct" && strings.HasSuffix(ts[len(ts)-1].Text, "-") {
			continue
		}
		vs = append(vs, c15Variant{base + f.text, "trailing:" + f.name, "after " + tokClass(ts[len(ts)-1])})
		vs = append(vs, c15Variant{f.text + base, "leading:" + f.name, "before " + tokClass(ts[0])})
	}
	// keyword case
	up := make([]gen.Tok, len(ts))
	mx := make([]gen.Tok, len(ts))
	nkw := 0
	for i, t := range ts {
		up[i], mx[i] = t, t
		if t.Kind == "word" && gen.Keywords[strings.ToLower(t.Text)] {
			up[i].Text = strings.ToUpper(t.Text)
			mx[i].Text = mixedCase(strings.ToLower(t.Text))
			nkw++
			one := append([]gen.Tok{}, ts...)
			one[i].Text = strings.ToUpper(t.Text)
			vs = append(vs, c15Variant{gen.JoinWith(one, " "), "case:one-keyword-upper", "kw:" + strings.ToLower(t.Text)})
			two := append([]gen.Tok{}, ts...)
			two[i].Text = mixedCase(strings.ToLower(t.Text))
			vs = append(vs, c15Variant{gen.JoinWith(two, " "), "case:one-keyword-mixed", "kw:" + strings.ToLower(t.Text)})
			// a capital letter from beyond ASCII whose lower case is an ASCII letter: U+0130 (capital I with dot) for i,
			// U+212A (Kelvin sign) for k - the other letters left in lower case
			low := strings.ToLower(t.Text)
			for _, sub := range [][2]string{{"i", "\u0130"}, {"k", "\u212a"}} {
				if strings.Contains(low, sub[0]) {
					three := append([]gen.Tok{}, ts...)
					three[i].Text = strings.Replace(low, sub[0], sub[1], 1)
					vs = append(vs, c15Variant{gen.JoinWith(three, " "), "case:one-keyword-with-a-capital-from-beyond-ascii", "kw:" + low})
				}
			}
		}
	}
	// `function` is an alias of `transform`
	for i, t := range ts {
		if t.Kind == "word" && strings.ToLower(t.Text) == "transform" {
			al := append([]gen.Tok{}, ts...)
			al[i].Text = []string{"function", "FUNCTION", "Function"}[i%3]
			vs = append(vs, c15Variant{gen.JoinWith(al, " "), "alias:function-for-transform", "kw:transform"})
		}
	}
	if nkw > 0 {
		vs = append(vs, c15Variant{gen.JoinWith(up, " "), "case:all-upper", "all"})
		vs = append(vs, c15Variant{gen.JoinWith(mx, " "), "case:all-mixed", "all"})
	}
	return base, vs
}

func C15(r *drv.Run) {
	r.BuildWorker()
	var uspaceMu sync.Mutex
	var uspaceWS, uspaceNot *c15Variant
	var uspaceCase wire.Case
	ngen := 120
	if !quick(r) {
		ngen = 4000
	}
	r.Rule = "a run of blanks in front of each program that puts the lexer's 4096-byte read boundary right before, inside and right after every escape, quote, two-character operator and comment opener; truncated programs (every token prefix of the hand corpus, accepted or not) under every filler behind their last token and in front of their first; commands with an empty body in every amount form (alone, first, in the middle, last in a source) among the bases; every filler also behind the last token and before the first; valid programs as token lists (hand corpus covering every production incl. process statements/expressions, amount clauses, named loops, ranges, caseless, regex literals; repository examples; generated programs) x EVERY gap between adjacent tokens x {newline, tab run, CRLF, line comment, block comment glued, block comment with blanks, multi-line block comment, two line comments, two glued block comments, block then line comment, three comments mixed with blanks, vertical tab, form feed, block comments whose text mentions `--(` or consists of dashes and parentheses, the empty block comment, a line comment mentioning block syntax, line and block comments holding bytes that are not valid UTF-8} and - where the neighbours are not both words - removal of the whitespace (also between a number and the word behind it: digits end at the first letter); every keyword individually and all together in UPPER and MiXeD case, and individually with U+0130 for its i or the Kelvin sign for its k (capitals whose lower case is that ASCII letter); `function` written for its alias `transform`; leading/trailing layout; the same text, and its CR LF form, read from a file through CompileFile; a 5 MiB gap (blank lines, one block comment, line comments) between the commands of two programs, through CompileFile and through Compile; eight White_Space code points beyond ASCII (U+0085, U+00A0, U+1680, U+2000, U+2003, U+2028, U+205F, U+3000) in one gap per program, judged as a group: all of them separate tokens or none does. Oracle (metamorphic): variant accepted iff the single-blank original is, reflect.DeepEqual + canonical-dump equality of the syntax trees (hook H6), identical Run results on 3 texts (a text on which the original alone needs more than 4 000 VM steps is dropped for its variants, which run under a budget of 30 000). Non-trivial = every distinct variant whose three verdicts agreed; distinct by variant source."
	r.Assumptions = []string{
		"a block comment glued directly after '-' is not a layout change (it lexes as a different token sequence) and is not generated",
		"the harness tokenizer's token boundaries are those of the documented lexing rules; it is only applied to programs known to be valid",
		"the documentation gives source whitespace as \\s without saying whether that is ASCII or Unicode: for White_Space code points beyond ASCII only consistency is demanded (all separate tokens, or none); one of them behaving unlike the others is the violation",
	}
	bases := append([]string{}, gen.Corpus...)
	bases = append(bases, gen.ExampleFiles(drv.RepoRoot)...)
	// commands with an EMPTY body (accepted programs that find nothing): every amount form, find and replace, alone,
	// first, in the middle and last in a source
	bases = append(bases, "find all", "find top 2", "find take 3", "find last 2", "find skip 1", "find skip 1 take 2", "replace all with 'x'", "replace skip 1 with 'x' 'y'",
		"replace top 2 with value", "find all find all 'a'", "find top 1 replace all 'a' with 'b'", "set p to pattern 'a' find all find all p", "find all 'a' find skip 1 find all 'b'",
		"find all 'a' find last 3", "replace all 'a' with 'b' replace take 2 with 'c' find all 'c'")
	for i := 0; i < ngen; i++ {
		rng := gen.Derive(r.Seed, "C15", i)
		if i%3 == 2 {
			pg := newProcGen(rng)
			ss := pg.withInits(pg.stmtList(2, 1+rng.Intn(3), true, false, true))
			bases = append(bases, "set f to transform "+procRender(ss, rng.Bool())+" end\nreplace all 'a' with f")
		} else {
			bases = append(bases, gen.RenderProgram(gen.AnyProgram(rng, i)))
		}
	}
	allTexts := [][]byte{[]byte("7abcdef"), []byte("aab ba\nAB 12,3"), []byte("hello (a(b)) 'q' x13")}
	type unit struct {
		base  string
		vs    []c15Variant
		texts [][]byte
	}
	// phase 0: the single-blank original alone. A text on which it needs more than the step budget is dropped
	// for all its variants (hundreds of them would each spend the same steps again).
	type probe struct {
		base string
		vs   []c15Variant
		keep [][]byte
	}
	var probes []*probe
	for _, b := range bases {
		if len(b) > 1500 {
			continue
		}
		base, vs := c15Variants(b)
		probes = append(probes, &probe{base: base, vs: vs})
	}
	// TRUNCATED programs - every token prefix of the hand corpus, accepted or not: what stands behind the last token or
	// in front of the first is layout all the same (all layouts accepted, or all rejected)
	nTrunc := 0
	for _, b := range gen.Corpus {
		ts := gen.Significant(gen.Tokenize(b))
		if len(ts) > 60 {
			continue
		}
		for k := 2; k < len(ts); k++ {
			base, vs := c15EdgeVariants(gen.JoinWith(ts[:k], " "))
			probes = append(probes, &probe{base: base, vs: vs})
			nTrunc++
		}
	}
	r.Extra["truncated_bases"] = nTrunc
	r.Exec(len(probes), drv.ExecOpts{Batch: 40}, func(i int) *drv.Item {
		pb := probes[i]
		c := wire.Case{Op: "run", Src: []byte(pb.base), Texts: allTexts, StepBudget: 4000}
		return &drv.Item{Case: c, Check: func(res *wire.Result) {
			if res.Died || res.Panic != nil || res.Compile == nil || !res.Compile.OK {
				pb.keep = allTexts // the variants' case reports what is wrong, with the comparison
				return
			}
			for ti := range allTexts {
				if ti < len(res.Runs) && res.Runs[ti].Budget == "" {
					pb.keep = append(pb.keep, allTexts[ti])
				} else {
					r.Count("texts_dropped_original_over_budget", 1)
				}
			}
		}}
	})
	var units []unit
	for _, pb := range probes {
		for lo := 0; lo < len(pb.vs); lo += 30 {
			units = append(units, unit{pb.base, pb.vs[lo:min(lo+30, len(pb.vs))], pb.keep})
		}
	}
	r.Extra["base_programs"] = len(bases)
	r.Exec(len(units), drv.ExecOpts{Batch: 12}, func(i int) *drv.Item {
		u := units[i]
		texts := u.texts
		srcs := [][]byte{[]byte(u.base)}
		var viaFile []int
		for k, v := range u.vs {
			srcs = append(srcs, []byte(v.src))
			if strings.HasPrefix(v.kind, "file:") {
				viaFile = append(viaFile, k+1)
			}
		}
		c := wire.Case{Op: "astcmp", Srcs: srcs, Texts: texts, StepBudget: 30000, WantAST: false, ViaFile: viaFile}
		return &drv.Item{Case: c, Check: func(res *wire.Result) {
			if crashOrGuard(r, res, &c, u.base, false) {
				return
			}
			if len(res.Compiles) != len(srcs) {
				r.Inconclusive("short result")
				return
			}
			b := &res.Compiles[0]
			if b.Panic != nil {
				r.Violate(&drv.Violation{Sig: "compile-panic:" + b.Panic.Frame, Panic: b.Panic.Msg, Frame: b.Panic.Frame, Src: u.base, Case: &c})
				return
			}
			for k, v := range u.vs {
				cr := &res.Compiles[k+1]
				r.Eval(1)
				if cr.Panic != nil {
					r.Violate(&drv.Violation{Sig: "compile-panic:" + cr.Panic.Frame, Panic: cr.Panic.Msg, Frame: cr.Panic.Frame, Src: v.src, Case: &c})
					continue
				}
				if strings.HasPrefix(v.kind, "uspace:") {
					if !b.OK {
						continue
					}
					asWS := cr.OK && res.ASTEqual[k+1]
					for ti := range texts {
						a := &res.Runs[ti]
						bb := &res.Runs[(k+1)*len(texts)+ti]
						if asWS && ((a.Panic == nil) != (bb.Panic == nil) || a.Budget != bb.Budget || matchesJSON(a.Matches) != matchesJSON(bb.Matches)) {
							asWS = false
						}
					}
					uspaceMu.Lock()
					if asWS {
						r.Count("uspace_separates_tokens_"+v.kind[7:], 1)
						if uspaceWS == nil {
							uspaceWS = &c15Variant{v.src, v.kind, u.base}
						}
					} else {
						r.Count("uspace_does_not_separate_"+v.kind[7:], 1)
						if uspaceNot == nil {
							uspaceNot = &c15Variant{v.src, v.kind, u.base}
							uspaceCase = c
						}
					}
					uspaceMu.Unlock()
					continue
				}
				if cr.OK != b.OK {
					r.Violate(&drv.Violation{Sig: "accept-reject-differs:" + v.kind, Src: v.src, Err: cr.Err + b.Err, Case: &c,
						Detail: map[string]any{"original": u.base, "original_accepted": b.OK, "variant_accepted": cr.OK, "gap": v.gap, "error": oneLineN(cr.Err+b.Err, 160)}})
					r.Count("fail_gap_"+v.gap, 1)
					continue
				}
				if !b.OK {
					r.Count("both_rejected", 1)
					continue
				}
				if !res.ASTEqual[k+1] {
					r.Violate(&drv.Violation{Sig: "syntax-tree-differs:" + v.kind, Src: v.src, Case: &c, Detail: map[string]any{"original": u.base, "gap": v.gap}})
					continue
				}
				same := true
				for ti := range texts {
					a := &res.Runs[ti]
					bb := &res.Runs[(k+1)*len(texts)+ti]
					if (a.Panic == nil) != (bb.Panic == nil) || a.Budget != bb.Budget || matchesJSON(a.Matches) != matchesJSON(bb.Matches) {
						same = false
						r.Violate(&drv.Violation{Sig: "results-differ:" + v.kind, Src: v.src, Text: string(texts[ti]), Case: &c,
							Detail: map[string]any{"original": u.base, "original_result": fmtGotN(a.Matches), "variant_result": fmtGotN(bb.Matches)}})
						break
					}
				}
				if same {
					r.Nontrivial(v.src)
					r.Count("ok_"+v.kind, 1)
					if strings.HasPrefix(v.kind, "gap:") {
						r.Count("gaps_checked", 1)
					}
				}
			}
			if i%211 == 0 && len(u.vs) > 0 {
				r.Sample(map[string]any{"original": u.base, "variant": u.vs[len(u.vs)/2].src, "kind": u.vs[len(u.vs)/2].kind})
			}
		}}
	})
	// layout by the megabyte: a gap of 5 MiB of blank lines / of one block comment / of line comments between the
	// commands of a program, read through CompileFile and through Compile (whatever bounds a reader or a lexer
	// puts on its input, ignorable text must not count against the program)
	{
		var big [][]byte
		for _, b := range bases {
			ts := gen.Significant(gen.Tokenize(b))
			if strings.Count(b, "\n") >= 1 && len(ts) > 6 && len(ts) < 60 && !strings.Contains(b, "{") {
				big = append(big, []byte(b))
			}
			if len(big) == 2 {
				break
			}
		}
		fills := []string{strings.Repeat("\n", 5<<20), " --(" + strings.Repeat("c", 5<<20) + ")-- ", strings.Repeat("-- a line comment of some length, as banners are\n", (5<<20)/49)}
		r.Exec(len(big)*len(fills), drv.ExecOpts{Batch: 1}, func(i int) *drv.Item {
			b := big[i/len(fills)]
			ts := gen.Significant(gen.Tokenize(string(b)))
			base := gen.JoinWith(ts, " ")
			g := len(ts) / 2
			v := joinWithGap(ts, g, fills[i%len(fills)])
			c := wire.Case{Op: "astcmp", Srcs: [][]byte{[]byte(base), []byte(v), []byte(v)}, Texts: allTexts[:1], StepBudget: 30000, ViaFile: []int{1}}
			return &drv.Item{Case: c, Check: func(res *wire.Result) {
				if crashOrGuard(r, res, &c, base, false) {
					return
				}
				if len(res.Compiles) != 3 || !res.Compiles[0].OK {
					r.Inconclusive("megabyte layout: base program not compiled")
					return
				}
				for k, how := range []string{"through-CompileFile", "through-Compile"} {
					r.Eval(1)
					cr := &res.Compiles[k+1]
					switch {
					case cr.Panic != nil:
						r.Violate(&drv.Violation{Sig: "compile-panic:" + cr.Panic.Frame, Panic: cr.Panic.Msg, Frame: cr.Panic.Frame, Src: base, Detail: map[string]any{"layout": "5 MiB gap " + how}})
					case !cr.OK:
						r.Violate(&drv.Violation{Sig: "accept-reject-differs:megabyte-gap-" + how, Src: base, Err: cr.Err, Detail: map[string]any{"original": base, "gap_after_token": g, "filler": i % len(fills), "error": oneLineN(cr.Err, 160)}})
					case !res.ASTEqual[k+1]:
						r.Violate(&drv.Violation{Sig: "syntax-tree-differs:megabyte-gap-" + how, Src: base, Detail: map[string]any{"original": base, "gap_after_token": g, "filler": i % len(fills)}})
					default:
						r.Count("ok_megabyte-gap-"+how, 1)
						r.Nontrivial(fmt.Sprintf("megabyte|%d|%s", i, how))
					}
				}
			}}
		})
	}
	if uspaceWS != nil && uspaceNot != nil {
		r.Violate(&drv.Violation{Sig: "unicode-white-space-treated-inconsistently", Src: uspaceNot.src, Case: &uspaceCase,
			Detail: map[string]any{"separates_tokens": uspaceWS.kind[7:], "example_accepted": oneLineN(uspaceWS.src, 200), "does_not_separate": uspaceNot.kind[7:], "original": uspaceNot.gap}})
	}
	if r.NViolations() == 0 {
		for _, f := range c15Fillers {
			if r.Counter("ok_gap:"+f.name) == 0 {
				r.Inconclusive("coverage floor: filler never verified: " + f.name)
			}
		}
		if r.Counter("ok_megabyte-gap-through-CompileFile") == 0 {
			r.Inconclusive("coverage floor: no megabyte layout verified through CompileFile")
		}
		if r.Counter("ok_case:all-upper") == 0 || r.Counter("ok_gap:no-whitespace") == 0 {
			r.Inconclusive("coverage floor: case / whitespace-removal variants missing")
		}
	}
	_ = fmt.Sprint
}

// c15EdgeVariants: only the layout behind the last token and in front of the first one.
func c15EdgeVariants(src string) (base string, vs []c15Variant) {
	ts := gen.Significant(gen.Tokenize(src))
	base = gen.JoinWith(ts, " ")
	vs = append(vs, c15Variant{"\n\t " + base + " \n", "gap:outer-whitespace", "outer"})
	vs = append(vs, c15Variant{"-- c\n" + base + " --(c)--", "gap:outer-comments", "outer"})
	last := ts[len(ts)-1]
	for _, f := range c15Fillers {
		if strings.HasPrefix(f.text, "--") && last.Kind == "punct" && strings.HasSuffix(last.Text, "-") {
			continue
		}
		vs = append(vs, c15Variant{base + f.text, "trailing:" + f.name, "after " + tokClass(last)})
		vs = append(vs, c15Variant{f.text + base, "leading:" + f.name, "before " + tokClass(ts[0])})
	}
	return base, vs
}
