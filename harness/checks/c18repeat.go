package checks

import (
	"fmt"
	"os"
	"path/filepath"

	"verifharness/drv"
)

// c18RepeatedMode: -replace-mode given TWICE, every ordered pair of {NOTHING, NEW, OVERWRITE, the empty value}, in the
// three spellings of a flag: the mode in force is the one given last, and the empty value stands for the default NEW
// whatever was given before. What is judged is what the run leaves on disk.
func c18RepeatedMode(r *drv.Run) {
	if r.CLIBin == "" {
		return
	}
	modes := []string{"NOTHING", "NEW", "OVERWRITE", ""}
	const before, after = "cat dog cat\n", "bird dog bird\n"
	n := 0
	for ai, a := range modes {
		for bi, b := range modes {
			n++
			dir := filepath.Join(r.WorkDir, "c18repeat", fmt.Sprint(n))
			os.MkdirAll(dir, 0o755)
			in := filepath.Join(dir, "pets.txt")
			os.WriteFile(in, []byte(before), 0o644)
			if (ai+bi)%2 == 0 {
				// a stale output of an earlier run: NEW replaces it, the other modes leave it alone
				os.WriteFile(in+".vored", []byte("stale\n"), 0o644)
			}
			stale := (ai+bi)%2 == 0
			var args []string
			switch n % 3 {
			case 0:
				args = []string{"-replace-mode", a, "-replace-mode", b}
			case 1:
				args = []string{"-replace-mode=" + a, "--replace-mode", b}
			default:
				args = []string{"--replace-mode=" + a, "-replace-mode=" + b}
			}
			args = append([]string{"-com", "replace all 'cat' with 'bird'", "-files", "pets.txt", "-no-output"}, args...)
			code, stdout, stderr := runCLI(r.CLIBin, dir, args)
			r.Eval(1)
			eff := b
			if eff == "" {
				eff = "NEW"
			}
			got, _ := os.ReadFile(in)
			out, oerr := os.ReadFile(in + ".vored")
			wantIn, wantOut, wantOutExists := before, "", false
			switch eff {
			case "NEW":
				wantOut, wantOutExists = after, true
			case "OVERWRITE":
				wantIn = after
			}
			if eff != "NEW" && stale {
				wantOut, wantOutExists = "stale\n", true
			}
			what := ""
			switch {
			case code != 0:
				what = fmt.Sprintf("exit status %d", code)
			case string(got) != wantIn:
				what = fmt.Sprintf("pets.txt holds %q, expected %q", got, wantIn)
			case wantOutExists && (oerr != nil || string(out) != wantOut):
				what = fmt.Sprintf("pets.txt.vored holds %q (%v), expected %q", out, oerr, wantOut)
			case !wantOutExists && oerr == nil:
				what = fmt.Sprintf("pets.txt.vored exists (%q) and should not", out)
			}
			if what != "" {
				r.Violate(&drv.Violation{Sig: "replace-mode-given-twice:mode-in-force-is-not-" + eff, Src: "replace all 'cat' with 'bird'",
					Detail: map[string]any{"arguments": fmt.Sprint(args), "first": a, "last": b, "difference": what, "stdout": oneLineN(stdout, 120), "stderr": oneLineN(stderr, 200)}})
			} else {
				r.Count("invocations_with_replace_mode_given_twice", 1)
				r.Nontrivial(fmt.Sprintf("c18repeat|%s|%s", a, b))
			}
			os.RemoveAll(dir)
		}
	}
	if r.NViolations() == 0 && r.Counter("invocations_with_replace_mode_given_twice") == 0 {
		r.Inconclusive("coverage floor: invocations_with_replace_mode_given_twice = 0")
	}
}
