package checks

import (
	"fmt"
	"strings"

	"verifharness/drv"
	"verifharness/wire"
)

// c12Concurrent: the typing verdict of a source is that source's own - also when other goroutines are compiling at
// the same moment. Six goroutines keep compiling a well-typed transform whose loop body holds 6 000 statements (and
// one with nested loops) while eighteen others compile, twenty-five times each, sources whose verdict hangs on
// where a loop, a branch or a definition ENDS: break / continue behind a finished loop, a return of the wrong type
// behind a finished `if`, a name used with its earlier type behind a loop that re-typed it. Every verdict equals the
// verdict of the same source compiled alone (the statement-typing reference says which).
func c12Concurrent(r *drv.Run) {
	illTyped := []string{
		"set f to transform set i to 0 loop set i to i + 1 if i > 2 then break end end break return i end\nreplace all 'a' with f",
		"set f to transform set i to 0 loop set i to i + 1 if i > 2 then break end end if i > 1 then continue end return i end\nreplace all 'a' with f",
		"set p to pattern 'a' begin loop break end break return true end\nfind all p",
		"set p to pattern 'a' begin if matchLength > 0 then return true end return 5 end\nfind all p",
		"set f to transform loop loop break end break end continue return 1 end\nreplace all 'a' with f",
	}
	wellTyped := []string{
		"set f to transform set i to 0 loop set i to i + 1 if i > 2 then break end end return i end\nreplace all 'a' with f",
		"set p to pattern 'a' begin loop break end return true end\nfind all p",
		"set f to transform loop loop break end if true then continue end break end return 1 end\nreplace all 'a' with f",
	}
	long := []string{
		"set f to transform set n to 0 loop set n to n + 1 if n > 3 then break end " + strings.Repeat("set m to n + 1 ", 6000) + "end return n end\nreplace all 'a' with f",
		"set f to transform set n to 0 loop set n to n + 1 if n > 3 then break end loop " + strings.Repeat("set m to n + 1 ", 3000) + "break end end return n end\nreplace all 'a' with f",
	}
	var srcs [][]byte
	for _, s := range append(append(append([]string{}, illTyped...), wellTyped...), long...) {
		srcs = append(srcs, []byte(s))
	}
	nIll, nWell := len(illTyped), len(wellTyped)
	rounds := 3
	if !quick(r) {
		rounds = 40
	}
	r.Exec(rounds, drv.ExecOpts{Batch: 1, Env: []string{"VW_CPU_LIMIT_S=240"}}, func(i int) *drv.Item {
		var calls []wire.Call
		for q := 0; q < 6; q++ {
			for k := 0; k < 3; k++ {
				calls = append(calls, wire.Call{Kind: "compile", Prog: nIll + nWell + (q+k)%len(long), G: q})
			}
		}
		for q := 6; q < 24; q++ {
			for k := 0; k < 25; k++ {
				calls = append(calls, wire.Call{Kind: "compile", Prog: (q + k + i) % (nIll + nWell), G: q})
			}
		}
		c := wire.Case{Op: "conc", Srcs: srcs, Texts: [][]byte{[]byte("a")}, Calls: calls, Goroutines: 24, Yield: i%2 == 0}
		return &drv.Item{Case: c, Check: func(res *wire.Result) {
			if res.Died && res.Guard != "" && res.Guard != "blocked" {
				r.Count("concurrent_typing_rounds_stopped_by_a_resource_guard", 1)
				return
			}
			if crashOrGuard(r, res, &c, "concurrent compilations", false) {
				return
			}
			for _, cl := range res.Calls {
				r.Eval(1)
				src := string(srcs[cl.Prog])
				if cl.Panic != "" {
					r.Violate(&drv.Violation{Sig: "compile-panic-next-to-other-compilations", Panic: cl.Panic, Src: oneLineN(src, 300), Case: &wire.Case{Op: "conc"}})
					return
				}
				accepted := cl.Err == ""
				want := cl.Prog >= nIll
				if accepted != want {
					sig := "accepted-ill-typed:next-to-other-compilations"
					if want {
						sig = "rejected-well-typed:next-to-other-compilations"
					}
					r.Violate(&drv.Violation{Sig: sig, Src: oneLineN(src, 300), Err: cl.Err, Case: &wire.Case{Op: "conc"},
						Detail: map[string]any{"goroutines": 24, "what_the_others_compiled": "a transform whose loop body holds 6 000 statements", "goroutine": cl.G}})
					return
				}
				r.Count("verdicts_given_next_to_other_compilations", 1)
			}
			r.Nontrivial(fmt.Sprintf("c12conc|%d", i))
		}}
	})
	if r.NViolations() == 0 && r.Counter("verdicts_given_next_to_other_compilations") == 0 && r.Counter("concurrent_typing_rounds_stopped_by_a_resource_guard") == 0 {
		r.Inconclusive("coverage floor: verdicts_given_next_to_other_compilations = 0")
	}
}
