package checks

import (
	"fmt"

	"verifharness/drv"
	"verifharness/gen"
	"verifharness/wire"
)

// c16Huge: literals that denote 65 535, 65 536, 65 537, 70 000 and 131 073 bytes (both sides of 2^16 and of 2^17;
// content without a period, raw and with an escape every 97th byte, both quote styles): each matches its own text
// whole and none of the texts that differ from it in one byte - the first, the second, bytes 65 535 / 65 536 / 65 537,
// the middle, the last but one, the last.
func c16Huge(r *drv.Run) {
	sizes := []int{65535, 65536, 65537, 70000, 131073}
	type job struct {
		n       int
		quote   byte
		escaped bool
	}
	var jobs []job
	for i, n := range sizes {
		jobs = append(jobs, job{n, "'\""[i%2], false}, job{n, "'\""[(i+1)%2], true})
	}
	r.Exec(len(jobs), drv.ExecOpts{Batch: 1, Env: []string{"VW_RSS_LIMIT_MB=4000", "VW_CPU_LIMIT_S=120"}}, func(i int) *drv.Item {
		jb := jobs[i]
		rng := gen.Derive(r.Seed, "C16huge", i)
		b := make([]byte, jb.n)
		for k := range b {
			b[k] = "abcdefghijklmnopqrstuvwxyz0123456789 .,;"[rng.Intn(40)]
		}
		lit := []byte{jb.quote}
		for k, c := range b {
			if jb.escaped && k%97 == 0 {
				lit = append(lit, []byte(fmt.Sprintf("\\x%02x", c))...)
			} else {
				lit = append(lit, c)
			}
		}
		lit = append(lit, jb.quote)
		src := "find all " + string(lit)
		texts := [][]byte{b}
		var where []int
		for _, p := range []int{0, 1, 65535, 65536, 65537, jb.n / 2, jb.n - 2, jb.n - 1} {
			if p < jb.n {
				t := append([]byte{}, b...)
				t[p] = '#'
				texts = append(texts, t)
				where = append(where, p)
			}
		}
		c := wire.Case{Op: "run", Src: []byte(src), Texts: texts, StepBudget: 5_000_000}
		shown := fmt.Sprintf("find all <a literal of %d bytes, quote %c, escapes: %v>", jb.n, jb.quote, jb.escaped)
		return &drv.Item{Case: c, Check: func(res *wire.Result) {
			c.Src, c.Texts = []byte(shown), nil // (the replay file names the case; the literal is rebuilt from the seed)
			if crashOrGuard(r, res, &c, shown, false) {
				return
			}
			if res.Compile == nil || !res.Compile.OK {
				e := ""
				if res.Compile != nil {
					e = res.Compile.Err
				}
				r.Violate(&drv.Violation{Sig: "literal-rejected:huge", Src: shown, Err: oneLineN(e, 200), Case: &c})
				return
			}
			for ti := range texts {
				if ti >= len(res.Runs) {
					break
				}
				run := &res.Runs[ti]
				r.Eval(1)
				if run.Panic != nil {
					r.Violate(&drv.Violation{Sig: "run-panic:" + run.Panic.Frame, Panic: run.Panic.Msg, Src: shown, Case: &c})
					return
				}
				if run.Budget != "" {
					r.Inconclusive("huge literal: budget " + run.Budget)
					return
				}
				if ti == 0 {
					if len(run.Matches) != 1 || run.Matches[0].S != 0 || run.Matches[0].E != jb.n {
						r.Violate(&drv.Violation{Sig: "does-not-match-its-bytes:huge", Src: shown, Case: &c, Detail: map[string]any{"bytes": jb.n, "observed": fmtGotN(run.Matches)}})
						return
					}
				} else if len(run.Matches) != 0 {
					r.Violate(&drv.Violation{Sig: "matches-something-else:huge", Src: shown, Case: &c,
						Detail: map[string]any{"bytes": jb.n, "the_text_differs_from_the_literal_in_byte": where[ti-1], "observed": fmtGotN(run.Matches)}})
					return
				}
			}
			r.Count("literals_beyond_65535_bytes_verified", 1)
			r.Nontrivial(fmt.Sprintf("huge|%d|%v", jb.n, jb.escaped))
		}}
	})
}
