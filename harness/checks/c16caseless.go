package checks

import (
	"fmt"
	"strings"

	"verifharness/drv"
	"verifharness/wire"
)

// c16CaselessPairs: `caseless` widens a literal by letter case and by nothing else: for every ASCII byte a, the
// literal caseless 'xa' (in each spelling of a) matches the two-byte text x b exactly when b is a or the other case of
// the letter a - all 127 x 127 pairs.
func c16CaselessPairs(r *drv.Run) {
	var texts [][]byte
	for b := byte(1); b < 0x80; b++ {
		texts = append(texts, []byte{'x', b})
	}
	type job struct {
		a   byte
		lit string
	}
	var jobs []job
	for a := byte(1); a < 0x80; a++ {
		for _, q := range []byte{'\'', '"'} {
			sp := spellings(a, q)
			for _, name := range []string{"raw", "backslash-char", "hex-lower"} {
				if s, ok := sp[name]; ok {
					jobs = append(jobs, job{a, string(q) + "x" + s + string(q)})
					break
				}
			}
		}
	}
	r.Exec(len(jobs), drv.ExecOpts{Batch: 40}, func(i int) *drv.Item {
		jb := jobs[i]
		src := "find all caseless " + jb.lit
		c := wire.Case{Op: "run", Src: []byte(src), Texts: texts, StepBudget: 10000}
		return &drv.Item{Case: c, Check: func(res *wire.Result) {
			if crashOrGuard(r, res, &c, src, false) {
				return
			}
			if compileTrouble(r, res, &c, src, false) {
				return
			}
			for ti := range texts {
				if ti >= len(res.Runs) {
					break
				}
				run := &res.Runs[ti]
				b := texts[ti][1]
				r.Eval(1)
				if run.Panic != nil || run.Budget != "" {
					continue
				}
				want := strings.EqualFold(string([]byte{jb.a}), string([]byte{b}))
				got := len(run.Matches) == 1 && run.Matches[0].S == 0 && run.Matches[0].E == 2
				if got != want || (!want && len(run.Matches) != 0) {
					r.Violate(&drv.Violation{Sig: "caseless-literal-matches-other-bytes", Src: src, Text: fmt.Sprintf("%q", texts[ti]), Case: &c,
						Detail: map[string]any{"literal_byte": fmt.Sprintf("%q", jb.a), "text_byte": fmt.Sprintf("%q", b), "expected_match": want, "observed_matches": len(run.Matches)}})
					return
				}
			}
			r.Count("caseless_byte_pairs_checked", len(texts))
		}}
	})
	if r.NViolations() == 0 && r.Counter("caseless_byte_pairs_checked") == 0 {
		r.Inconclusive("coverage floor: caseless_byte_pairs_checked = 0")
	}
}
