package checks

import (
	"fmt"
	"os"
	"path/filepath"

	"verifharness/drv"
	"verifharness/gen"
	"verifharness/wire"
)

// c04Files: the amount clause is applied to EVERY searched file anew. One RunFiles call over four files (three with
// the same text, one shorter), listed by name and as a directory argument, under every clause: the matches reported
// for a file are the stated window of what `find all` reports for that file's text - for the fourth file as for the
// first.
func c04Files(r *drv.Run) {
	texts := [][]byte{[]byte("a a a a a a a a"), []byte("a a a a a a a a"), []byte("a a a a a a a a"), []byte("a a")}
	variants := amountVariants()
	type job struct {
		am      gen.Amount
		replace bool
		asDir   bool
	}
	var jobs []job
	for i, am := range variants {
		jobs = append(jobs, job{am, i%2 == 1, i%3 == 0})
	}
	r.Exec(len(jobs), drv.ExecOpts{Batch: 10}, func(i int) *drv.Item {
		jb := jobs[i]
		dir := filepath.Join(r.WorkDir, "c04files", fmt.Sprint(i))
		os.MkdirAll(dir, 0o755)
		var paths []string
		for k, t := range texts {
			p := filepath.Join(dir, fmt.Sprintf("f%d.txt", k))
			os.WriteFile(p, t, 0o644)
			paths = append(paths, p)
		}
		args := paths
		if jb.asDir {
			args = []string{dir + "/"}
		}
		cmd := gen.Command{Amount: jb.am, Body: []gen.Node{gen.Lit{S: "a"}}}
		if jb.replace {
			cmd.Replace = true
			cmd.With = []gen.WithItem{{Kind: "str", S: "b"}}
		}
		src := gen.RenderProgram(&gen.Program{Commands: []gen.Command{cmd}})
		c := wire.Case{Op: "runfiles", Src: []byte(src), Files: args, Mode: "NOTHING", StepBudget: 1_000_000}
		return &drv.Item{Case: c, Check: func(res *wire.Result) {
			defer os.RemoveAll(dir)
			if crashOrGuard(r, res, &c, src, false) {
				return
			}
			if res.Compile == nil || !res.Compile.OK || len(res.Runs) < 1 {
				r.Inconclusive("fixed program rejected: " + src)
				return
			}
			r.Eval(1)
			if runTrouble(r, &res.Runs[0], &c, src, nil, false) {
				return
			}
			perFile := map[string][]wire.Match{}
			for _, m := range res.Runs[0].Matches {
				f := filepath.Base(filepath.Clean(m.File))
				perFile[f] = append(perFile[f], m)
			}
			for k, t := range texts {
				// `find all 'a'` on these texts: one match per letter a, at the even offsets
				var all []wire.Match
				for off := 0; off < len(t); off += 2 {
					all = append(all, wire.Match{Num: off/2 + 1, S: off, E: off + 1})
				}
				want := window(all, jb.am)
				got := perFile[fmt.Sprintf("f%d.txt", k)]
				same := len(got) == len(want)
				for q := 0; same && q < len(want); q++ {
					same = got[q].S == want[q].S && got[q].E == want[q].E && got[q].Num == want[q].Num
				}
				if !same {
					r.Violate(&drv.Violation{Sig: "window-of-a-later-file:" + jb.am.Kind, Src: src, Case: &c,
						Detail: map[string]any{"file_number_in_the_call": k + 1, "files_in_the_call": len(texts), "text": string(t), "expected_window": fmtGotN(want), "observed": fmtGotN(got), "listed_as_directory": jb.asDir}})
					return
				}
			}
			r.Count("calls_over_four_files_with_a_window_per_file", 1)
		}}
	})
	if r.NViolations() == 0 && r.Counter("calls_over_four_files_with_a_window_per_file") == 0 {
		r.Inconclusive("coverage floor: calls_over_four_files_with_a_window_per_file = 0")
	}
}
