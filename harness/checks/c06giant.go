package checks

import (
	"bytes"
	"fmt"
	"io"
	"os"
	"path/filepath"

	"verifharness/drv"
	"verifharness/wire"
)

// c06Giant (thorough tier): ONE unmatched stretch longer than 2^30 bytes - the most a single read(2) on a file returns
// through Go's os.File - behind the only match of `replace top 1`. The stretch is a hole of a sparse file (zero bytes)
// closed by 9 000 written bytes, so the input costs no disk; the output is compared with the input in 4 MiB pieces.
// NEW copies the stretch from the searched file itself, OVERWRITE from the copy in memory.
func c06Giant(r *drv.Run) {
	const hole = (1 << 30) + 5000
	type job struct{ mode string }
	jobs := []job{{"NEW"}, {"OVERWRITE"}}
	r.Exec(len(jobs), drv.ExecOpts{Batch: 1, WallSecs: 1800, Env: []string{"VW_RSS_LIMIT_MB=14000", "VW_CPU_LIMIT_S=600"}}, func(i int) *drv.Item {
		jb := jobs[i]
		dir := filepath.Join(r.WorkDir, "c06giant", fmt.Sprint(i))
		os.MkdirAll(dir, 0o755)
		path := filepath.Join(dir, "giant.txt")
		tail := bytes.Repeat([]byte("tail-a-z\n"), 1000)
		f, err := os.Create(path)
		if err != nil {
			r.Inconclusive("cannot create the giant file: " + err.Error())
			return nil
		}
		f.Write([]byte("xa"))
		f.Seek(hole, io.SeekCurrent)
		f.Write(tail)
		f.Close()
		size := int64(2 + hole + len(tail))
		src := "replace top 1 'a' with 'bb'"
		c := wire.Case{Op: "runfiles", Src: []byte(src), Files: []string{path}, Mode: jb.mode, StepBudget: 5_000_000}
		return &drv.Item{Case: c, Check: func(res *wire.Result) {
			defer os.RemoveAll(dir)
			if res.Died && (res.Guard == "heap" || res.Guard == "cpu" || res.Guard == "wall") {
				r.Count("giant_file_calls_stopped_by_a_resource_guard", 1)
				return // the machine, not the property
			}
			if crashOrGuard(r, res, &c, src, false) {
				return
			}
			if res.Compile == nil || !res.Compile.OK || len(res.Runs) < 1 {
				r.Inconclusive("fixed program rejected: " + src)
				return
			}
			r.Eval(1)
			if p := res.Runs[0].Panic; p != nil {
				r.Violate(&drv.Violation{Sig: "runfiles-panic:" + p.Frame, Panic: p.Msg, Frame: p.Frame, Src: src, Case: &c, Detail: map[string]any{"mode": jb.mode, "file_bytes": size}})
				return
			}
			outPath := path
			if jb.mode == "NEW" {
				outPath = path + ".vored"
			}
			bad := func(what string) {
				r.Violate(&drv.Violation{Sig: "unmatched-stretch-over-2^30-bytes:" + jb.mode, Src: src, Case: &c,
					Detail: map[string]any{"file_bytes": size, "stretch_bytes": hole + len(tail), "difference": what}})
			}
			out, err := os.Open(outPath)
			if err != nil {
				bad("no output: " + err.Error())
				return
			}
			defer out.Close()
			st, _ := out.Stat()
			if st.Size() != size+1 {
				bad(fmt.Sprintf("output holds %d bytes, expected %d", st.Size(), size+1))
				return
			}
			head := make([]byte, 3)
			io.ReadFull(out, head)
			if string(head) != "xbb" {
				bad(fmt.Sprintf("output begins %q, expected \"xbb\"", head))
				return
			}
			// the rest: hole zero bytes, then the tail
			buf := make([]byte, 4<<20)
			zero := make([]byte, 4<<20)
			left := int64(hole)
			off := int64(3)
			for left > 0 {
				n := int64(len(buf))
				if left < n {
					n = left
				}
				if _, err := io.ReadFull(out, buf[:n]); err != nil {
					bad(fmt.Sprintf("output unreadable at %d: %v", off, err))
					return
				}
				if !bytes.Equal(buf[:n], zero[:n]) {
					k := 0
					for buf[k] == 0 {
						k++
					}
					bad(fmt.Sprintf("byte %d of the output is %#x, the input holds 0 there", off+int64(k), buf[k]))
					return
				}
				left -= n
				off += n
			}
			got := make([]byte, len(tail))
			if _, err := io.ReadFull(out, got); err != nil || !bytes.Equal(got, tail) {
				k := 0
				for k < len(got) && got[k] == tail[k] {
					k++
				}
				bad(fmt.Sprintf("the last %d bytes differ from the input's from byte %d of the output on", len(tail), off+int64(k)))
				return
			}
			if jb.mode == "NEW" {
				if st, err := os.Stat(path); err != nil || st.Size() != size {
					bad("the searched file changed in mode NEW")
					return
				}
			}
			r.Count("stretches_over_2^30_bytes_copied_"+jb.mode, 1)
			r.Nontrivial("giant|" + jb.mode)
		}}
	})
}
