package checks

import (
	"fmt"
	"strings"
	"sync"

	"verifharness/drv"
	"verifharness/gen"
	"verifharness/wire"
)

func init() { Registry["C13"] = C13 }

type c13Variant struct {
	name   string
	prog   *gen.Program
	equiv  int    // index of the variant whose results must be identical (-1: none)
	src    string // rendering override (definitions interleaved with commands)
	concat []int  // results must equal the concatenation of these variants' results
}

func cmdFind(body ...gen.Node) gen.Command {
	return gen.Command{Amount: gen.Amount{Kind: "all"}, Body: body}
}

// firstSubName: the name of the first inline subroutine declared in nodes ("" if none).
func firstSubName(nodes []gen.Node) string {
	for _, n := range nodes {
		switch x := n.(type) {
		case gen.SubDef:
			return x.Name
		case gen.Seq:
			if s := firstSubName(x.Items); s != "" {
				return s
			}
		case gen.Loop:
			if s := firstSubName([]gen.Node{x.Body}); s != "" {
				return s
			}
		case gen.Or:
			if s := firstSubName(x.Alts); s != "" {
				return s
			}
		}
	}
	return ""
}

func hasSubDef(nodes []gen.Node) bool {
	for _, n := range nodes {
		switch x := n.(type) {
		case gen.SubDef:
			return true
		case gen.Seq:
			if hasSubDef(x.Items) {
				return true
			}
		case gen.Loop:
			if hasSubDef([]gen.Node{x.Body}) {
				return true
			}
		case gen.Or:
			if hasSubDef(x.Alts) {
				return true
			}
		}
	}
	return false
}

func c13Variants(rng *gen.Rng, i int) ([]c13Variant, [][]byte) {
	sc := gen.DefaultScope
	sc.Captures, sc.BackRefs, sc.Globals, sc.Preds = false, false, false, false
	sc.Subs = rng.Chance(2, 3)
	sc.MaxDepth = 2 + rng.Intn(2)
	pg := gen.NewPG(rng, sc)
	B := append([]gen.Node{pg.Node(0)}, pg.Items(sc.MaxDepth, 1+rng.Intn(2))...)
	// make sure relocatable constructs occur in B
	if rng.Bool() {
		B = append(B, gen.Or{Alts: []gen.Node{gen.Lit{S: "a"}, gen.Lit{S: "b"}}})
	}
	if rng.Chance(1, 5) {
		B = append(B, gen.In{Not: true, Items: []gen.ListItem{{Kind: "lit", S: "a"}}})
	}
	atomPG := gen.NewPG(rng, gen.Scope{Alpha: "ab", Classes: true})
	var P, S []gen.Node
	for k := rng.Intn(3); k > 0; k-- {
		P = append(P, atomPG.Node(0))
	}
	for k := rng.Intn(2); k > 0; k-- {
		S = append(S, atomPG.Node(0))
	}
	grp := gen.Seq{Items: B}
	g := gen.Global{Name: "gx", Body: B}
	subDup := !hasSubDef(B) // duplicating B is only legal when it declares nothing
	wrapPS := func(mid ...gen.Node) []gen.Node {
		out := append([]gen.Node{}, P...)
		out = append(out, mid...)
		return append(out, S...)
	}
	var vs []c13Variant
	add := func(name string, equiv int, globals []gen.Global, cmds ...gen.Command) int {
		vs = append(vs, c13Variant{name: name, prog: &gen.Program{Globals: globals, Commands: cmds}, equiv: equiv})
		return len(vs) - 1
	}
	inl := add("in-place", -1, nil, cmdFind(wrapPS(grp)...))
	add("inline-subroutine", inl, nil, cmdFind(wrapPS(gen.SubDef{Name: "sx", Body: B})...))
	add("global-pattern", inl, []gen.Global{g}, cmdFind(wrapPS(gen.GlobalRef{Name: "gx"})...))
	if subDup {
		inl2 := add("in-place-twice", -1, nil, cmdFind(wrapPS(grp, grp)...))
		add("inline-subroutine+call", inl2, nil, cmdFind(wrapPS(gen.SubDef{Name: "sx", Body: B}, gen.SubCall{Name: "sx"})...))
		add("global-pattern-twice", inl2, []gen.Global{g}, cmdFind(wrapPS(gen.GlobalRef{Name: "gx"}, gen.GlobalRef{Name: "gx"})...))
		inl3 := add("in-place-thrice", -1, nil, cmdFind(wrapPS(grp, grp, grp)...))
		add("global-pattern-thrice", inl3, []gen.Global{g}, cmdFind(wrapPS(gen.GlobalRef{Name: "gx"}, gen.GlobalRef{Name: "gx"}, gen.GlobalRef{Name: "gx"})...))
		add("inline-subroutine+2calls", inl3, nil, cmdFind(wrapPS(gen.SubDef{Name: "sx", Body: B}, gen.SubCall{Name: "sx"}, gen.SubCall{Name: "sx"})...))
	}
	if subDup {
		// referenced before a counted loop AND inside its body: the copies of an unrolled body contain calls
		// whose target lies outside the loop
		for ci, cl := range []gen.Loop{{Min: 2, Max: 2, Form: "exactly"}, {Min: 2, Max: -1, Form: "atleast"}, {Min: 3, Max: 4, Form: "between", Lazy: true}} {
			if ci != (i/2)%3 {
				continue
			}
			sep := gen.Lit{S: "-"}
			a := cl
			a.Body = gen.Seq{Items: []gen.Node{sep, grp}}
			w := add("in-place-before-and-inside-counted-loop", -1, nil, cmdFind(wrapPS(grp, a)...))
			b := cl
			b.Body = gen.Seq{Items: []gen.Node{sep, gen.GlobalRef{Name: "gx"}}}
			add("global-pattern-before-and-inside-counted-loop", w, []gen.Global{g}, cmdFind(wrapPS(gen.GlobalRef{Name: "gx"}, b)...))
			c := cl
			c.Body = gen.Seq{Items: []gen.Node{sep, gen.SubCall{Name: "sx"}}}
			add("inline-subroutine-before-and-inside-counted-loop", w, nil, cmdFind(wrapPS(gen.SubDef{Name: "sx", Body: B}, c)...))
		}
	}
	// the named pattern as the FIRST alternative inside a bounded loop (entered, fails, a later alternative
	// matches), and a lazily skipped first reference followed by a later one
	{
		bl := gen.Loop{Min: 0, Max: 2, Form: "atmost"}
		if rng.Bool() {
			bl = gen.Loop{Min: 1, Max: 3, Form: "between"}
		}
		if !(bl.Min > 0 && !subDup) {
			a := bl
			a.Body = gen.Seq{Items: []gen.Node{gen.Or{Alts: []gen.Node{grp, gen.Lit{S: "a"}, gen.Class{Kind: "any"}}}}}
			w := add("in-place-first-alternative-in-bounded-loop", -1, nil, cmdFind(wrapPS(a)...))
			b := bl
			b.Body = gen.Seq{Items: []gen.Node{gen.Or{Alts: []gen.Node{gen.GlobalRef{Name: "gx"}, gen.Lit{S: "a"}, gen.Class{Kind: "any"}}}}}
			add("global-pattern-first-alternative-in-bounded-loop", w, []gen.Global{g}, cmdFind(wrapPS(b)...))
		}
		if subDup {
			lz := gen.Loop{Min: 0, Max: 1, Lazy: true, Form: "maybe"}
			a := lz
			a.Body = grp
			w := add("in-place-lazily-skipped-then-used", -1, nil, cmdFind(wrapPS(a, gen.Class{Kind: "any"}, grp)...))
			b := lz
			b.Body = gen.Seq{Items: []gen.Node{gen.GlobalRef{Name: "gx"}}}
			add("global-pattern-lazily-skipped-then-used", w, []gen.Global{g}, cmdFind(wrapPS(b, gen.Class{Kind: "any"}, gen.GlobalRef{Name: "gx"})...))
			c := lz
			c.Body = gen.Seq{Items: []gen.Node{gen.SubDef{Name: "sx", Body: B}}}
			add("inline-subroutine-lazily-skipped-then-called", w, nil, cmdFind(wrapPS(c, gen.Class{Kind: "any"}, gen.SubCall{Name: "sx"})...))
		}
	}
	if subDup {
		// first mentioned inside a loop that runs zero times (no code is emitted for it), then used
		zl := []gen.Loop{{Min: 0, Max: 0, Form: "exactly"}, {Min: 0, Max: 0, Form: "atmost"}, {Min: 0, Max: 0, Form: "between"}}[(i/3)%3]
		a := zl
		a.Body = grp
		w := add("in-place-inside-zero-count-loop-then-used", -1, nil, cmdFind(wrapPS(a, gen.Class{Kind: "any"}, grp)...))
		b := zl
		b.Body = gen.Seq{Items: []gen.Node{gen.GlobalRef{Name: "gx"}}}
		add("global-pattern-inside-zero-count-loop-then-used", w, []gen.Global{g}, cmdFind(wrapPS(b, gen.Class{Kind: "any"}, gen.GlobalRef{Name: "gx"})...))
	}
	// inside a loop and inside an alternation
	lp := gen.Loop{Min: 0, Max: -1, Form: "atleast"}
	if rng.Bool() {
		lp = gen.Loop{Min: 1, Max: 2, Form: "between", Lazy: true}
	}
	if !(lp.Min > 0 && !subDup) {
		l1 := lp
		l1.Body = grp
		inLoop := add("in-place-in-loop", -1, nil, cmdFind(wrapPS(l1)...))
		l2 := lp
		l2.Body = gen.Seq{Items: []gen.Node{gen.GlobalRef{Name: "gx"}}}
		add("global-pattern-in-loop", inLoop, []gen.Global{g}, cmdFind(wrapPS(l2)...))
	}
	inAlt := add("in-place-in-alternation", -1, nil, cmdFind(wrapPS(gen.Or{Alts: []gen.Node{gen.Lit{S: "x"}, grp}})...))
	add("global-pattern-in-alternation", inAlt, []gen.Global{g}, cmdFind(wrapPS(gen.Or{Alts: []gen.Node{gen.Lit{S: "x"}, gen.GlobalRef{Name: "gx"}}})...))
	// TWO stored patterns as the bare operands of one alternation (each inlined there for the first time), a third
	// alternative, the second one behind a literal, and a stored pattern made of the two
	if subDup {
		B2 := []gen.Node{atomPG.Node(0), gen.Or{Alts: []gen.Node{gen.Lit{S: "b"}, gen.Lit{S: "x"}}}}
		if rng.Bool() {
			B2 = []gen.Node{gen.Lit{S: "c"}}
		}
		grp2 := gen.Seq{Items: B2}
		gy := gen.Global{Name: "gy", Body: B2}
		gxr, gyr := gen.GlobalRef{Name: "gx"}, gen.GlobalRef{Name: "gy"}
		dash := gen.Lit{S: "-"}
		w := add("in-place-two-bodies-as-alternatives", -1, nil, cmdFind(wrapPS(gen.Or{Alts: []gen.Node{grp, grp2}})...))
		add("two-stored-patterns-as-bare-alternatives", w, []gen.Global{g, gy}, cmdFind(wrapPS(gen.Or{Alts: []gen.Node{gxr, gyr}})...))
		add("two-stored-patterns-as-bare-alternatives-defined-in-the-other-order", w, []gen.Global{gy, g}, cmdFind(wrapPS(gen.Or{Alts: []gen.Node{gxr, gyr}})...))
		add("stored-pattern-made-of-two-stored-patterns-as-alternatives", w, []gen.Global{g, gy, {Name: "gz", Body: []gen.Node{gen.Or{Alts: []gen.Node{gxr, gyr}}}}}, cmdFind(wrapPS(gen.GlobalRef{Name: "gz"})...))
		w3 := add("in-place-three-alternatives-second-behind-a-literal", -1, nil, cmdFind(wrapPS(gen.Or{Alts: []gen.Node{grp, gen.Seq{Items: []gen.Node{dash, grp2}}, gen.Lit{S: "x"}}})...))
		add("stored-patterns-three-alternatives-second-behind-a-literal", w3, []gen.Global{g, gy}, cmdFind(wrapPS(gen.Or{Alts: []gen.Node{gxr, gen.Seq{Items: []gen.Node{dash, gyr}}, gen.Lit{S: "x"}}})...))
		w4 := add("in-place-second-body-first", -1, nil, cmdFind(wrapPS(gen.Or{Alts: []gen.Node{grp2, grp}}, grp2)...))
		add("stored-patterns-second-first-then-used-again", w4, []gen.Global{g, gy}, cmdFind(wrapPS(gen.Or{Alts: []gen.Node{gyr, gxr}}, gyr)...))
	}
	c1 := cmdFind(wrapPS(gen.GlobalRef{Name: "gx"})...)
	c2 := cmdFind(gen.GlobalRef{Name: "gx"})
	// the name defined AGAIN between commands: each command runs with the definition in force where it stands
	{
		B2 := []gen.Node{atomPG.Node(0)}
		if rng.Bool() {
			B2 = append(B2, gen.Or{Alts: []gen.Node{gen.Lit{S: "b"}, gen.Lit{S: "x"}}})
		}
		g2 := gen.Global{Name: "gx", Body: B2}
		r1 := add("redefinition:first-definition-command-1-alone", -1, []gen.Global{g}, c1)
		r2 := add("redefinition:second-definition-command-1-alone", -1, []gen.Global{g2}, c1)
		r3 := add("redefinition:second-definition-command-2-alone", -1, []gen.Global{g2}, c2)
		k := add("redefinition-between-commands", -1, []gen.Global{g}, c1, c1, c2)
		vs[k].src = gen.RenderGlobal(g) + "\n" + gen.RenderCommand(c1) + "\n" + gen.RenderGlobal(g2) + "\n" + gen.RenderCommand(c1) + "\n" + gen.RenderCommand(c2)
		vs[k].concat = []int{r1, r2, r3}
	}
	// ... and the same when one of the two definitions carries a PREDICATE and the other does not: a definition is what
	// it says, nothing of the definition it replaces carries over
	{
		pr := gen.PredLib[rng.Intn(len(gen.PredLib))]
		B2 := []gen.Node{gen.Loop{Min: 1, Max: 2, Form: "between", Body: gen.Class{Kind: "letter"}}}
		withP := gen.Global{Name: "gx", Body: B2, Pred: &pr}
		without := gen.Global{Name: "gx", Body: B2}
		for oi, order := range [][2]gen.Global{{withP, without}, {without, withP}} {
			tag := []string{"predicate-then-none", "none-then-predicate"}[oi]
			r1 := add("redefinition:"+tag+":first-definition-command-1-alone", -1, []gen.Global{order[0]}, c1)
			r2 := add("redefinition:"+tag+":second-definition-command-1-alone", -1, []gen.Global{order[1]}, c1)
			r3 := add("redefinition:"+tag+":second-definition-command-2-alone", -1, []gen.Global{order[1]}, c2)
			k := add("redefinition-between-commands:"+tag, -1, []gen.Global{order[0]}, c1, c1, c2)
			vs[k].src = gen.RenderGlobal(order[0]) + "\n" + gen.RenderCommand(c1) + "\n" + gen.RenderGlobal(order[1]) + "\n" + gen.RenderCommand(c1) + "\n" + gen.RenderCommand(c2)
			vs[k].concat = []int{r1, r2, r3}
		}
	}
	// names that live INSIDE a stored pattern stay inside: (a) a stored pattern built on another stored pattern keeps
	// the meaning that one had when it was defined, also when the inner name is defined again before the command;
	// (b) an inline subroutine of the stored pattern's body does not occupy its name in the referencing command
	{
		inner := []gen.Node{atomPG.Node(0)}
		outerBody := append([]gen.Node{gen.GlobalRef{Name: "gy"}}, B...)
		redefined := []gen.Node{gen.Lit{S: []string{"x", "b", "ab"}[rng.Intn(3)]}}
		gy1 := gen.Global{Name: "gy", Body: inner}
		gxo := gen.Global{Name: "gx", Body: outerBody}
		gy2 := gen.Global{Name: "gy", Body: redefined}
		cmd := cmdFind(wrapPS(gen.GlobalRef{Name: "gx"}, gen.GlobalRef{Name: "gy"})...)
		w := add("in-place:nested-stored-patterns-inner-name-redefined", -1, nil, cmdFind(wrapPS(gen.Seq{Items: append(append([]gen.Node{}, inner...), B...)}, gen.Seq{Items: redefined})...))
		k := add("nested-stored-patterns-inner-name-redefined", w, []gen.Global{gy1, gxo}, cmd)
		vs[k].src = gen.RenderGlobal(gy1) + "\n" + gen.RenderGlobal(gxo) + "\n" + gen.RenderGlobal(gy2) + "\n" + gen.RenderCommand(cmd)
		if nm := firstSubName(B); nm != "" {
			w2 := add("in-place:own-subroutine-named-like-one-inside-the-stored-pattern", -1, nil,
				cmdFind(wrapPS(grp, gen.SubDef{Name: "zq9", Body: []gen.Node{gen.Lit{S: "x"}}}, gen.Loop{Min: 0, Max: 1, Form: "maybe", Body: gen.SubCall{Name: "zq9"}})...))
			k3 := add("own-subroutine-named-like-one-inside-the-stored-pattern", w2, []gen.Global{g},
				cmdFind(wrapPS(gen.GlobalRef{Name: "gx"}, gen.SubDef{Name: nm, Body: []gen.Node{gen.Lit{S: "x"}}}, gen.Loop{Min: 0, Max: 1, Form: "maybe", Body: gen.SubCall{Name: nm}})...))
			// judged against the renamed in-place form only (which the reference judges): the reference matcher keeps one
			// table of subroutine names per command and would resolve a call INSIDE the stored pattern to the command's
			// subroutine of the same name
			vs[k3].src = gen.RenderProgram(vs[k3].prog)
		}
	}
	// an unrelated stored pattern that carries the name of the command's inline subroutine: the local declaration
	// is the one the command means, wherever it stands (in a loop, skipped, called later)
	shadow := gen.Global{Name: "sx", Body: []gen.Node{gen.Lit{S: "q"}, gen.Lit{S: "x"}}}
	for k := range vs {
		if strings.HasPrefix(vs[k].name, "inline-subroutine") && vs[k].src == "" && len(vs[k].prog.Globals) == 0 {
			add(vs[k].name+"+same-named-stored-pattern", vs[k].equiv, []gen.Global{shadow}, vs[k].prog.Commands...)
		}
	}
	// ... and the inline subroutine declared INSIDE a loop, called after it
	if subDup {
		lp2 := gen.Loop{Min: 1, Max: -1, Form: "atleast"}
		a := lp2
		a.Body = gen.Seq{Items: []gen.Node{grp, gen.Lit{S: "-"}}}
		w := add("in-place-in-loop-then-once-more", -1, nil, cmdFind(wrapPS(a, grp)...))
		b := lp2
		b.Body = gen.Seq{Items: []gen.Node{gen.SubDef{Name: "sx", Body: B}, gen.Lit{S: "-"}}}
		add("inline-subroutine-declared-in-loop-called-after", w, nil, cmdFind(wrapPS(b, gen.SubCall{Name: "sx"})...))
		add("inline-subroutine-declared-in-loop-called-after+same-named-stored-pattern", w, []gen.Global{shadow}, cmdFind(wrapPS(b, gen.SubCall{Name: "sx"})...))
	}
	// a stored pattern WITH A PREDICATE used inside another stored pattern keeps its predicate: referenced through
	// the outer pattern it matches what it matches when referenced directly in the same place
	{
		pr := gen.PredLib[rng.Intn(len(gen.PredLib))]
		inner := gen.Global{Name: "gp", Body: []gen.Node{gen.Loop{Min: 1, Max: 2, Form: "between", Body: gen.Class{Kind: "letter"}}}, Pred: &pr}
		outer := gen.Global{Name: "go", Body: wrapPS(gen.GlobalRef{Name: "gp"})}
		w := add("predicate-pattern-referenced-directly", -1, []gen.Global{inner}, cmdFind(wrapPS(gen.GlobalRef{Name: "gp"})...))
		add("predicate-pattern-inside-another-stored-pattern", w, []gen.Global{inner, outer}, cmdFind(gen.GlobalRef{Name: "go"}))
		add("predicate-pattern-inside-another-stored-pattern-twice", -1, []gen.Global{inner, outer}, cmdFind(gen.GlobalRef{Name: "go"}, gen.Loop{Min: 0, Max: 1, Form: "maybe", Body: gen.GlobalRef{Name: "go"}}))
		// two (three) stored patterns whose BODIES are the same text and whose predicates differ - one may have none -
		// referenced in one command, in both orders: each name keeps its own predicate
		{
			k := rng.Intn(len(gen.PredLib))
			pA, pB := gen.PredLib[k], gen.PredLib[(k+3)%len(gen.PredLib)]
			same := []gen.Node{gen.Class{Kind: "letter"}}
			if rng.Bool() {
				same = []gen.Node{gen.Or{Alts: []gen.Node{gen.Lit{S: "a"}, gen.Lit{S: "ab"}, gen.Class{Kind: "letter"}}}}
			}
			gA, gB, gC := gen.Global{Name: "ga", Body: same, Pred: &pA}, gen.Global{Name: "gb", Body: same, Pred: &pB}, gen.Global{Name: "gc", Body: same}
			ra, rb, rc := gen.GlobalRef{Name: "ga"}, gen.GlobalRef{Name: "gb"}, gen.GlobalRef{Name: "gc"}
			add("same-body-different-predicates", -1, []gen.Global{gA, gB}, cmdFind(ra, rb))
			add("same-body-different-predicates-other-order", -1, []gen.Global{gA, gB}, cmdFind(rb, ra))
			add("same-body-predicate-then-none", -1, []gen.Global{gA, gC}, cmdFind(ra, rc))
			add("same-body-none-then-predicate", -1, []gen.Global{gA, gC}, cmdFind(rc, ra))
			add("same-body-three-names", -1, []gen.Global{gC, gB, gA}, cmdFind(rc, gen.Or{Alts: []gen.Node{rb, ra}}, rc))
		}
		// ... and what its predicate sees is ITS match, whatever the referencing command has captured before and under
		// whatever name: a capture called like a built-in of the predicate or like a variable the predicate uses
		for _, cn := range []string{"tag", "match", "matchLength", "n", "k", "e"} {
			tagc := gen.Seq{Items: []gen.Node{gen.Capture{Name: cn, Body: gen.Seq{Items: []gen.Node{gen.Or{Alts: []gen.Node{gen.Lit{S: "#"}, gen.Lit{S: "ab"}}}}}}}}
			add("predicate-pattern-behind-a-capture-named-"+cn, -1, []gen.Global{inner}, cmdFind(tagc, gen.GlobalRef{Name: "gp"}))
		}
	}
	// a name defined AGAIN IN TERMS OF its own previous definition (set gx to pattern (gx '-' gx)) means what the
	// two-name form and the written-out form mean; a stored pattern whose body declares an inline subroutine that
	// carries the stored pattern's own name means its body
	{
		dash := gen.Lit{S: "-"}
		cmd := cmdFind(wrapPS(gen.GlobalRef{Name: "gx"})...)
		if subDup {
			w := add("in-place:twice-around-a-dash", -1, nil, cmdFind(wrapPS(gen.Seq{Items: []gen.Node{grp, dash, grp}})...))
			g2 := gen.Global{Name: "gx", Body: []gen.Node{gen.Seq{Items: []gen.Node{gen.GlobalRef{Name: "gx"}, dash, gen.GlobalRef{Name: "gx"}}}}}
			k := add("definition-extended-in-terms-of-its-own-previous-definition", w, []gen.Global{g, g2}, cmd)
			vs[k].src = gen.RenderGlobal(g) + "\n" + gen.RenderGlobal(g2) + "\n" + gen.RenderCommand(cmd)
			gi := gen.Global{Name: "gi", Body: B}
			g3 := gen.Global{Name: "gx", Body: []gen.Node{gen.Seq{Items: []gen.Node{gen.GlobalRef{Name: "gi"}, dash, gen.GlobalRef{Name: "gi"}}}}}
			add("definition-built-on-another-name", w, []gen.Global{gi, g3}, cmd)
			k2 := add("definition-extended-twice-in-terms-of-itself-used-twice", -1, []gen.Global{g, g2}, cmdFind(wrapPS(gen.GlobalRef{Name: "gx"}, gen.Loop{Min: 0, Max: 1, Form: "maybe", Body: gen.GlobalRef{Name: "gx"}})...))
			vs[k2].src = gen.RenderGlobal(g) + "\n" + gen.RenderGlobal(g2) + "\n" + gen.RenderCommand(vs[k2].prog.Commands[0])
			w3 := add("in-place:twice-around-a-dash-used-twice", -1, nil, cmdFind(wrapPS(gen.Seq{Items: []gen.Node{grp, dash, grp}}, gen.Loop{Min: 0, Max: 1, Form: "maybe", Body: gen.Seq{Items: []gen.Node{grp, dash, grp}}})...))
			vs[k2].equiv = w3
		}
		gs := gen.Global{Name: "gx", Body: []gen.Node{gen.SubDef{Name: "gx", Body: B}}}
		k := add("stored-pattern-holding-an-inline-subroutine-of-its-own-name", inl, []gen.Global{gs}, cmd)
		vs[k].src = gen.RenderGlobal(gs) + "\n" + gen.RenderCommand(cmd)
	}
	// stored patterns whose names differ only in letter case are different patterns, whichever is defined last
	{
		other := []gen.Node{gen.Or{Alts: []gen.Node{gen.Lit{S: "x"}, gen.Lit{S: "b"}}}}
		gU := gen.Global{Name: "GX", Body: other}
		gM := gen.Global{Name: "Gx", Body: []gen.Node{gen.Lit{S: "a"}}}
		w := add("in-place:body-then-other-body", -1, nil, cmdFind(wrapPS(grp, gen.Seq{Items: other})...))
		add("two-stored-patterns-differing-in-letter-case", w, []gen.Global{g, gU}, cmdFind(wrapPS(gen.GlobalRef{Name: "gx"}, gen.GlobalRef{Name: "GX"})...))
		add("two-stored-patterns-differing-in-letter-case-defined-in-the-other-order", w, []gen.Global{gU, g}, cmdFind(wrapPS(gen.GlobalRef{Name: "gx"}, gen.GlobalRef{Name: "GX"})...))
		add("three-stored-patterns-differing-in-letter-case", w, []gen.Global{gM, g, gU, gM}, cmdFind(wrapPS(gen.GlobalRef{Name: "gx"}, gen.GlobalRef{Name: "GX"})...))
	}
	// three commands sharing one definition == concatenation of the commands taken alone
	c3 := cmdFind(gen.Or{Alts: []gen.Node{gen.Lit{S: "b"}, gen.GlobalRef{Name: "gx"}}}, gen.Loop{Min: 0, Max: 1, Form: "maybe", Body: gen.GlobalRef{Name: "gx"}})
	if !subDup {
		c3 = cmdFind(gen.Or{Alts: []gen.Node{gen.Lit{S: "b"}, gen.GlobalRef{Name: "gx"}}})
	}
	add("three-commands-sharing-definition", -2, []gen.Global{g}, c1, c2, c3)
	add("command-1-alone", -1, []gen.Global{g}, c1)
	add("command-2-alone", -1, []gen.Global{g}, c2)
	add("command-3-alone", -1, []gen.Global{g}, c3)

	sm := gen.NewSampler(rng, vs[0].prog, []byte("abx\n A"))
	texts := sm.Inputs(vs[0].prog.Commands[0].Body, 6, maxLenFor(vs[0].prog, 12))
	sm2 := gen.NewSampler(rng, vs[len(vs)-3].prog, []byte("abx "))
	texts = append(texts, sm2.Inputs([]gen.Node{grp, grp}, 2, 12)...)
	if subDup {
		sep := gen.Lit{S: "-"}
		texts = append(texts, sm2.Inputs(wrapPS(grp, sep, grp, sep, grp, sep, grp), 2, 12)...)
	}
	return vs, texts
}

func C13(r *drv.Run) {
	r.BuildWorker()
	nbody, nhist := 300, 60
	if !quick(r) {
		nbody, nhist = 20000, 2500
	}
	r.Rule = "(1) capture-free bodies B (with or, in, not in, loops, nested and recursive subroutines) in contexts prefix/suffix, inside a loop, inside an alternation, next to a SECOND stored pattern as bare operands of one alternation (also three alternatives, the second behind a literal, and a stored pattern made of the two): B in place == {B}=s (+0..2 calls) == set g to pattern B referenced 1..3 times, also referenced before AND inside a counted loop (exactly 2 / at least 2 / between 3 and 4), first mentioned inside a zero-count loop and then used, a stored pattern built on another one whose name is defined again before the command, an inline subroutine of the command named like one inside the stored pattern, every inline-subroutine variant again next to an unrelated stored pattern of the same name, an inline subroutine declared inside a loop and called after it, a stored pattern with a predicate used inside another stored pattern, stored patterns whose names differ only in letter case, a name defined again in terms of its own previous definition (== the two-name form == written out), a stored pattern whose body declares an inline subroutine of the stored pattern's own name, all also judged by the reference matcher; a self-referencing subroutine driven 700 (thorough: 4 100) levels deep by an anchored input, inline and as a stored pattern, and chains of 701 and 10 051 (thorough: also 4 101 and 16 501) inline subroutines each standing for the one before it; (2) a three-command source sharing one definition == concatenation of its commands compiled alone; a source that defines the name AGAIN with another body between its commands (also with a predicate on only the first or only the second definition) == concatenation of each command compiled alone with the definition in force where it stands; (3) recorded sequential histories of Compile/Run calls in random order over a pool of sources (including sources whose compilation fails in the parser, the regex sub-parser, the generator and the type checker) and texts, checked offline against the pure-function model: each call's result digest equals the digest the same call produced alone in a fresh worker process; (4) canonical bytecode digest (loop ids normalised) unchanged by runs and equal across recompilations. A predicate-carrying stored pattern referenced behind a capture of the command that is called tag, match, matchLength, n, k or e (names of the predicate's built-ins and of variables the predicates use): the predicate sees its own match. Two and three stored patterns whose bodies are the same text and whose predicates differ (one may have none), referenced in one command in both orders: each name keeps its own predicate. Non-trivial = variant pair with >= 1 match compared / history call whose isolated result has >= 1 match; distinct by (variant source, text) and (history, call index)."
	r.Assumptions = []string{
		"bodies are capture-free, as the property says",
		"a body that itself declares subroutines is not duplicated textually (two declarations of one name are rejected by design)",
	}
	r.Exec(nbody, drv.ExecOpts{Batch: 20}, func(i int) *drv.Item {
		rng := gen.Derive(r.Seed, "C13", i)
		vs, texts := c13Variants(rng, i)
		srcs := make([][]byte, len(vs))
		for k, v := range vs {
			srcs[k] = []byte(gen.RenderProgram(v.prog))
			if v.src != "" {
				srcs[k] = []byte(v.src)
			}
		}
		c := wire.Case{Op: "astcmp", Srcs: srcs, Texts: texts, StepBudget: 60000, WantBC: true}
		return &drv.Item{Case: c, Check: func(res *wire.Result) { c13CheckVariants(r, vs, srcs, texts, &c, res, i) }}
	})
	c13Histories(r, nhist)
	c13Deep(r)
	if r.NViolations() == 0 {
		expensiveFloor(r)
		for _, k := range []string{"pairs_global-pattern", "pairs_inline-subroutine", "pairs_global-pattern-thrice", "pairs_global-pattern-in-loop", "pairs_global-pattern-before-and-inside-counted-loop", "pairs_inline-subroutine-before-and-inside-counted-loop", "concat_checked", "concat_redefinition-between-commands", "history_calls_checked", "reloc_StartSubroutine", "reloc_CallSubroutine", "reloc_Branch"} {
			if r.Counter(k) == 0 {
				r.Inconclusive("coverage floor: " + k + " = 0")
			}
		}
	}
}

func c13CheckVariants(r *drv.Run, vs []c13Variant, srcs [][]byte, texts [][]byte, c *wire.Case, res *wire.Result, i int) {
	base := string(srcs[0])
	if crashOrGuard(r, res, c, base, false) {
		return
	}
	if len(res.Compiles) != len(vs) || len(res.Runs) != len(vs)*len(texts) {
		r.Inconclusive("short worker result")
		return
	}
	for k := range vs {
		cr := &res.Compiles[k]
		if cr.Panic != nil {
			r.Violate(&drv.Violation{Sig: "compile-panic:" + cr.Panic.Frame, Panic: cr.Panic.Msg, Frame: cr.Panic.Frame, Src: string(srcs[k]), Case: c})
			return
		}
		if !cr.OK {
			// the in-place form compiled (or this is it): a naming form that does not compile is not transparent
			if k > 0 && res.Compiles[0].OK {
				r.Violate(&drv.Violation{Sig: "variant-rejected:" + vs[k].name, Err: cr.Err, Src: string(srcs[k]), Case: c, Detail: map[string]any{"in_place_form": base}})
			} else {
				r.Inconclusive("generated program rejected by Compile: " + cr.Err + " | " + string(srcs[k]))
			}
			return
		}
		for _, kd := range cr.Reloc {
			if strings.HasPrefix(kd, "gx:") {
				r.Count("reloc_"+kd[3:], 1)
			}
		}
	}
	run := func(k, ti int) *wire.Run { return &res.Runs[k*len(texts)+ti] }
	for ti, text := range texts {
		usable := true
		for k := range vs {
			rr := run(k, ti)
			r.Eval(1)
			r.Count("runs_total", 1)
			if rr.Panic != nil {
				r.Violate(&drv.Violation{Sig: "run-panic:" + rr.Panic.Frame, Panic: rr.Panic.Msg, Frame: rr.Panic.Frame, Src: string(srcs[k]), Text: string(text), Case: c})
				usable = false
			} else if rr.Budget != "" {
				// a named form that does not finish where its written-out form needs a twentieth of the budget or less is
				// not the same pattern (a definition that turned into a recursion, say); everything else over budget is
				// skipped as expensive
				if e := vs[k].equiv; e >= 0 && run(e, ti).Budget == "" && run(e, ti).Panic == nil && run(e, ti).Steps*20 < c.StepBudget {
					r.Violate(&drv.Violation{Sig: "not-transparent:" + vs[k].name + ":does-not-finish", Src: string(srcs[k]), Text: string(text), Case: c,
						Detail: map[string]any{"written_out": string(srcs[e]), "written_out_steps": run(e, ti).Steps, "named_form": rr.Budget}})
				} else {
					r.Count("skipped_expensive", 1)
				}
				usable = false
			}
		}
		if !usable {
			continue
		}
		for k, v := range vs {
			got := run(k, ti)
			// against the reference (single-command variants)
			if len(v.prog.Commands) == 1 && v.src == "" {
				alts, gaveUp := expectedScans(v.prog, v.prog.Commands[0].Body, string(text), 300000)
				if !gaveUp {
					ok := false
					for _, a := range alts {
						if sameSpans(spansOf(got.Matches), refSpans(a)) {
							ok = true
						}
					}
					if !ok {
						r.Violate(&drv.Violation{Sig: "differs-from-reference:" + v.name, Src: string(srcs[k]), Text: string(text), Case: c,
							Detail: map[string]any{"expected": fmtSpans(refSpans(alts[0])), "observed": fmtSpans(spansOf(got.Matches))}})
						continue
					}
				}
			}
			if v.equiv >= 0 {
				want := run(v.equiv, ti)
				if matchesJSON(got.Matches) != matchesJSON(want.Matches) {
					r.Violate(&drv.Violation{Sig: "not-transparent:" + v.name, Src: string(srcs[k]), Text: string(text), Case: c,
						Detail: map[string]any{"written_out": string(srcs[v.equiv]), "written_out_result": fmtGotN(want.Matches), "observed": fmtGotN(got.Matches)}})
					continue
				}
				r.Count("pairs_"+v.name, 1)
				if len(want.Matches) > 0 {
					r.Nontrivial(string(srcs[k]) + "\x00" + string(text))
				}
			}
			if v.concat != nil {
				var cat []wire.Match
				for _, d := range v.concat {
					cat = append(cat, run(d, ti).Matches...)
				}
				if matchesJSON(got.Matches) != matchesJSON(cat) {
					r.Violate(&drv.Violation{Sig: "multi-command-not-concatenation:" + v.name, Src: string(srcs[k]), Text: string(text), Case: c,
						Detail: map[string]any{"expected": fmtGotN(cat), "observed": fmtGotN(got.Matches)}})
					continue
				}
				r.Count("concat_"+v.name, 1)
				if len(cat) > 0 {
					r.Nontrivial(string(srcs[k]) + "\x00" + string(text))
				}
			}
			if v.equiv == -2 {
				// concatenation of the three commands taken alone (the last three variants)
				var cat []wire.Match
				for d := 3; d >= 1; d-- {
					cat = append(cat, run(len(vs)-d, ti).Matches...)
				}
				if matchesJSON(got.Matches) != matchesJSON(cat) {
					r.Violate(&drv.Violation{Sig: "multi-command-not-concatenation", Src: string(srcs[k]), Text: string(text), Case: c,
						Detail: map[string]any{"expected": fmtGotN(cat), "observed": fmtGotN(got.Matches)}})
					continue
				}
				r.Count("concat_checked", 1)
				if len(cat) > 0 {
					r.Nontrivial(string(srcs[k]) + "\x00" + string(text))
				}
			}
		}
	}
	if i%37 == 0 {
		r.Sample(map[string]any{"in_place": base, "global": string(srcs[2]), "text": string(texts[0])})
	}
}

// ---- histories ---------------------------------------------------------------------

func c13Histories(r *drv.Run, nhist int) {
	// a pool of sources exercising relocation, predicates, captures, regex groups, transforms
	pool := []string{
		"set p to pattern 'a' or 'b'\nfind all 'x' p\nfind all 'y' p",
		"set p to pattern {'a' maybe q 'b'} = q 'd'\nfind all p\nfind all 'z' p",
		"set d3 to pattern (at least 1 digit) begin return match % 3 == 0 end\nfind all 'x' d3",
		"find all ('a' = x 'b') or ('a' 'c')",
		"find all @/(a|b)+c\\1/",
		"set f to transform return match + matchLength end\nreplace all at least 1 letter with '<' f '>'",
		"find all at least 1 (in 'a', 'b') fewest not in 'a'",
		"set g to pattern in 'a' to 'c', digit\nset h to pattern g g\nfind all h '-' g\nfind last 1 g",
		"find skip 1 take 2 'a' maybe 'b'",
		"find all {'(' at least 0 (s or letter) ')'} = s",
		// compilations that FAIL must not leave anything behind either
		"find all @/(x)(y)(z/",
		"find all @/(a)(b)\\3/",
		"find all 'unterminated",
		"set p to pattern 'a' or 'b' begin return 1 end\nfind all p",
		"find all @/(a)(b)\\2\\1/",
	}
	textsPool := []string{"xaxbyayb", "aabbdzaabbd", "x12 x13 x9", "ab ac", "abcb aac bcb", "hello wor1d", "abca", "a1-b c2-c", "ab a ab a a", "(a(b)) ()"}
	srcs := make([][]byte, len(pool))
	for i, s := range pool {
		srcs[i] = []byte(s)
	}
	texts := make([][]byte, len(textsPool))
	for i, s := range textsPool {
		texts[i] = []byte(s)
	}
	// phase A: every distinct call alone, each in a fresh worker process (Batch 1)
	type key struct {
		kind string
		p, t int
	}
	isolated := map[key]string{}
	var keys []key
	for p := range pool {
		keys = append(keys, key{"compile", p, 0})
		for t := range texts {
			keys = append(keys, key{"compile+run", p, t}, key{"run", p, t})
		}
	}
	var isoMu sync.Mutex
	r.Exec(len(keys), drv.ExecOpts{Batch: 1}, func(i int) *drv.Item {
		k := keys[i]
		c := wire.Case{Op: "hist", Srcs: srcs, Texts: texts, Calls: []wire.Call{{Kind: k.kind, Prog: k.p, Text: k.t}}}
		return &drv.Item{Case: c, Check: func(res *wire.Result) {
			if res.Died || res.Panic != nil || len(res.Calls) != 1 {
				r.Inconclusive("isolated call failed")
				return
			}
			if res.Calls[0].Panic != "" {
				r.Violate(&drv.Violation{Sig: "panic-in-isolated-call", Panic: res.Calls[0].Panic, Src: pool[k.p], Text: textsPool[k.t], Case: &c})
				return
			}
			isoMu.Lock()
			isolated[k] = res.Calls[0].Digest
			isoMu.Unlock()
		}}
	})
	r.Count("isolated_calls", len(keys))
	// phase B: histories
	r.Exec(nhist, drv.ExecOpts{Batch: 5}, func(i int) *drv.Item {
		rng := gen.Derive(r.Seed, "C13hist", i)
		n := 60
		calls := make([]wire.Call, n)
		for j := range calls {
			kinds := []string{"run", "run", "compile+run", "compile"}
			calls[j] = wire.Call{Kind: kinds[rng.Intn(4)], Prog: rng.Intn(len(pool)), Text: rng.Intn(len(texts))}
			if calls[j].Kind == "compile" {
				calls[j].Text = 0
			}
		}
		c := wire.Case{Op: "hist", Srcs: srcs, Texts: texts, Calls: calls}
		return &drv.Item{Case: c, Check: func(res *wire.Result) {
			if res.Died || res.Panic != nil {
				r.Violate(&drv.Violation{Sig: "history-crashed", Panic: firstLines(res.Stderr, 3), Case: &c})
				return
			}
			if res.Mismatch != "" {
				r.Violate(&drv.Violation{Sig: "bytecode-mutated-by-run", Case: &c, Detail: map[string]any{"what": res.Mismatch}})
				return
			}
			for j, call := range res.Calls {
				r.Eval(1)
				k := key{call.Kind, call.Prog, call.Text}
				want, ok := isolated[k]
				if !ok {
					continue
				}
				if call.Panic != "" || call.Digest != want {
					r.Violate(&drv.Violation{Sig: "history-call-differs-from-isolated-call:" + call.Kind, Src: pool[call.Prog], Text: textsPool[call.Text], Case: &c,
						Detail: map[string]any{"call_index": j, "isolated_digest": want, "observed_digest": call.Digest, "panic": call.Panic,
							"preceding_calls": fmt.Sprint(res.Calls[max(0, j-4):j])}})
					return
				}
				r.Count("history_calls_checked", 1)
				r.Nontrivial(fmt.Sprintf("hist%d/%d/%s/%d/%d", i, j, call.Kind, call.Prog, call.Text))
			}
			if i%50 == 0 {
				r.Sample(map[string]any{"history_prefix": fmt.Sprint(res.Calls[:6])})
			}
		}}
	})
}
