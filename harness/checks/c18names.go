package checks

import (
	"encoding/json"
	"fmt"
	"os"
	"path/filepath"
	"sort"
	"strings"

	"verifharness/drv"
)

// c18Filenames: the tool's -filenames flag (search the file NAMES): under -json / -formatted-json standard output is
// one JSON document whose matches lie in the names of the selected files - also when a replace command asks for a
// rename that cannot be done (the target directory does not exist): what the tool has to say about that does not
// belong into the document.
func c18Filenames(r *drv.Run) {
	if r.CLIBin == "" {
		return
	}
	type job struct {
		prog, out string
	}
	var jobs []job
	for _, prog := range []string{"find all at least 1 digit", "find all 'a'", "replace all 'a' with 'no-such-directory/x'", "replace top 1 at least 1 digit with 'no/such/dir/9'"} {
		for _, out := range []string{"-json", "-formatted-json"} {
			jobs = append(jobs, job{prog, out})
		}
	}
	for i, jb := range jobs {
		dir := filepath.Join(r.WorkDir, "c18names", fmt.Sprint(i))
		os.MkdirAll(dir, 0o755)
		names := []string{"a1.txt", "b22.txt", "aa3.dat", "c.txt"}
		for _, n := range names {
			os.WriteFile(filepath.Join(dir, n), []byte("content 1 a"), 0o644)
		}
		code, stdout, stderr := runCLI(r.CLIBin, dir, []string{"-com", jb.prog, "-files", "*.txt", "-filenames", jb.out})
		r.Eval(1)
		viol := func(sig string, d map[string]any) {
			d["program"] = jb.prog
			d["flags"] = "-files *.txt -filenames " + jb.out
			d["stdout"] = oneLineN(stdout, 200)
			d["stderr"] = oneLineN(stderr, 200)
			r.Violate(&drv.Violation{Sig: "filenames:" + sig, Src: jb.prog, Detail: d})
		}
		if code != 0 {
			viol("exit-status", map[string]any{"exit": code})
			os.RemoveAll(dir)
			continue
		}
		var doc []map[string]any
		if err := json.Unmarshal([]byte(stdout), &doc); err != nil {
			viol("stdout-is-not-json", map[string]any{"error": err.Error()})
			os.RemoveAll(dir)
			continue
		}
		// every match lies in the NAME of one of the three selected files and says what stands there
		var seen []string
		bad := ""
		for _, o := range doc {
			fn, _ := o["filename"].(string)
			val, _ := o["value"].(string)
			off, _ := o["offset"].(map[string]any)
			s, _ := off["start"].(float64)
			e, _ := off["end"].(float64)
			base := filepath.Base(fn)
			if !strings.HasSuffix(base, ".txt") || int(e) > len(fn) || int(s) > int(e) || fn[int(s):int(e)] != val {
				bad = fmt.Sprintf("match %q [%d,%d) in %q", val, int(s), int(e), fn)
				break
			}
			seen = append(seen, base)
		}
		if bad != "" {
			viol("match-does-not-lie-in-the-file-name", map[string]any{"what": bad})
			os.RemoveAll(dir)
			continue
		}
		sort.Strings(seen)
		// the files are still there under their names (no rename could succeed)
		for _, n := range names {
			if _, err := os.Stat(filepath.Join(dir, n)); err != nil {
				viol("file-gone", map[string]any{"file": n})
			}
		}
		r.Count("filenames_invocations_verified", 1)
		if len(doc) > 0 {
			r.Nontrivial(fmt.Sprintf("c18names|%d", i))
		}
		os.RemoveAll(dir)
	}
	// what a search of file NAMES reports depends neither on what the files hold (some of them hold nothing) nor on the
	// replace mode given: the document is the same under every mode and over empty files
	for pi, prog := range []string{"find all at least 1 digit", "find all 'a'", "find all letter at least 1 digit"} {
		dir := filepath.Join(r.WorkDir, "c18names", fmt.Sprintf("m%d", pi))
		names := []string{"a1.txt", "b22.txt", "aa3.dat", "c.txt", "a44.txt"}
		var base string
		for vi, v := range []struct {
			mode  string
			empty []string
		}{{"", nil}, {"NOTHING", nil}, {"NEW", nil}, {"OVERWRITE", nil}, {"", []string{"a1.txt"}}, {"NOTHING", []string{"a1.txt", "a44.txt"}}, {"NEW", names}, {"NOTHING", names}, {"OVERWRITE", []string{"b22.txt"}}} {
			os.RemoveAll(dir)
			os.MkdirAll(dir, 0o755)
			isEmpty := map[string]bool{}
			for _, n := range v.empty {
				isEmpty[n] = true
			}
			for _, n := range names {
				content := []byte("content 1 a")
				if isEmpty[n] {
					content = nil
				}
				os.WriteFile(filepath.Join(dir, n), content, 0o644)
			}
			args := []string{"-com", prog, "-files", "*.txt", "-filenames", "-json"}
			if v.mode != "" {
				args = append(args, "-replace-mode", v.mode)
			}
			code, stdout, stderr := runCLI(r.CLIBin, dir, args)
			r.Eval(1)
			var doc any
			err := json.Unmarshal([]byte(stdout), &doc)
			canon, _ := json.Marshal(doc)
			if vi == 0 {
				base = string(canon)
				if code != 0 || err != nil || base == "null" || base == "[]" {
					r.Inconclusive("file-name search gave no document to compare with: " + oneLineN(stdout+stderr, 160))
					break
				}
				continue
			}
			if code != 0 || err != nil || string(canon) != base {
				r.Violate(&drv.Violation{Sig: "filenames:document-depends-on-mode-or-file-content", Src: prog,
					Detail: map[string]any{"arguments": fmt.Sprint(args), "empty_files": fmt.Sprint(v.empty), "exit": code, "document_with_default_mode_and_content": oneLineN(base, 300), "observed": oneLineN(stdout, 300), "stderr": oneLineN(stderr, 160)}})
				continue
			}
			r.Count("filenames_documents_equal_across_modes_and_contents", 1)
		}
		os.RemoveAll(dir)
	}
	// a replace command in file-name mode RENAMES files - and does the same renames under every replace mode, shown or
	// not shown (-no-output): the directory after the run is the one the plain invocation leaves
	n := 0
	baseline := ""
	for _, mode := range []string{"", "NOTHING", "NEW", "OVERWRITE"} {
		for _, quiet := range []bool{false, true} {
			n++
			dir := filepath.Join(r.WorkDir, "c18names", fmt.Sprintf("r%d", n))
			os.MkdirAll(dir, 0o755)
			for _, f := range []string{"old.txt", "older.dat", "keep.txt"} {
				os.WriteFile(filepath.Join(dir, f), []byte("content of "+f), 0o644)
			}
			args := []string{"-com", "replace all 'old.txt' with 'new.md'", "-files", "*.txt", "-filenames"}
			if mode != "" {
				args = append(args, "-replace-mode", mode)
			}
			if quiet {
				args = append(args, "-no-output")
			}
			code, stdout, stderr := runCLI(r.CLIBin, dir, args)
			r.Eval(1)
			ents, _ := os.ReadDir(dir)
			have := ""
			for _, e := range ents {
				b, _ := os.ReadFile(filepath.Join(dir, e.Name()))
				have += e.Name() + "=" + string(b) + "; "
			}
			if n == 1 {
				baseline = have
				if code != 0 || !strings.Contains(have, "new.md") {
					r.Inconclusive("the plain file-name rename did not rename: " + have + " | " + oneLineN(stderr, 120))
					os.RemoveAll(dir)
					break
				}
				os.RemoveAll(dir)
				continue
			}
			if code != 0 || have != baseline {
				r.Violate(&drv.Violation{Sig: "filenames:renames-depend-on-mode-or-output-flags", Src: "replace all 'old.txt' with 'new.md'",
					Detail: map[string]any{"arguments": fmt.Sprint(args), "exit": code, "directory_afterwards": have, "directory_after_the_plain_invocation": baseline, "stdout": oneLineN(stdout, 120), "stderr": oneLineN(stderr, 160)}})
			} else {
				r.Count("filenames_renames_verified", 1)
			}
			os.RemoveAll(dir)
		}
	}
	if r.NViolations() == 0 && r.Counter("filenames_invocations_verified") == 0 {
		r.Inconclusive("coverage floor: filenames_invocations_verified = 0")
	}
}
