package checks

import (
	"fmt"
	"os"
	"path/filepath"
	"strconv"
	"strings"

	"verifharness/drv"
	"verifharness/gen"
	"verifharness/proc"
	"verifharness/wire"
)

func init() { Registry["C05"] = C05 }

type c05Transform struct {
	name  string
	stmts []proc.Stmt
	src   string
}

type c05Case struct {
	find, repl string
	with       []gen.WithItem
	trs        map[string]*c05Transform
	loopNames  map[string]bool
	texts      [][]byte
}

// c05Wide: many captures, many `with` items, many transforms - counts on both sides of 10, 16, 32, 64, 100, 128, 256.
var c05Widths = []int{9, 10, 11, 15, 16, 17, 31, 32, 33, 63, 64, 65, 99, 100, 101, 127, 128, 129, 255, 256, 257, 300}

func c05Wide(seed uint64, i int) *c05Case {
	rng := gen.Derive(seed, "C05wide", i)
	K := c05Widths[rng.Intn(13)] // captures: up to 101
	N := c05Widths[rng.Intn(len(c05Widths))]
	T := []int{0, 3, 9, 10, 11, 17, 33}[rng.Intn(7)]
	if T > K {
		T = K
	}
	cs := &c05Case{trs: map[string]*c05Transform{}, loopNames: map[string]bool{}}
	var body []gen.Node
	caps := make([]string, K)
	for k := 0; k < K; k++ {
		caps[k] = fmt.Sprintf("c%d", k+1)
		body = append(body, gen.Capture{Name: caps[k], Body: gen.Seq{Items: []gen.Node{gen.Class{Kind: "letter"}}}})
	}
	trSrc := ""
	for k := 0; k < T; k++ {
		c := caps[rng.Intn(K)]
		ss := []proc.Stmt{proc.SReturn{X: proc.EBin{Op: "+", L: proc.EBin{Op: "+", L: proc.EStr{V: fmt.Sprintf("<%d:", k+1)}, R: proc.EVar{Name: c}}, R: proc.EVar{Name: "matchLength"}}}}
		tr := &c05Transform{name: fmt.Sprintf("t%d", k+1), stmts: ss}
		tr.src = "set " + tr.name + " to transform " + proc.RenderStmts(ss, false) + " end\n"
		trSrc += tr.src
		cs.trs[tr.name] = tr
	}
	for k := 0; k < N; k++ {
		switch x := rng.Intn(10); {
		case x < 5:
			cs.with = append(cs.with, gen.WithItem{Kind: "var", S: caps[rng.Intn(K)]})
		case x == 5:
			cs.with = append(cs.with, gen.WithItem{Kind: "str", S: []string{"-", "", "%d", fmt.Sprint(k)}[rng.Intn(4)]})
		case x == 6:
			cs.with = append(cs.with, gen.WithItem{Kind: "var", S: gen.BuiltinWith[rng.Intn(len(gen.BuiltinWith))]})
		case x == 7:
			cs.with = append(cs.with, gen.WithItem{Kind: "var", S: fmt.Sprintf("c%d", K+1+rng.Intn(3))}) // undefined
		default:
			if T > 0 {
				cs.with = append(cs.with, gen.WithItem{Kind: "var", S: fmt.Sprintf("t%d", 1+rng.Intn(T))})
			} else {
				cs.with = append(cs.with, gen.WithItem{Kind: "var", S: caps[K-1]})
			}
		}
	}
	var am gen.Amount
	if rng.Bool() {
		// the built-ins of a match under an amount clause are those of the match, not of its place in the list
		am = gen.RandomAmount(rng)
	}
	p := &gen.Program{Commands: []gen.Command{{Body: body, Amount: am}}}
	cs.find = gen.RenderProgram(p)
	rp := &gen.Program{Commands: []gen.Command{{Body: body, Replace: true, With: cs.with, Amount: am}}}
	cs.repl = trSrc + gen.RenderProgram(rp)
	letters := "abcxyzABQ"
	var text []byte
	for m := 0; m < 3; m++ {
		for k := 0; k < K+m; k++ { // the second and third block leave one / two letters over
			text = append(text, letters[rng.Intn(len(letters))])
		}
		text = append(text, " \n;"[m])
	}
	cs.texts = [][]byte{text}
	return cs
}

func c05Gen(seed uint64, i int) *c05Case {
	if i%25 == 7 {
		return c05Wide(seed, i)
	}
	rng := gen.Derive(seed, "C05", i)
	sc := gen.DefaultScope
	sc.CapHeavy = true
	sc.Globals = rng.Chance(1, 3)
	sc.GlobalCaps = true
	sc.Preds = false
	sc.MaxDepth = 2
	if rng.Bool() {
		sc.Alpha = "ab1"
	}
	pg := gen.NewPG(rng, sc)
	p := pg.FindProgram()
	c := &p.Commands[0]
	n := 0
	if rng.Chance(1, 3) {
		c.Body = gen.NameLoops(rng, c.Body, &n)
	}
	// make sure there is something to capture
	if len(gen.CaptureNames(c.Body))+len(gen.GlobalCaptureNames(p, c.Body)) == 0 {
		c.Body = append(c.Body, gen.Capture{Name: "w1", Body: gen.Seq{Items: []gen.Node{gen.Loop{Min: 0, Max: 2, Form: "atmost", Body: gen.Class{Kind: "letter"}}}}})
	}
	if own := gen.CaptureNames(c.Body); len(own) > 0 && rng.Chance(1, 6) {
		// a capture that happens to be called like the first transform (t1): in a `with` list the name is the
		// transform, inside transforms it is the captured text like any other capture
		c.Body = gen.RenameCapture(c.Body, own[rng.Intn(len(own))], "t1")
	}
	caps := append(gen.CaptureNames(c.Body), gen.GlobalCaptureNames(p, c.Body)...)
	loops := gen.LoopNames(c.Body)
	cs := &c05Case{trs: map[string]*c05Transform{}, loopNames: map[string]bool{}}
	for _, l := range loops {
		cs.loopNames[l] = true
	}
	// transforms
	ntr := rng.Intn(3)
	var trSrc string
	for k := 0; k < ntr; k++ {
		g := newProcGen(rng)
		g.strVar = append([]string{}, caps...)
		var ss []proc.Stmt
		switch rng.Intn(7) {
		case 6:
			// the built-ins of the match are variables of the transform too (strings there, except matchNumber)
			b1 := gen.BuiltinWith[rng.Intn(len(gen.BuiltinWith))]
			b2 := gen.BuiltinWith[rng.Intn(len(gen.BuiltinWith))]
			ss = []proc.Stmt{proc.SReturn{X: proc.EBin{Op: "+", L: proc.EBin{Op: "+", L: proc.EBin{Op: "+", L: proc.EStr{V: "["}, R: proc.EVar{Name: b1}}, R: proc.EStr{V: ":"}}, R: proc.EVar{Name: b2}}}}
		case 3:
			// reads a name it never assigned before: must be the empty string for every match and every
			// evaluation, whatever earlier matches or earlier `with` items did
			ss = []proc.Stmt{
				proc.SSet{Name: "acc", X: proc.EBin{Op: "+", L: proc.EVar{Name: "acc"}, R: proc.EVar{Name: "match"}}},
				proc.SReturn{X: proc.EBin{Op: "+", L: proc.EVar{Name: "acc"}, R: proc.EStr{V: "."}}}}
		case 5:
			ss = []proc.Stmt{proc.SReturn{X: proc.EBin{Op: "+", L: proc.EBin{Op: "+", L: proc.EStr{V: "[%"}, R: proc.EVar{Name: "match"}}, R: proc.EStr{V: "%d]"}}}}
		case 4:
			// reads a capture that only some matches bind
			c := caps[rng.Intn(len(caps))]
			ss = []proc.Stmt{proc.SReturn{X: proc.EBin{Op: "+", L: proc.EBin{Op: "+", L: proc.EStr{V: "{"}, R: proc.EVar{Name: c}}, R: proc.EStr{V: "}"}}}}
		case 0:
			t := []proc.Type{proc.TStr, proc.TNum}[rng.Intn(2)]
			ss = []proc.Stmt{proc.SReturn{X: g.typed(t, 2)}}
		case 1:
			ss = []proc.Stmt{proc.SIf{Cond: g.typed(proc.TBool, 2), Then: []proc.Stmt{proc.SReturn{X: g.typed(proc.TStr, 1)}}, Else: []proc.Stmt{proc.SReturn{X: g.typed(proc.TNum, 1)}}, HasElse: true}}
		default:
			g.strVar = nil
			body := g.stmtList(2, 1+rng.Intn(3), true, false, true)
			ss = g.withInits(body)
			ss = append(ss, proc.SReturn{X: proc.EBin{Op: "+", L: proc.EVar{Name: "match"}, R: proc.EVar{Name: "matchLength"}}})
		}
		tr := &c05Transform{name: fmt.Sprintf("t%d", k+1), stmts: ss}
		tr.src = "set " + tr.name + " to transform " + proc.RenderStmts(ss, rng.Bool()) + " end\n"
		trSrc += tr.src
		cs.trs[tr.name] = tr
	}
	nw := 1 + rng.Intn(5)
	for k := 0; k < nw; k++ {
		switch rng.Intn(7) {
		case 0:
			cs.with = append(cs.with, gen.WithItem{Kind: "str", S: []string{"", "X", "<>", "a\nb", "-", "'", "%", "%d=%s", "100%%", "\\", "\"q\"", "$1 \\0"}[rng.Intn(12)], Caseless: rng.Chance(1, 5)})
		case 1, 2:
			cs.with = append(cs.with, gen.WithItem{Kind: "var", S: caps[rng.Intn(len(caps))]})
		case 3:
			cs.with = append(cs.with, gen.WithItem{Kind: "var", S: gen.BuiltinWith[rng.Intn(len(gen.BuiltinWith))]})
		case 4:
			// undefined names, also ones that differ from a capture or a built-in only in letter case
			und := []string{"nothingNamedThis", strings.ToUpper(caps[rng.Intn(len(caps))]), "VALUE", "matchnumber", "Filename"}[rng.Intn(5)]
			isCap := false
			for _, cn := range caps {
				if cn == und {
					isCap = true
				}
			}
			if isCap {
				und = "nothingNamedThis"
			}
			cs.with = append(cs.with, gen.WithItem{Kind: "var", S: und})
		case 5:
			if len(loops) > 0 {
				cs.with = append(cs.with, gen.WithItem{Kind: "var", S: loops[rng.Intn(len(loops))]})
			} else {
				cs.with = append(cs.with, gen.WithItem{Kind: "str", S: "|"})
			}
		case 6:
			if ntr > 0 {
				cs.with = append(cs.with, gen.WithItem{Kind: "var", S: fmt.Sprintf("t%d", 1+rng.Intn(ntr))})
			} else {
				cs.with = append(cs.with, gen.WithItem{Kind: "var", S: "value"})
			}
		}
	}
	// every transform is used, some of them twice
	for name := range cs.trs {
		cs.with = append(cs.with, gen.WithItem{Kind: "var", S: name})
		if rng.Bool() {
			cs.with = append(cs.with, gen.WithItem{Kind: "str", S: "/"}, gen.WithItem{Kind: "var", S: name})
		}
	}
	if rng.Chance(1, 3) {
		// the same amount clause on both commands: built-ins such as matchNumber must stay those of the match
		c.Amount = gen.RandomAmount(rng)
	}
	cs.find = gen.RenderProgram(p)
	rp := *p
	rc := *c
	rc.Replace = true
	rc.With = cs.with
	rp.Commands = []gen.Command{rc}
	cs.repl = trSrc + gen.RenderProgram(&rp)
	ta := append(TextAlphaFor(sc.Alpha), '%', '%', '\\', '$')
	sm := gen.NewSampler(rng, p, ta)
	base := sm.Inputs(c.Body, 6, maxLenFor(p, 10))
	cs.texts = base
	if len(base) >= 2 {
		j := append(append(append([]byte{}, base[0]...), ' '), base[1]...)
		cs.texts = append(cs.texts, j)
		k := append(append(append([]byte{}, base[1]...), '\n'), base[0]...)
		cs.texts = append(cs.texts, k)
	}
	return cs
}

// expectedReplacement computes the concatenation the property states from the find-run's match.
func (cs *c05Case) expectedReplacement(m *wire.Match, total int) (string, bool) {
	out := ""
	vars := flatVars(m.Vars)
	for _, w := range cs.with {
		if w.Kind == "str" {
			out += w.S
			continue
		}
		if tr, ok := cs.trs[w.S]; ok {
			env := proc.Env{"match": proc.Str(string(m.Val)), "matchLength": proc.Num(len(m.Val)), "matchNumber": proc.Num(m.Num),
				"value": proc.Str(string(m.Val)), "startOffset": proc.Str(strconv.Itoa(m.S)), "endOffset": proc.Str(strconv.Itoa(m.E)), "lineNumber": proc.Str(strconv.Itoa(m.L1)),
				"columnNumber": proc.Str(strconv.Itoa(m.C1)), "totalMatches": proc.Str(strconv.Itoa(total)), "filename": proc.Str(m.File)}
			for k, v := range vars {
				if v != "<map>" {
					env[k] = proc.Str(v)
				}
			}
			in := &proc.Interp{Env: env}
			v := in.Run(tr.stmts)
			if in.Undef || in.Spin {
				return "", false
			}
			out += v.AsString()
			continue
		}
		switch w.S {
		case "value":
			out += string(m.Val)
		case "matchNumber":
			out += strconv.Itoa(m.Num)
		case "startOffset":
			out += strconv.Itoa(m.S)
		case "endOffset":
			out += strconv.Itoa(m.E)
		case "lineNumber":
			out += strconv.Itoa(m.L1)
		case "columnNumber":
			out += strconv.Itoa(m.C1)
		case "totalMatches":
			out += strconv.Itoa(total)
		case "filename":
			out += m.File
		default:
			if v, ok := vars[w.S]; ok && v != "<map>" {
				out += v
			}
			// names bound to a named-loop map, or to nothing, contribute nothing
		}
	}
	return out, true
}

func C05(r *drv.Run) {
	r.BuildWorker()
	n := 3000
	if !quick(r) {
		n = 80000
	}
	r.Rule = "replace commands whose `with` list mixes literal strings, captures whose value differs per match, every built-in (value, matchNumber, startOffset, endOffset, lineNumber, columnNumber, totalMatches, filename), undefined names, named-loop (map valued) names and 0..2 generated transforms reading match, matchLength, captures and the match's built-ins; texts derived from the body with >= 2 matches where possible; a third of the cases under an amount clause (skip / take / top / last); one case in 25 is wide: 9..101 single-letter captures in a row, a with-list of 9..300 items (captures, strings, built-ins, undefined names, transforms), 0..33 transforms each reading one capture, counts drawn from both sides of 10, 16, 32, 64, 100, 128, 256. Also three fixed programs through RunFiles (modes NOTHING and NEW) on files named with doubled separators, /./, sub/../ and through directory arguments with and without trailing slash: the built-in filename, as a with-item and inside a transform, is the Filename of the same match. Also 30 sources in which one transform name is set again between three replace commands (bodies of one to four statements in every order): each command uses the definition in force where it stands. Also two transforms whose loop runs as often as the match says, 3 .. 2 000 003 times (counts on both sides of 65 536, 1 000 000 and 2^20). Also five bodies that capture the same text under different names depending on where it stands, with-lists of strings and captures only, under every amount clause: adjacent matches of equal text carry different replacements. Also 30 programs whose body names a capture `match` or `matchLength` (first, last, inside a loop, in one alternative only, inside an outer capture) and whose transform reads match and matchLength: the transform sees the whole matched text and its length, not the capture. Also control flow, exhaustively for small shapes: one counting loop whose body leaves a letter in a trace at every position around one continue / break / return that sits one to three `if` levels deep, in the then- or else-branch of each level, under three conditions, with and without statements behind the inner `if` (quick: all of depth 1 and 2, a third of depth 3; thorough: all 5 652): the replacement is the trace. Oracle: (a) the replace run equals the find run of the same body in every field but Replacement; (b) each Replacement equals the concatenation computed from the find-run's match by the harness (transforms through the process-language reference interpreter). Non-trivial = a match whose expected replacement is non-empty and that carries >= 1 variable; distinct by (program, text)."
	r.Assumptions = []string{
		"an absent Replacement and the empty string are the same replacement (a `with` list that names nothing)",
		"transforms whose evaluation divides by zero are not judged (known finding K1); matchNumber is not used inside transforms",
	}
	r.Exec(n, drv.ExecOpts{Batch: 100}, func(i int) *drv.Item {
		cs := c05Gen(r.Seed, i)
		c := wire.Case{Op: "astcmp", Srcs: [][]byte{[]byte(cs.find), []byte(cs.repl)}, Texts: cs.texts, StepBudget: 300000}
		return &drv.Item{Case: c, Check: func(res *wire.Result) {
			if crashOrGuard(r, res, &c, cs.repl, false) {
				return
			}
			if len(res.Compiles) != 2 || len(res.Runs) != 2*len(cs.texts) {
				r.Inconclusive("short result")
				return
			}
			for k := 0; k < 2; k++ {
				if res.Compiles[k].Panic != nil {
					p := res.Compiles[k].Panic
					r.Violate(&drv.Violation{Sig: "compile-panic:" + p.Frame, Panic: p.Msg, Frame: p.Frame, Src: string(c.Srcs[k]), Case: &c})
					return
				}
				if !res.Compiles[k].OK {
					r.Inconclusive("generated program rejected by Compile: " + res.Compiles[k].Err + " | " + string(c.Srcs[k]))
					return
				}
			}
			for ti, text := range cs.texts {
				f := &res.Runs[ti]
				g := &res.Runs[len(cs.texts)+ti]
				r.Eval(1)
				r.Count("runs_total", 1)
				if f.Budget != "" || g.Budget != "" {
					r.Count("skipped_expensive", 1)
					continue
				}
				if f.Panic != nil {
					r.Violate(&drv.Violation{Sig: "run-panic:" + f.Panic.Frame, Panic: f.Panic.Msg, Frame: f.Panic.Frame, Src: cs.find, Text: string(text), Case: &c})
					continue
				}
				// expected replacements first: undefined cells are not judged
				exp := make([]string, len(f.Matches))
				judged := true
				for k := range f.Matches {
					s, ok := cs.expectedReplacement(&f.Matches[k], len(f.Matches))
					if !ok {
						judged = false
						break
					}
					exp[k] = s
				}
				if !judged {
					r.Count("not_judged_division_by_zero", 1)
					continue
				}
				if g.Panic != nil {
					r.Violate(&drv.Violation{Sig: "run-panic:" + g.Panic.Frame, Panic: g.Panic.Msg, Frame: g.Panic.Frame, Src: cs.repl, Text: string(text), Case: &c})
					continue
				}
				if len(g.Matches) != len(f.Matches) {
					r.Violate(&drv.Violation{Sig: "replace-finds-different-matches", Src: cs.repl, Text: string(text), Case: &c,
						Detail: map[string]any{"find": fmtGotN(f.Matches), "replace": fmtGotN(g.Matches)}})
					continue
				}
				for k := range f.Matches {
					a, b := f.Matches[k], g.Matches[k]
					got := string(b.Repl)
					b.HasRepl, b.Repl = false, nil
					if matchesJSON([]wire.Match{a}) != matchesJSON([]wire.Match{b}) {
						r.Violate(&drv.Violation{Sig: "replace-match-differs-from-find-match", Src: cs.repl, Text: string(text), Case: &c,
							Detail: map[string]any{"find": matchesJSON([]wire.Match{a}), "replace": matchesJSON([]wire.Match{b})}})
						break
					}
					if got != exp[k] {
						r.Violate(&drv.Violation{Sig: "replacement-differs", Src: cs.repl, Text: string(text), Case: &c,
							Detail: map[string]any{"match": fmt.Sprintf("#%d [%d,%d) %q vars %s", a.Num, a.S, a.E, a.Val, fmtVars(flatVars(a.Vars))), "expected": exp[k], "observed": got}})
						break
					}
					r.Count("replacements_checked", 1)
					if exp[k] != "" && a.Vars != nil && len(a.Vars.Map) > 0 {
						r.Nontrivial(fmt.Sprintf("%s\x00%s", cs.repl, text))
					}
					if k > 0 && exp[k] != exp[0] {
						r.Count("replacement_differs_between_matches", 1)
					}
				}
			}
			if len(cs.trs) > 0 {
				r.Count("programs_with_transforms", 1)
			}
			if len(cs.with) >= 100 {
				r.Count("with_lists_of_100_or_more_items", 1)
			}
			if i%101 == 0 {
				r.Sample(map[string]any{"program": cs.repl, "text": string(cs.texts[len(cs.texts)-1])})
			}
		}}
	})
	c05Files(r)
	c05Redefine(r)
	c05Loops(r)
	c05Flow(r)
	c05Shadow(r)
	c04CaptureLists(r) // with-lists of strings and captures only: the replacement of a match is made of ITS captures
	if r.NViolations() == 0 {
		expensiveFloor(r)
		if r.Counter("file_replacements_checked_under_unusual_spellings") == 0 {
			r.Inconclusive("coverage floor: file_replacements_checked_under_unusual_spellings = 0")
		}
		for _, k := range []string{"replacements_checked", "replacement_differs_between_matches", "programs_with_transforms", "with_lists_of_100_or_more_items"} {
			if r.Counter(k) == 0 {
				r.Inconclusive("coverage floor: " + k + " = 0")
			}
		}
	}
}

// c05Files: the built-in filename (as a with-item and inside a transform) is the Filename of the same match, however
// the searched path was spelled in the call: doubled separators, /./, sub/../, a directory argument with and without
// trailing slash, a relative name.
func c05Files(r *drv.Run) {
	dir := filepath.Join(r.WorkDir, "c05files")
	os.MkdirAll(filepath.Join(dir, "sub"), 0o755)
	content := []byte("ab 12\ncd 7 e\n")
	for _, n := range []string{"plain.txt", "sub/inner.txt", "sub/b.txt"} {
		os.WriteFile(filepath.Join(dir, n), content, 0o644)
	}
	spellings := [][]string{
		{dir + "/plain.txt"}, {dir + "//plain.txt"}, {dir + "/./plain.txt"}, {dir + "/sub/../plain.txt"}, {dir + "/sub//inner.txt", dir + "/plain.txt"},
		{dir + "/sub/"}, {dir + "/sub"}, {dir + "/./sub/", dir + "//plain.txt"}, {dir + "/sub/./b.txt"}, {dir + "/sub/../sub/inner.txt"},
	}
	progs := []struct {
		src string
		exp func(m *wire.Match) string
	}{
		{"replace all (letter = c) with filename ':' c", func(m *wire.Match) string { return m.File + ":" + flatVars(m.Vars)["c"] }},
		{"set t1 to transform return filename + '#' + match end\nreplace all at least 1 digit with t1 '@' filename '@' t1",
			func(m *wire.Match) string {
				return m.File + "#" + string(m.Val) + "@" + m.File + "@" + m.File + "#" + string(m.Val)
			}},
		{"replace all 'cd' with startOffset filename lineNumber", func(m *wire.Match) string { return strconv.Itoa(m.S) + m.File + strconv.Itoa(m.L1) }},
	}
	type job struct {
		p     int
		files []string
		mode  string
	}
	var jobs []job
	for p := range progs {
		for si, sp := range spellings {
			mode := []string{"NOTHING", "NEW"}[(p+si)%2]
			if strings.HasSuffix(sp[0], "sub") || strings.HasSuffix(sp[0], "sub/") {
				mode = "NOTHING" // (NEW would leave outputs inside the directory that the next call searches too)
			}
			jobs = append(jobs, job{p, sp, mode})
		}
	}
	r.Exec(len(jobs), drv.ExecOpts{Batch: 6}, func(i int) *drv.Item {
		jb := jobs[i]
		c := wire.Case{Op: "runfiles", Src: []byte(progs[jb.p].src), Files: jb.files, Mode: jb.mode, StepBudget: 2_000_000}
		return &drv.Item{Case: c, Check: func(res *wire.Result) {
			if crashOrGuard(r, res, &c, progs[jb.p].src, false) {
				return
			}
			if res.Compile == nil || !res.Compile.OK || len(res.Runs) < 1 {
				r.Inconclusive("fixed program rejected: " + progs[jb.p].src)
				return
			}
			run := &res.Runs[0]
			if run.Panic != nil {
				r.Violate(&drv.Violation{Sig: "run-panic:" + run.Panic.Frame, Panic: run.Panic.Msg, Frame: run.Panic.Frame, Src: progs[jb.p].src, Case: &c})
				return
			}
			if len(run.Matches) == 0 {
				r.Violate(&drv.Violation{Sig: "files:no-matches", Src: progs[jb.p].src, Case: &c, Detail: map[string]any{"files": jb.files}})
				return
			}
			for k := range run.Matches {
				m := &run.Matches[k]
				r.Eval(1)
				if want := progs[jb.p].exp(m); string(m.Repl) != want {
					r.Violate(&drv.Violation{Sig: "files:replacement-differs", Src: progs[jb.p].src, Case: &c,
						Detail: map[string]any{"files": jb.files, "match": fmt.Sprintf("#%d [%d,%d) %q in %q", m.Num, m.S, m.E, m.Val, m.File), "expected": want, "observed": string(m.Repl)}})
					return
				}
				r.Count("file_replacements_checked_under_unusual_spellings", 1)
			}
		}}
	})
	os.RemoveAll(dir)
}
