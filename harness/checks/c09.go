package checks

import (
	"fmt"
	"os"
	"path/filepath"
	"strings"

	"verifharness/drv"
	"verifharness/gen"
	"verifharness/proc"
	"verifharness/wire"
)

func init() { Registry["C09"] = C09 }

var hostileTexts = [][]byte{
	{}, []byte("a"), []byte("\n"), []byte("\r\n"), []byte("ab"), []byte("a\r\nb"), []byte("\xc3\xa9"), []byte("\xff"),
	[]byte("0"), []byte("12"), []byte("a1 b22\n"), []byte("aaaa"), []byte(" "), []byte("_a_"), []byte("Hello, Lilith"),
	[]byte("x13 x12"), []byte("aabbd"), []byte("xa"), []byte("xab"), []byte("ba"), []byte("a\x00b"), []byte("\x00"), []byte("(a(b))"), []byte("'q'"), []byte("a,b,c\n1,2,3"),
}

// c09ProcProgram: a terminating transform or predicate applied to arbitrary match text.
func c09ProcProgram(rng *gen.Rng, i int) string {
	s, _ := c09ProcProgram2(rng, i)
	return s
}

// c09ProcProgram2 also says whether the program may legitimately be rejected (it holds a statement that need not be
// well typed: whatever Compile lets through must run).
func c09ProcProgram2(rng *gen.Rng, i int) (string, bool) {
	transform := (i/4)%2 == 0 // i is always 3 mod 4 here
	pg := newProcGen(rng)
	ss := pg.withInits(pg.stmtList(2, 1+rng.Intn(3), transform, false, true))
	if transform && rng.Chance(1, 2) {
		// matchNumber: the checker knows it as an (undeclared) string, the evaluator binds a number; every
		// operation the checker lets through on it must still be total
		mn := proc.EVar{Name: "matchNumber"}
		uses := []proc.Expr{
			proc.EUn{Op: "head", X: mn}, proc.EUn{Op: "tail", X: mn}, proc.EBin{Op: "+", L: mn, R: proc.EStr{V: "a"}},
			proc.EBin{Op: "-", L: mn, R: proc.ENum{V: 1}}, proc.EBin{Op: "%", L: mn, R: proc.ENum{V: 2}},
			proc.EUn{Op: "tail", X: proc.EBin{Op: "+", L: mn, R: proc.ENum{V: 9}}}, proc.EBin{Op: "+", L: proc.EStr{V: "#"}, R: mn},
		}
		e := uses[rng.Intn(len(uses))]
		if rng.Bool() {
			ss = append([]proc.Stmt{proc.SSet{Name: "mn1", X: e}, proc.SDebug{X: proc.EVar{Name: "mn1"}}}, ss...)
		} else {
			ss = append([]proc.Stmt{proc.SIf{Cond: proc.EBin{Op: "<", L: mn, R: proc.ENum{V: 2}}, Then: []proc.Stmt{proc.SReturn{X: e}}}}, ss...)
		}
	}
	// arithmetic on the match text itself: numeric, non-numeric and empty captures all occur
	if rng.Chance(1, 3) {
		ops := []string{"/", "%", "*", "-"}
		e := proc.EBin{Op: ops[rng.Intn(4)], L: proc.ENum{V: 10}, R: proc.EVar{Name: []string{"match", "cap", "matchLength"}[rng.Intn(3)]}}
		if rng.Chance(1, 3) {
			// the built-in number on the LEFT of an arithmetic operator whose right operand is text
			e = proc.EBin{Op: ops[rng.Intn(4)], L: proc.EVar{Name: "matchLength"}, R: []proc.Expr{proc.EVar{Name: "match"}, proc.EStr{V: "b"}, proc.EVar{Name: "cap"}, proc.EStr{V: "3"}}[rng.Intn(4)]}
		}
		if transform {
			ss = append(ss, proc.SReturn{X: e})
		} else {
			ss = append(ss, proc.SReturn{X: proc.EBin{Op: ">=", L: e, R: proc.ENum{V: 0}}})
		}
	}
	mayReject := false
	if transform && rng.Chance(1, 3) {
		// every built-in of the replacer under every operator, against another built-in, the match, a capture, a text
		// and a number, in both orders: whatever the checker makes of their types, what it lets through must run
		bis := []string{"startOffset", "endOffset", "lineNumber", "columnNumber", "totalMatches", "filename", "value", "matchNumber", "matchLength", "match"}
		bi := proc.EVar{Name: bis[rng.Intn(len(bis))]}
		others := []proc.Expr{proc.EVar{Name: bis[rng.Intn(len(bis))]}, proc.EVar{Name: "match"}, proc.EVar{Name: "cap"}, proc.EStr{V: "b"}, proc.EStr{V: "3"}, proc.ENum{V: 3}, proc.EBool{V: true}}
		e := proc.Expr(proc.EBin{Op: binOps[rng.Intn(len(binOps))], L: bi, R: others[rng.Intn(len(others))]})
		if rng.Bool() {
			e = proc.EBin{Op: binOps[rng.Intn(len(binOps))], L: others[rng.Intn(len(others))], R: bi}
		}
		if rng.Chance(1, 4) {
			e = proc.EUn{Op: unOps[rng.Intn(3)], X: bi}
		}
		ss = append([]proc.Stmt{proc.SSet{Name: "bi1", X: e}, proc.SDebug{X: proc.EBin{Op: "+", L: proc.EStr{V: ""}, R: proc.EVar{Name: "bi1"}}}}, ss...)
		mayReject = true
	}
	if rng.Chance(1, 4) {
		// a debug statement over an arbitrary (often ill-typed) expression: rejected at compile time or harmless at run time
		ss = append([]proc.Stmt{proc.SDebug{X: pg.anyExpr(2)}}, ss...)
		mayReject = true
	}
	body := proc.RenderStmts(ss, rng.Bool())
	pats := []string{"at least 1 digit", "(maybe digit) = cap letter", "any", "at least 0 'a' 'b'", "whole word", "(at most 2 digit) = cap ','"}
	pat := pats[rng.Intn(len(pats))]
	if transform && rng.Chance(1, 3) {
		// captures that carry the names of built-ins of the process language: inside a transform the built-in is meant
		pat = []string{"(maybe digit) = matchLength letter", "(at most 2 digit) = match ','", "(letter = matchLength) maybe (digit = match)", "(any = matchNumber) maybe (any = matchLength)"}[rng.Intn(4)]
	}
	if transform {
		with := "f '|' value"
		extra := ""
		if rng.Chance(1, 2) {
			// a second transform in the same replacement that READS a name the first one assigns and never
			// assigns it itself (there it is an unassigned name, i.e. a string), and the first one called twice
			pool := append(append(append([]string{}, pg.strVar...), pg.numVar...), pg.boolVar...)
			if len(pool) > 0 {
				nm := pool[rng.Intn(len(pool))]
				bodies := []string{"return " + nm + " + 'x'", "if " + nm + " == '' then return 'e' end return " + nm, "return head " + nm + " + tail " + nm, "return " + nm + " + 1"}
				extra = "set fb to transform " + bodies[rng.Intn(len(bodies))] + " end\n"
				with = []string{"f fb '|' value", "f f fb", "fb f fb f"}[rng.Intn(3)]
			} else {
				with = "f f '|' value"
			}
		}
		return "set f to transform " + body + " end\n" + extra + "replace all " + pat + " with " + with, mayReject
	}
	return "set p to pattern " + pat + " begin " + body + " end\nfind all p", mayReject
}

func C09(r *drv.Run) {
	r.BuildWorker()
	nprog, ntext := 8000, 10
	if !quick(r) {
		nprog, ntext = 250000, 12
	}
	r.Rule = "caseless literals (27 of them, in eight kinds of command) on texts holding the characters whose case mapping changes their UTF-8 length or has no partner of equal length (U+0130, U+0131, U+212A, U+212B, U+017F, U+1E9E, sharp s, ligatures, final sigma ...): every run returns; replace commands through RunFiles in the modes that write (NEW, OVERWRITE) and NOTHING: ten fixed commands whose replacement comes to nothing for all or some matches (a name defined nowhere, an unbound optional capture, a named loop, empty strings, a transform returning the empty string) and generated replace commands with mixed with-lists, on files holding their own sampled texts; numbers of 10..31 digits in twenty places (the sources C08 compiles) and skip/take pairs whose sum leaves the 64-bit range, RUN on the hostile texts; RunFiles processing file NAMES (its third argument) with eleven find/replace programs over eleven hostile names, listed and as a directory argument, in every mode (one two-command program re-observes known finding K5); five programs that reach debug statements (in transforms, predicates, loops, both branches of an if) while the standard output of the process is /dev/full (every write fails); RunFiles over 300..700 files in one call (listed and as a directory argument, an empty file and a sub-directory among them, one and three commands, every mode) and 600 calls in one process, while the process may hold 256 file descriptors at a time; every backslash escape of the regex sub-language (all 93 printable characters after the backslash) in eleven kinds of place, run when accepted; accepted programs from every generator (core, regex, named loops, whole-*, amount clauses, replace), the hand corpus and repository examples, one-token mutants of those that still compile (empty bodies, exactly 0, odd-but-legal shapes) and terminating transforms/predicates doing arithmetic on the match text; inputs: empty, program-derived matches and every kind of prefix/edit (input ends inside every construct), bytes >= 0x80, \\r\\n, fixed hostile texts; plus RunFiles on empty and tiny files; plus linear-time find/replace programs (literals, classes, amount clauses, a transform building a 5 000-byte replacement) over inputs of 4 097 .. 140 000 bytes with no, one or several far-apart matches, through Run and through RunFiles in every mode; plus RunFiles on directory arguments (it searches the files inside) with legal but unusual names - ending in a backslash, with blanks, named like a file, given with and without a trailing slash, empty, holding a sub-directory. Monitor: panic / fatal error / CPU or heap guard in Run or RunFiles. Non-trivial = the run executed >= 1 VM instruction on a non-empty input or ran on the empty input; distinct by (program, input)."
	r.Assumptions = []string{
		"scope as stated: process code terminates (generated loops carry an incrementing counter), subroutines consume before recursing",
		"a case exceeding the VM step budget is skipped (termination is C10's claim); a CPU/heap guard trip outside the VM is a violation",
		"known finding K1: integer division or modulo by zero in process code panics",
	}
	filesDir := filepath.Join(r.WorkDir, "files")
	os.MkdirAll(filesDir, 0o755)
	tiny := [][]byte{{}, []byte("a"), []byte("ab\n"), []byte("12 a\r\n"), []byte("\xc3")}
	var tinyPaths []string
	for i, b := range tiny {
		p := filepath.Join(filesDir, fmt.Sprintf("t%d.txt", i))
		os.WriteFile(p, b, 0o644)
		tinyPaths = append(tinyPaths, p)
	}
	// base programs for mutation
	bases := append([]string{}, gen.Corpus...)
	bases = append(bases, gen.ExampleFiles(drv.RepoRoot)...)
	var mutants []string
	for _, b := range bases {
		mutants = append(mutants, b)
		toks := gen.Significant(gen.Tokenize(b))
		if len(toks) > 70 {
			continue
		}
		// out of the property's scope once mutated: recursion that may stop consuming first,
		// process loops that may lose their exit
		if strings.Contains(b, "{") || strings.Contains(b, "loop") {
			continue
		}
		for k := range toks {
			del := append(append([]gen.Tok{}, toks[:k]...), toks[k+1:]...)
			mutants = append(mutants, gen.JoinWith(del, " "))
			if toks[k].Kind == "number" {
				z := append([]gen.Tok{}, toks...)
				z[k] = gen.Tok{Kind: "number", Text: "0"}
				mutants = append(mutants, gen.JoinWith(z, " "))
			}
			if toks[k].Kind == "string" {
				z := append([]gen.Tok{}, toks...)
				z[k] = gen.Tok{Kind: "string", Text: "''"}
				mutants = append(mutants, gen.JoinWith(z, " "))
			}
		}
	}
	// several commands over the same files, and the same file listed twice: whatever a command leaves
	// behind (a closed reader, a rewritten file) must not trip the next one
	multiCmd := []string{
		"replace all 'a' with 'b'\nfind all 'b'",
		"replace all digit with '#'\nreplace all '#' with '9'\nfind all '9'",
		"find all 'a'\nreplace all 'a' with 'aa'\nfind all 'aa'",
		"set f to transform return matchLength end\nreplace all at least 1 letter with f\nfind all digit\nreplace all digit with f",
	}
	r.Count("mutant_sources", len(mutants))
	// legal but odd: the empty string in every place a string may stand (literal, caseless, not, list item,
	// either bound of a range, capture body, loop body, alternative, `with` item), reached at every position
	// including the end of the input because a consuming element precedes it
	empties := []string{"''", "\"\"", "caseless ''", "not ''", "in ''", "in '', 'a'", "in '' to 'b'", "in 'a' to ''", "in '' to ''", "not in ''", "not in '' to 'b'",
		"('' = e) e", "(maybe '') = e e", "at least 0 ''", "at least 1 '' fewest", "exactly 2 ''", "'' or 'a'", "'a' or ''", "{''} = s s", "maybe (in '' to 'b')"}
	for _, e := range empties {
		mutants = append(mutants,
			"find all "+e, "find all 'a' "+e, "find all "+e+" 'a'", "find all 'a' ("+e+") 'b'", "find all at least 0 ("+e+")", "find all maybe ("+e+") 'a'",
			"find all any "+e+" file end", "replace all 'a' "+e+" with '' value ''", "find skip 1 'a' "+e)
	}
	// every backslash escape of the regex sub-language, documented or not, in every kind of place (alone, between
	// literals, in a quantified group, in a bracket class, quantified, doubled, as an alternative, between anchors):
	// whatever Compile accepts must run
	for c := 0x21; c < 0x7f; c++ {
		if c == '/' {
			continue
		}
		e := "\\" + string(rune(c))
		for _, shape := range []string{"a%sb", "%s", "(%s)+x", "[%s]", "a%s*", "%s%s", "x|%s", "^%s$", "a%s", "%sa", "(?<n>%s)\\k<n>"} {
			mutants = append(mutants, "find all @/"+strings.ReplaceAll(shape, "%s", e)+"/")
		}
	}
	// numbers far beyond any text in every place that takes a number without materialising it (the sources C08 compiles):
	// they run, too - on texts that can never satisfy them
	c08Counts(func(family, src string) {
		if src != c08HugeMinimum {
			mutants = append(mutants, src)
		}
	})
	// amounts whose SUM leaves the 64-bit range although each one is legal
	for _, pair := range [][2]string{{"1", "9223372036854775807"}, {"9223372036854775807", "1"}, {"9223372036854775807", "9223372036854775807"}, {"4611686018427387904", "4611686018427387904"}, {"2147483647", "9223372036854775807"}} {
		mutants = append(mutants, "find skip "+pair[0]+" take "+pair[1]+" 'a'", "replace skip "+pair[0]+" take "+pair[1]+" any with 'x'", "find skip "+pair[0]+" take "+pair[1]+" at least 0 'a'")
	}
	// two fixed programs re-observe the recorded findings K1 and K3 on every run
	mutants = append(mutants,
		"set f to transform return 10 / match end\nreplace all digit with f",
		"set f to transform if match == 'x' then set n to 1 end return n - '1' end\nreplace all 'a' with f")
	total := nprog + len(mutants)
	c09Long(r, filesDir)
	c09Dirs(r, filesDir)
	c09Many(r, filesDir)
	c09Modes(r, filesDir)
	c09Fold(r)
	c09Stdout(r)
	c09Filenames(r, filesDir)
	r.Exec(total, drv.ExecOpts{Batch: 200}, func(i int) *drv.Item {
		rng := gen.Derive(r.Seed, "C09", i)
		var src string
		var texts [][]byte
		generated := false
		switch {
		case i >= nprog:
			src = mutants[i-nprog]
			texts = hostileTexts
		case i%4 == 3:
			var mayReject bool
			src, mayReject = c09ProcProgram2(rng, i)
			texts = [][]byte{{}, []byte("0"), []byte("12"), []byte("a"), []byte("7a"), []byte("ab 3,"), []byte("10 0 5"), []byte(",a,"), []byte("\xc3")}
			generated = !mayReject
		default:
			p := gen.AnyProgram(rng, i)
			src = gen.RenderProgram(p)
			sm := gen.NewSampler(rng, p, []byte("abc\n 1A_\r\xc3"))
			texts = sm.Inputs(p.Commands[0].Body, ntext-2, maxLenFor(p, 14))
			texts = append(texts, []byte{}, []byte("\xff"))
			generated = true
		}
		c := wire.Case{Op: "run", Src: []byte(src), Texts: texts, StepBudget: 400000}
		if i%7 == 0 {
			c = wire.Case{Op: "runfiles", Src: []byte(src), Files: tinyPaths, Mode: "NOTHING", StepBudget: 400000}
		}
		if i < 3*len(multiCmd)*2 {
			// multi-command programs through RunFiles in every mode, on private copies of the tiny files
			src = multiCmd[i%len(multiCmd)]
			mode := []string{"NOTHING", "NEW", "OVERWRITE"}[(i/len(multiCmd))%3]
			d := filepath.Join(filesDir, fmt.Sprintf("multi%d", i))
			os.MkdirAll(d, 0o755)
			var paths []string
			for k, b := range tiny {
				p := filepath.Join(d, fmt.Sprintf("t%d.txt", k))
				os.WriteFile(p, b, 0o644)
				paths = append(paths, p)
			}
			if i >= 3*len(multiCmd) {
				paths = append(paths, paths[1], paths[2]) // the same files listed twice
			}
			generated = false
			c = wire.Case{Op: "runfiles", Src: []byte(src), Files: paths, Mode: mode, StepBudget: 400000}
		}
		return &drv.Item{Case: c, Check: func(res *wire.Result) {
			if res.Died {
				r.Eval(1)
				if res.Guard == "wall" {
					r.Inconclusive("wall-clock watchdog fired")
					return
				}
				sig := "worker-died:" + classifyFatal(res.Stderr)
				if res.Guard != "" {
					sig = "guard-" + res.Guard
				}
				r.Violate(&drv.Violation{Sig: sig, Panic: firstLines(res.Stderr, 2), Src: src, Case: &c, Detail: map[string]any{"stderr": firstLines(res.Stderr, 12)}})
				return
			}
			if res.Panic != nil {
				r.Violate(&drv.Violation{Sig: "panic:" + res.Panic.Frame, Panic: res.Panic.Msg, Frame: res.Panic.Frame, Src: src, Case: &c})
				return
			}
			cr := res.Compile
			if cr == nil || !cr.OK {
				if cr != nil && cr.Panic != nil {
					r.Count("compile_panics_seen_(C08's_business)", 1)
				}
				if generated && cr != nil && cr.Panic == nil && cr.Budget == "" {
					r.Inconclusive("generated program rejected by Compile: " + cr.Err + " | " + src)
				}
				r.Count("sources_not_accepted", 1)
				return
			}
			r.Count("accepted_programs", 1)
			for ti := range res.Runs {
				run := &res.Runs[ti]
				r.Eval(1)
				r.Count("runs_total", 1)
				var text []byte
				if c.Op == "run" && ti < len(texts) {
					text = texts[ti]
				}
				if run.Panic != nil {
					r.Violate(&drv.Violation{Sig: "run-panic:" + run.Panic.Frame, Panic: run.Panic.Msg, Frame: run.Panic.Frame, Src: src, Text: string(text), Case: &c})
					continue
				}
				if run.Budget != "" {
					r.Count("skipped_expensive", 1)
					continue
				}
				if c.Op == "runfiles" {
					r.Count("runfiles_calls", 1)
				}
				if run.Steps > 0 || len(text) == 0 {
					r.Nontrivial(src + "\x00" + string(text) + c.Op)
				}
				if len(text) == 0 {
					r.Count("runs_on_empty_input", 1)
				}
				r.Max("steps", run.Steps)
			}
			if i%401 == 0 && len(texts) > 0 {
				r.Sample(map[string]any{"program": src, "text": string(texts[len(texts)/2]), "op": c.Op})
			}
		}}
	})
	if r.NViolations() == 0 {
		expensiveFloor(r)
		if r.Counter("long_input_runs") == 0 {
			r.Inconclusive("coverage floor: no run on a long input")
		}
		if r.Counter("runfiles_calls") == 0 || r.Counter("runs_on_empty_input") == 0 {
			r.Inconclusive("coverage floor: runfiles/empty-input runs missing")
		}
	}
}

// c09Long: inputs far longer than any buffer in the library (4096-byte reader window and lexer buffer, the
// in-memory output stream of replace commands), with unmatched stretches and single writes beyond those sizes.
func c09Long(r *drv.Run, filesDir string) {
	progs := []string{
		"replace all 'x' with 'y'", "replace all 'x' with ''", "replace all 'x' with value value '<' matchNumber '>' value",
		"find all 'x'", "replace top 1 'x' with 'y'", "replace last 1 'x' with 'yy'", "replace skip 1 take 1 'x' with ''",
		"replace all 'x' digit with 'D'", "replace all in 'x', 'X' with '-'", "replace all 'zq' with 'never'",
		"set f to transform set s to '' set i to 0 loop if i >= 500 then break end set s to s + 'abcdefghij' set i to i + 1 end return s end\nreplace all 'x' with f",
		"replace all 'x' with 'y'\nreplace all 'x' with 'zz'\nfind all 'x'",
		"replace all between 1 and 300 'a' with 'A'",
	}
	sizes := []int{4097, 5000, 8193, 20000, 70000, 140000}
	if quick(r) {
		sizes = []int{4097, 8193, 20000, 70000}
	}
	filler := []byte("a b\nc1 ")
	var texts [][]byte
	for si, n := range sizes {
		rng := gen.Derive(r.Seed, "C09long", si)
		mk := func(plant []int) []byte {
			b := make([]byte, n)
			for i := range b {
				b[i] = filler[rng.Intn(len(filler))]
			}
			for _, p := range plant {
				if p >= 0 && p < n {
					b[p] = 'x'
				}
			}
			return b
		}
		texts = append(texts, mk(nil), mk([]int{n / 2}), mk([]int{0, n - 1}), mk([]int{n - 1}), mk([]int{4096, 4097, n - 4097}), mk([]int{5, n/3 + 1, 2*n/3 + 7}))
	}
	var paths []string
	for k, b := range texts {
		p := filepath.Join(filesDir, fmt.Sprintf("long%d.txt", k))
		os.WriteFile(p, b, 0o644)
		paths = append(paths, p)
	}
	modes := []string{"", "NOTHING", "NEW", "OVERWRITE"}
	r.Exec(len(progs)*len(modes), drv.ExecOpts{Batch: 2}, func(i int) *drv.Item {
		src := progs[i%len(progs)]
		mode := modes[i/len(progs)]
		c := wire.Case{Op: "run", Src: []byte(src), Texts: texts, StepBudget: 50_000_000}
		if mode != "" {
			ps := paths
			if mode != "NOTHING" {
				// private copies: the run rewrites them
				d := filepath.Join(filesDir, fmt.Sprintf("long-%s-%d", mode, i))
				os.MkdirAll(d, 0o755)
				ps = nil
				for k, b := range texts {
					p := filepath.Join(d, fmt.Sprintf("l%d.txt", k))
					os.WriteFile(p, b, 0o644)
					ps = append(ps, p)
				}
			}
			c = wire.Case{Op: "runfiles", Src: []byte(src), Files: ps, Mode: mode, StepBudget: 50_000_000}
		}
		return &drv.Item{Case: c, Check: func(res *wire.Result) {
			if crashOrGuard(r, res, &c, src, false) {
				return
			}
			if res.Compile == nil || !res.Compile.OK {
				r.Inconclusive("fixed long-input program rejected: " + src)
				return
			}
			for ti := range res.Runs {
				run := &res.Runs[ti]
				r.Eval(1)
				if run.Panic != nil {
					d := map[string]any{"mode": mode}
					if c.Op == "run" && ti < len(texts) {
						d["text_length"] = len(texts[ti])
					}
					r.Violate(&drv.Violation{Sig: "run-panic:" + run.Panic.Frame, Panic: run.Panic.Msg, Frame: run.Panic.Frame, Src: src, Case: &c, Detail: d})
					continue
				}
				if run.Budget != "" {
					r.Count("skipped_expensive", 1)
					continue
				}
				r.Count("long_input_runs", 1)
				r.Nontrivial(fmt.Sprintf("long|%s|%s|%d", src, mode, ti))
			}
		}}
	})
}

// c09Dirs: RunFiles expands a directory argument to the files inside it. Directory names are as free as file names.
func c09Dirs(r *drv.Run, filesDir string) {
	root := filepath.Join(filesDir, "dirs")
	names := []string{"plain", "data\\", "with blank", "looks.txt", "caf\u00e9", "-dash", "a\\b"}
	for _, n := range names {
		d := filepath.Join(root, n)
		os.MkdirAll(d, 0o755)
		os.WriteFile(filepath.Join(d, "a.txt"), []byte("ab 12\n"), 0o644)
		os.WriteFile(filepath.Join(d, "b b.txt"), []byte("a\n"), 0o644)
	}
	os.MkdirAll(filepath.Join(root, "empty"), 0o755)
	os.MkdirAll(filepath.Join(root, "nested", "inner"), 0o755)
	os.WriteFile(filepath.Join(root, "nested", "top.txt"), []byte("ab\n"), 0o644)
	os.WriteFile(filepath.Join(root, "nested", "inner", "deep.txt"), []byte("ab\n"), 0o644)
	var args [][]string
	for _, n := range names {
		args = append(args, []string{root + "/" + n}, []string{root + "/" + n + "/"}, []string{root + "/" + n, root + "/plain/a.txt"})
	}
	args = append(args, []string{root + "/empty"}, []string{root + "/empty/", root + "/plain"}, []string{root + "/nested"}, []string{root + "/nested/"})
	progs := []string{"find all 'a'", "replace all 'a' with 'b'", "find all letter\nfind all digit"}
	r.Exec(len(args)*len(progs), drv.ExecOpts{Batch: 6}, func(i int) *drv.Item {
		src := progs[i%len(progs)]
		fl := args[i/len(progs)]
		c := wire.Case{Op: "runfiles", Src: []byte(src), Files: fl, Mode: "NOTHING", StepBudget: 400000}
		return &drv.Item{Case: c, Check: func(res *wire.Result) {
			r.Eval(1)
			if crashOrGuard(r, res, &c, src, false) {
				return
			}
			if res.Compile == nil || !res.Compile.OK || len(res.Runs) < 1 {
				r.Inconclusive("fixed program rejected: " + src)
				return
			}
			run := &res.Runs[0]
			if run.Panic != nil {
				r.Violate(&drv.Violation{Sig: "runfiles-on-directory-panic:" + run.Panic.Frame, Panic: run.Panic.Msg, Frame: run.Panic.Frame, Src: src, Case: &c, Detail: map[string]any{"arguments": fmt.Sprint(fl)}})
				return
			}
			r.Count("runfiles_directory_arguments", 1)
			r.Nontrivial("dir|" + src + "|" + fmt.Sprint(fl))
		}}
	})
}
