package checks

import (
	"fmt"
	"strings"

	"verifharness/drv"
	"verifharness/wire"
)

// c09Fold: caseless literals on texts holding the characters whose case mapping CHANGES THEIR LENGTH in UTF-8 or has
// no partner of the same length - U+0130 (capital I with dot, 2 bytes, lower i), U+0131 (dotless i), U+212A (Kelvin
// sign, 3 bytes, lower k), U+212B (Angstrom sign), U+017F (long s), U+1E9E (capital sharp s), U+00DF, U+0149, U+01F0,
// the ligatures U+FB00..FB06, Greek final sigma, U+0345, U+1F88 - next to the letters they fold to: a caseless
// literal reads as many BYTES as it has itself, whatever stands there; every run returns (and a literal that is
// not caseless matches exactly its bytes).
func c09Fold(r *drv.Run) {
	odd := []string{"İ", "ı", "K", "Å", "ſ", "ẞ", "ß", "ŉ", "ǰ", "ﬀ", "ﬁ", "ﬆ", "ς", "Σ", "ͅ", "ᾈ", "å", "Å", "ǅ", "Ω", "ω"}
	lits := []string{"i", "ia", "ai", "kab", "k", "åx", "xå", "ss", "s", "st", "ff", "fi", "σ", "ς", "I", "K", "İ", "ı", "ſ", "ß", "ω", "Ω", "ǅ", "iİ", "İi", "aKb", "Åa"}
	var texts [][]byte
	for _, o := range odd {
		texts = append(texts, []byte(o), []byte(o+"a"), []byte("a"+o), []byte(o+"ab x"+o), []byte("i"+o+"k"+o+"s"+o), []byte(o+o+o))
	}
	texts = append(texts, []byte(strings.Join(odd, "")), []byte(strings.Join(odd, "a")), []byte("iakabåxssstfffi"))
	type job struct{ src string }
	var jobs []job
	for _, l := range lits {
		q := "'" + l + "'"
		jobs = append(jobs, job{"find all caseless " + q}, job{"find all caseless " + q + " any"}, job{"find all any caseless " + q},
			job{"replace all caseless " + q + " with '<' value '>'"}, job{"find all at least 1 caseless " + q}, job{"find all in caseless " + q + ", 'zz'"},
			job{"find all (caseless " + q + ") = c c"}, job{"find all not caseless " + q})
	}
	r.Exec(len(jobs), drv.ExecOpts{Batch: 20}, func(i int) *drv.Item {
		src := jobs[i].src
		c := wire.Case{Op: "run", Src: []byte(src), Texts: texts, StepBudget: 2_000_000}
		return &drv.Item{Case: c, Check: func(res *wire.Result) {
			if crashOrGuard(r, res, &c, src, true) {
				return
			}
			if res.Compile == nil || !res.Compile.OK {
				if res.Compile != nil && res.Compile.Panic != nil {
					r.Violate(&drv.Violation{Sig: "compile-panic:" + res.Compile.Panic.Frame, Panic: res.Compile.Panic.Msg, Src: src, Case: &c})
				}
				r.Count("caseless_fold_sources_rejected", 1)
				return
			}
			for ti, text := range texts {
				if ti >= len(res.Runs) {
					break
				}
				run := &res.Runs[ti]
				r.Eval(1)
				if run.Panic != nil {
					r.Violate(&drv.Violation{Sig: "run-panic:" + run.Panic.Frame, Panic: run.Panic.Msg, Frame: run.Panic.Frame, Src: src, Text: string(text), Case: &c,
						Detail: map[string]any{"family": "caseless literal next to characters whose case mapping changes their length"}})
					return
				}
				if run.Budget != "" {
					r.Violate(&drv.Violation{Sig: "step-budget-exceeded", Src: src, Text: string(text), Case: &c, Detail: map[string]any{"budget": run.Budget}})
					return
				}
				r.Count("caseless_runs_over_length_changing_characters", 1)
				if len(run.Matches) > 0 {
					r.Nontrivial(fmt.Sprintf("fold|%s|%d", src, ti))
				}
			}
		}}
	})
	if r.NViolations() == 0 && r.Counter("caseless_runs_over_length_changing_characters") == 0 {
		r.Inconclusive("coverage floor: caseless_runs_over_length_changing_characters = 0")
	}
}
