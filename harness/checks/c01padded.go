package checks

import (
	"fmt"
	"strings"

	"verifharness/drv"
	"verifharness/wire"
)

// c01Padded: the pattern AS WRITTEN does not depend on where in a long source it stands. Seven commands made of
// literals with escapes (hex, named, backslash-character; both quote styles) behind a run of blanks
// that puts the lexer's 4096-byte (and 8192-byte) read boundary right before, inside and right after every escape:
// the matches are the occurrences of the denoted bytes, as for the same command without the blanks.
func c01Padded(r *drv.Run) {
	type prog struct{ src, denotes string }
	progs := []prog{
		{`find all '\x41'`, "A"},
		{`find all "b\x42" '\x2d'`, "bB-"},
		{`find all 'c\td'`, "c\td"},
		{`find all "q\"\x51"`, "q\"Q"},
		{`find all 'x4' '\x31'`, "x41"},
		{`find all '\\' '\x5c'`, "\\\\"},
		{`find all 'a\x62' "\x63d"`, "abcd"},
	}
	text := []byte("A bB- c\td q\"Q x41 \\\\ Ab abcd\nAA bB-bB- x411 abcdabcd \\x41 \\\\\\")
	type job struct {
		p   prog
		pad int
	}
	var jobs []job
	for _, p := range progs {
		seen := map[int]bool{0: true}
		jobs = append(jobs, job{p, 0})
		for i := 0; i < len(p.src); i++ {
			if p.src[i] != '\\' {
				continue
			}
			for d := -1; d <= 4; d++ {
				for _, b := range []int{4096, 8192} {
					if pad := b - i - d; pad > 0 && !seen[pad] {
						seen[pad] = true
						jobs = append(jobs, job{p, pad})
					}
				}
			}
		}
	}
	r.Exec(len(jobs), drv.ExecOpts{Batch: 40}, func(i int) *drv.Item {
		jb := jobs[i]
		src := strings.Repeat(" ", jb.pad) + jb.p.src
		c := wire.Case{Op: "run", Src: []byte(src), Texts: [][]byte{text}, StepBudget: 400000}
		shown := fmt.Sprintf("<%d blanks>%s", jb.pad, jb.p.src)
		return &drv.Item{Case: c, Check: func(res *wire.Result) {
			if crashOrGuard(r, res, &c, shown, false) {
				return
			}
			r.Eval(1)
			if res.Compile == nil || !res.Compile.OK {
				e := ""
				if res.Compile != nil {
					e = res.Compile.Err
				}
				r.Violate(&drv.Violation{Sig: "padded:rejected", Src: shown, Err: e, Case: &c, Detail: map[string]any{"blanks_in_front": jb.pad}})
				return
			}
			if len(res.Runs) != 1 || runTrouble(r, &res.Runs[0], &c, shown, text, false) {
				return
			}
			var want [][2]int
			for p := 0; p+len(jb.p.denotes) <= len(text); {
				k := strings.Index(string(text[p:]), jb.p.denotes)
				if k < 0 {
					break
				}
				want = append(want, [2]int{p + k, p + k + len(jb.p.denotes)})
				p += k + len(jb.p.denotes)
			}
			got := res.Runs[0].Matches
			same := len(got) == len(want)
			for k := 0; same && k < len(want); k++ {
				same = got[k].S == want[k][0] && got[k].E == want[k][1]
			}
			if !same {
				r.Violate(&drv.Violation{Sig: "padded:spans-differ", Src: shown, Text: string(text), Case: &c,
					Detail: map[string]any{"blanks_in_front": jb.pad, "denotes": jb.p.denotes, "expected": fmt.Sprint(want), "observed": fmtGot(got)}})
				return
			}
			r.Count("commands_behind_a_blank_run_ending_at_the_read_boundary", 1)
		}}
	})
}

// c01TwoDigitRefs: regex literals with ten to twelve plain groups and a back-reference to each group number from 9
// to 12 - the two-digit numbers 10, 11, 12 among them, one ending in the digit 0 - on a text where "group 10" and
// "group 1 followed by the character 0" are different things. Expected spans from the text alone.
func c01TwoDigitRefs(r *drv.Run) {
	type job struct {
		groups, ref int
	}
	var jobs []job
	for g := 10; g <= 12; g++ {
		for ref := 9; ref <= g; ref++ {
			jobs = append(jobs, job{g, ref})
		}
	}
	r.Exec(len(jobs), drv.ExecOpts{Batch: 10}, func(i int) *drv.Item {
		jb := jobs[i]
		letters := "abcdefghijkl"[:jb.groups]
		re := ""
		for _, c := range letters {
			re += "(" + string(c) + ")"
		}
		re += fmt.Sprintf("\\%d", jb.ref)
		src := "find all @/" + re + "/"
		// the letters followed by: the referenced group's letter (a match), group 1's letter and the last digit of the
		// number (what `\1` + a literal digit would match), the referenced letter in the other case (none)
		refLetter := string(letters[jb.ref-1])
		text := []byte(letters + refLetter + " " + letters + "a" + fmt.Sprint(jb.ref%10) + " " + letters + strings.ToUpper(refLetter) + " " + letters + refLetter)
		c := wire.Case{Op: "run", Src: []byte(src), Texts: [][]byte{text}, StepBudget: 400000}
		return &drv.Item{Case: c, Check: func(res *wire.Result) {
			if crashOrGuard(r, res, &c, src, false) {
				return
			}
			if compileTrouble(r, res, &c, src, false) {
				return
			}
			r.Eval(1)
			if len(res.Runs) != 1 || runTrouble(r, &res.Runs[0], &c, src, text, false) {
				return
			}
			n := jb.groups + 1
			last := len(text) - n
			want := fmt.Sprintf("{#1[0,%d) #2[%d,%d) }", n, last, last+n)
			if got := fmtGotN(res.Runs[0].Matches); got != want {
				r.Violate(&drv.Violation{Sig: "two-digit-back-reference:spans-differ", Src: src, Text: string(text), Case: &c,
					Detail: map[string]any{"groups": jb.groups, "referenced_group": jb.ref, "expected": want, "observed": got}})
				return
			}
			r.Count("regexes_with_ten_or_more_groups_and_a_back_reference", 1)
		}}
	})
}
