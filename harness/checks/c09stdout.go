package checks

import (
	"os"

	"verifharness/drv"
	"verifharness/wire"
)

// c09Stdout: programs that reach a `debug` statement while the process cannot write to its standard output (it is
// opened on /dev/full: every write fails with "no space left on device"). What a debug statement prints is a side
// effect; a search returns its matches all the same.
func c09Stdout(r *drv.Run) {
	if _, err := os.Stat("/dev/full"); err != nil {
		r.Count("dev_full_not_available", 1)
		return
	}
	srcs := []string{
		"set f to transform debug 'T:' + match return match + '!' end\nreplace all at least 1 letter with f",
		"set p to pattern at least 1 digit begin debug matchLength return matchLength < 3 end\nfind all p",
		"set f to transform set i to 0 loop set i to i + 1 debug i if i > 3 then break end end return i end\nreplace all 'a' with f",
		"set p to pattern 'a' begin debug 'a' debug 'b' return true end\nset f to transform debug match return 'x' end\nfind all p\nreplace all p with f",
		"set f to transform if match == 'ab' then debug 'then' else debug 'else' end return match end\nreplace all at least 1 letter with f",
	}
	texts := [][]byte{[]byte("ab 12 a 1234 aab"), []byte("a"), []byte("")}
	r.Exec(len(srcs), drv.ExecOpts{Batch: 5, Stdout: "/dev/full"}, func(i int) *drv.Item {
		src := srcs[i]
		c := wire.Case{Op: "run", Src: []byte(src), Texts: texts, StepBudget: 400000}
		return &drv.Item{Case: c, Check: func(res *wire.Result) {
			r.Eval(1)
			if res.Died {
				if res.Guard == "wall" {
					r.Inconclusive("wall-clock watchdog fired")
					return
				}
				r.Violate(&drv.Violation{Sig: "stdout-full:worker-died:" + classifyFatal(res.Stderr), Panic: firstLines(res.Stderr, 2), Src: src, Case: &c})
				return
			}
			if res.Panic != nil {
				r.Violate(&drv.Violation{Sig: "panic:" + res.Panic.Frame, Panic: res.Panic.Msg, Frame: res.Panic.Frame, Src: src, Case: &c})
				return
			}
			if res.Compile == nil || !res.Compile.OK {
				r.Inconclusive("fixed program rejected: " + src)
				return
			}
			for ti := range res.Runs {
				run := &res.Runs[ti]
				if run.Panic != nil {
					r.Violate(&drv.Violation{Sig: "run-panic:" + run.Panic.Frame, Panic: run.Panic.Msg, Frame: run.Panic.Frame, Src: src, Text: string(texts[ti]), Case: &c,
						Detail: map[string]any{"standard_output": "/dev/full"}})
					return
				}
			}
			r.Count("debug_programs_run_with_a_failing_standard_output", 1)
			r.Nontrivial("stdout-full|" + src)
		}}
	})
	if r.NViolations() == 0 && r.Counter("debug_programs_run_with_a_failing_standard_output") == 0 {
		r.Inconclusive("coverage floor: debug_programs_run_with_a_failing_standard_output = 0")
	}
}
