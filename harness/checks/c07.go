package checks

import (
	"fmt"
	"os"
	"path/filepath"
	"sort"

	"verifharness/drv"
	"verifharness/gen"
	"verifharness/wire"
)

func init() { Registry["C07"] = C07 }

var c07Sizes = []int{0, 1, 2, 2047, 2048, 2049, 4095, 4096, 4097, 6143, 6144, 6145, 8191, 8192, 8193, 12000, 20000}

// c07Content builds a file of the given size: filler text with needles planted around every
// multiple of 2048 (straddling it by 0..7 bytes) and at both ends.
func c07Content(rng *gen.Rng, size int) []byte {
	filler := []byte("lorem ipsum dolor sit amet\nconsectetur 12 adipiscing elit_x, sed do\r\n")
	b := make([]byte, size)
	for i := range b {
		b[i] = filler[(i+rng.Intn(3))%len(filler)]
	}
	plant := func(at int, s string) {
		for k := 0; k < len(s); k++ {
			if at+k >= 0 && at+k < size {
				b[at+k] = s[k]
			}
		}
	}
	for m := 2048; m < size+2048; m += 2048 {
		plant(m-rng.Intn(8), "needleQ")
		plant(m-40-rng.Intn(8), "\nnew line")
		plant(m+30, "<tag "+string(rune('a'+rng.Intn(26)))+">")
	}
	plant(0, "needleQ")
	plant(size-7, "needleQ")
	if size > 5000 {
		// one long bracketed run for greedy backtracking across a window edge
		st := 3000 + rng.Intn(200) // the run straddles offset 4096
		plant(st, "[")
		for k := st + 1; k < st+1500 && k < size-1; k++ {
			if b[k] == ']' || b[k] == '[' {
				b[k] = '.'
			}
		}
		plant(min(st+1500, size-1), "]")
	}
	return b
}

var c07Programs = []string{
	"find all 'needleQ'",
	"find all line start at least 1 letter",
	"find all word start 'needle' any word end",
	"find all 'needle' at least 0 any fewest 'ZZZ-not-there'", // lazy scan to EOF that fails, then the scan restarts near the beginning
	"find all '[' at least 0 not ']' fewest ']'",
	"find top 1 '[' at least 0 any ']'",   // greedy to EOF, backtracks far (files <= 4097 bytes: the VM copies its whole backtrack stack per step)
	"find all '[' at least 0 not ']' ']'", // greedy over the ~1500 byte bracketed run, across a window edge
	"find all '<tag ' letter '>' ",
	"replace all 'needleQ' with '<' value startOffset '>'",
	"find all whole line",
	"find last 2 line end",
	"find all @/n[a-z]+Q|\\d\\d/",
	"find all ('n' = a 'e') at least 1 (letter = b) named tailLetters 'Q'",
	"find all not line start 'new' whitespace",
	"find all file start any",
	"find all any file end",
}

func C07(r *drv.Run) {
	r.BuildWorker()
	nReaderOps := 40000
	rounds := 1
	if !quick(r) {
		nReaderOps = 600000
		rounds = 4
	}
	r.Rule = "(1) differential: RunFiles([f], NOTHING) == Run(string(bytes of f)) on every field but Filename, for 16 programs forcing forward scans, one-byte-back reads (line/word anchors), far-back seeks (lazy scan to EOF that fails; greedy loop over a ~1500 byte run straddling offset 4096 that backtracks) x 17 file sizes (0, 1, 2, around 2048/4096/6144/8192, 12 000, 20 000) with needles planted around every multiple of 2048, regular files with the setuid, setgid or sticky bit, files whose names end in the suffixes the tool itself produces (x.vored next to x, x.vored.vored, .vored) and other tool-like suffixes, files that begin with a byte-order mark (UTF-8, UTF-16 either way, half of one, two of them), an interpreter line, a magic number or NUL bytes, also the same files reached through symbolic links and through names whose `..` follows a link to a directory elsewhere, files owned by another user than the searching process (as root: the worker runs as user 65534 over root's scratch files; otherwise root-owned system files), several files (an empty one among them; one file listed twice and three times under one spelling) in one call, 600 small files in one call while the process may hold 256 file descriptors, a directory argument (== the files directly inside it, in name order) under three spellings, and sessions in which the same path is rewritten with different bytes of the same size and searched again within one process; also a searched file that is what the standard output of the searching process is connected to (same name, hard link, symbolic link); (2) online monitor (hook H4): every read the engine issues to the backing store is compared with the ground-truth bytes at the offset the Reader believes it is at; re-centres forward/backward, reads spanning a 4096 boundary and reads of the last byte are counted; (3) direct driver: long random Seek/Read/ReadAt/anchor-pair histories, also several Reads in a row behind one Seek (each continues where the one before stopped; the engine itself always seeks first, the property's last sentence says any sequence), on files.ReaderFromFile vs ReaderFromString vs the bytes, offsets biased to 0, window edges, size-1, size, with 180 other readers on files opened and kept open in the middle of each history; the same on files of 1 MiB + 37, 4 MiB and 64 MiB + 5 904 bytes with offsets biased to the first and last 80 KiB and reads of up to 3 MiB; and on SPARSE files of 3 GiB + 17, 4 GiB + 8 292 and 8 GiB + 12 345 bytes (written only around 0, 2^30, 2^31, 2^32, 2^32 + 2^31, 2^33 and the end), jumping between those places, every read compared with pread through a descriptor of the harness's own. Non-trivial = engine case with >= 1 match and >= 1 window re-centre, or reader history with >= 1 backward re-centre; distinct by (program, size, content seed)."
	r.Assumptions = []string{"the online read monitor trusts only the bytes the harness itself wrote to the file"}
	dir := filepath.Join(r.WorkDir, "c07")
	os.MkdirAll(dir, 0o755)
	type fcase struct {
		path    string
		content []byte
		size    int
	}
	var files []fcase
	for round := 0; round < rounds; round++ {
		for _, sz := range c07Sizes {
			rng := gen.Derive(r.Seed, "C07file", sz*10+round)
			b := c07Content(rng, sz)
			p := filepath.Join(dir, fmt.Sprintf("f%d_%d.txt", sz, round))
			if err := os.WriteFile(p, b, 0o644); err != nil {
				r.Inconclusive("cannot write scratch file")
				return
			}
			files = append(files, fcase{p, b, sz})
		}
	}
	// a file whose name is another file's name plus the suffix the tool gives its own outputs (.vored), next to that
	// other file; names ending in other suffixes of the tool and its neighbours: every one is a file to search
	for ni, nm := range []string{"pair.txt", "pair.txt.vored", "pair.txt.vored.vored", "lone.vored", "prog.vore", "pair.txt.bak", "pair.txt~", ".vored"} {
		rng := gen.Derive(r.Seed, "C07suffix", ni)
		b := c07Content(rng, 200+ni)
		p := filepath.Join(dir, nm)
		os.WriteFile(p, b, 0o644)
		files = append(files, fcase{p, b, len(b)})
	}
	// regular files with the setuid, setgid or sticky bit (Go keeps those outside the permission bits, next to the type
	// bits): files like any others
	for mi, md := range []os.FileMode{os.ModeSetuid | 0o644, os.ModeSetgid | 0o644, os.ModeSticky | 0o644, os.ModeSetuid | os.ModeSetgid | 0o755} {
		rng := gen.Derive(r.Seed, "C07modes", mi)
		b := c07Content(rng, 300+mi)
		p := filepath.Join(dir, fmt.Sprintf("special-mode-%d.txt", mi))
		os.WriteFile(p, b, 0o644)
		if os.Chmod(p, md) == nil {
			if st, err := os.Stat(p); err == nil && st.Mode()&(os.ModeSetuid|os.ModeSetgid|os.ModeSticky) != 0 {
				files = append(files, fcase{p, b, len(b)})
				r.Count("files_with_setuid_setgid_or_sticky_bit", 1)
			}
		}
	}
	// files that open like something else: byte-order marks, an interpreter line, magic numbers, NUL bytes - bytes like
	// any others to a search
	for oi, op := range []string{"\xef\xbb\xbf", "\xff\xfe", "\xfe\xff", "#!/usr/bin/vore\n", "\x1f\x8b\x08", "\x00\x00", "PK\x03\x04", "\xef\xbb", "\xef\xbb\xbf\xef\xbb\xbf"} {
		for _, sz := range []int{0, 37, 5000} {
			if sz == 5000 && oi >= 4 {
				continue
			}
			rng := gen.Derive(r.Seed, "C07opener", oi*10000+sz)
			b := append([]byte(op), c07Content(rng, sz)...)
			p := filepath.Join(dir, fmt.Sprintf("opener%d_%d.txt", oi, sz))
			os.WriteFile(p, b, 0o644)
			files = append(files, fcase{p, b, len(b)})
			r.Count("files_opening_with_marks_or_magic_numbers", 1)
		}
	}
	// the same bytes reached through a symbolic link (what a pattern over a directory with links hands to RunFiles):
	// a short relative target for a large file, a long absolute target for a small one
	nreal := len(files)
	for k := 0; k < nreal; k += 3 {
		f := files[k]
		lp := filepath.Join(dir, fmt.Sprintf("link%d.txt", k))
		target := filepath.Base(f.path)
		if f.size < 100 {
			target = f.path
		}
		if os.Symlink(target, lp) == nil {
			files = append(files, fcase{lp, f.content, f.size})
			r.Count("files_reached_through_a_symbolic_link", 1)
		}
	}
	// a name whose `..` comes after a symbolic link to a directory elsewhere: the file system resolves the link
	// first (base/link/../notes.txt is store/notes.txt), a lexical clean-up of the name would not (base/notes.txt,
	// which exists too, with other bytes of the same size)
	{
		os.MkdirAll(filepath.Join(dir, "store", "deep"), 0o755)
		os.MkdirAll(filepath.Join(dir, "base"), 0o755)
		if os.Symlink("../store/deep", filepath.Join(dir, "base", "link")) == nil {
			for k, sz := range []int{40, 4097, 9000} {
				rngA := gen.Derive(r.Seed, "C07dotdotA", sz)
				rngB := gen.Derive(r.Seed, "C07dotdotB", sz)
				a, b := c07Content(rngA, sz), c07Content(rngB, sz)
				nm := fmt.Sprintf("notes%d.txt", k)
				os.WriteFile(filepath.Join(dir, "store", nm), a, 0o644)
				os.WriteFile(filepath.Join(dir, "base", nm), b, 0o644)
				files = append(files, fcase{filepath.Join(dir, "base", "link") + "/../" + nm, a, sz})
				r.Count("files_named_through_link_and_dotdot", 1)
			}
		}
	}
	// engine cases
	engine := func(files []fcase, opts drv.ExecOpts, counter string) {
		n := len(files) * len(c07Programs)
		r.Exec(n, opts, func(i int) *drv.Item {
			f := files[i/len(c07Programs)]
			src := c07Programs[i%len(c07Programs)]
			// the VM keeps a full copy of its backtrack stack in every saved choice point (quadratic memory)
			// and rebuilds the match text on every consumed byte (quadratic time): bound the heavy programs
			if (f.size > 4097 && src == c07Programs[5]) || (f.size > 8193 && src == c07Programs[3]) {
				return nil
			}
			c := wire.Case{Op: "runfiles", Src: []byte(src), Files: []string{f.path}, Mode: "NOTHING", Texts: [][]byte{f.content}, StepBudget: 30_000_000}
			return &drv.Item{Case: c, Check: func(res *wire.Result) {
				if crashOrGuard(r, res, &c, src, false) {
					return
				}
				if res.Compile == nil || !res.Compile.OK {
					r.Inconclusive("fixed program rejected: " + src)
					return
				}
				if len(res.Runs) != 2 {
					r.Inconclusive("short result")
					return
				}
				fr, sr := &res.Runs[0], &res.Runs[1]
				r.Eval(1)
				label := fmt.Sprintf("size=%d", f.size)
				if fr.Panic != nil {
					r.Violate(&drv.Violation{Sig: "runfiles-panic:" + fr.Panic.Frame, Panic: fr.Panic.Msg, Frame: fr.Panic.Frame, Src: src, Case: &c, Detail: map[string]any{"file": label}})
					return
				}
				if sr.Panic != nil {
					r.Violate(&drv.Violation{Sig: "run-panic:" + sr.Panic.Frame, Panic: sr.Panic.Msg, Frame: sr.Panic.Frame, Src: src, Case: &c, Detail: map[string]any{"file": label}})
					return
				}
				if fr.Budget != "" || sr.Budget != "" {
					r.Count("skipped_expensive", 1)
					return
				}
				if fr.ReadMismatch != "" {
					r.Violate(&drv.Violation{Sig: "engine-read-returned-wrong-bytes", Src: src, Case: &c, Detail: map[string]any{"file": label, "read": fr.ReadMismatch}})
					return
				}
				a := append([]wire.Match{}, fr.Matches...)
				for k := range a {
					a[k].File = "text"
				}
				if matchesJSON(a) != matchesJSON(sr.Matches) {
					d := "count"
					for k := 0; k < len(a) && k < len(sr.Matches); k++ {
						if matchesJSON(a[k:k+1]) != matchesJSON(sr.Matches[k:k+1]) {
							d = fmt.Sprintf("first difference at match %d: file %s vs string %s", k, oneLineN(matchesJSON(a[k:k+1]), 200), oneLineN(matchesJSON(sr.Matches[k:k+1]), 200))
							break
						}
					}
					r.Violate(&drv.Violation{Sig: "file-result-differs-from-string-result", Src: src, Case: &c,
						Detail: map[string]any{"file": label, "file_matches": len(a), "string_matches": len(sr.Matches), "diff": d}})
					return
				}
				r.Count("engine_backing_reads", fr.Reads)
				r.Count("refill_forward", fr.RefillFwd)
				r.Count("refill_backward", fr.RefillBack)
				r.Count("reads_spanning_4096_boundary", fr.EdgeReads)
				r.Count("reads_of_last_byte", fr.LastByteReads)
				r.Count("matches_compared", len(a))
				if len(a) > 0 && fr.RefillFwd+fr.RefillBack > 0 {
					r.Nontrivial(fmt.Sprintf("%s|%s", src, f.path))
				}
				if i%29 == 0 {
					r.Sample(map[string]any{"program": src, "file_size": f.size, "matches": len(a), "refills_back": fr.RefillBack})
				}
				if counter != "" {
					r.Count(counter, 1)
				}
			}}
		})
	}
	engine(files, drv.ExecOpts{Batch: 6}, "")
	// files that belong to SOMEBODY ELSE (readable all the same): as root the worker process runs as user 65534 over
	// the scratch files, which root owns; otherwise it searches readable system files that root owns
	{
		var other []fcase
		opts := drv.ExecOpts{Batch: 6}
		if os.Geteuid() == 0 {
			for k := 0; k < len(files) && len(other) < 6; k += 5 {
				other = append(other, files[k])
			}
			opts.UID = 65534
			os.Chmod(r.WorkDir, 0o755)
		} else {
			for _, p := range []string{"/etc/passwd", "/etc/hostname", "/etc/os-release", "/etc/services", "/etc/group"} {
				if st, err := os.Stat(p); err == nil && st.Mode().IsRegular() && st.Size() < 100000 {
					if b, err := os.ReadFile(p); err == nil {
						other = append(other, fcase{p, b, len(b)})
					}
				}
			}
		}
		engine(other, opts, "searches_of_files_owned_by_somebody_else")
		if r.NViolations() == 0 && r.Counter("searches_of_files_owned_by_somebody_else") == 0 {
			r.Inconclusive("coverage floor: searches_of_files_owned_by_somebody_else = 0")
		}
	}
	// a DIRECTORY argument == the files directly inside it, in name order (sub-directories are not searched)
	{
		dd := filepath.Join(dir, "dargs")
		os.MkdirAll(filepath.Join(dd, "zsub"), 0o755)
		os.WriteFile(filepath.Join(dd, "zsub", "deep.txt"), []byte("needle abab"), 0o644)
		var inner []fcase
		for k, fi := range []int{1, 8, 14, 0} {
			if fi < len(files) {
				nm := fmt.Sprintf("%c file %d.txt", 'd'-k, k) // name order differs from creation order
				os.WriteFile(filepath.Join(dd, nm), files[fi].content, 0o644)
				inner = append(inner, fcase{filepath.Join(dd, nm), files[fi].content, files[fi].size})
			}
		}
		sort.Slice(inner, func(a, b int) bool { return inner[a].path < inner[b].path })
		spell := []string{dd, dd + "/", filepath.Dir(dd) + "/./dargs"}
		r.Exec(len(spell)*len(c07Programs), drv.ExecOpts{Batch: 4}, func(i int) *drv.Item {
			src := c07Programs[i%len(c07Programs)]
			if src == c07Programs[5] || src == c07Programs[3] {
				return nil
			}
			arg := spell[i/len(c07Programs)]
			var texts [][]byte
			for _, f := range inner {
				texts = append(texts, f.content)
			}
			c := wire.Case{Op: "runfiles", Src: []byte(src), Files: []string{arg}, Mode: "NOTHING", Texts: texts, StepBudget: 30_000_000}
			return &drv.Item{Case: c, Check: func(res *wire.Result) {
				if crashOrGuard(r, res, &c, src, false) {
					return
				}
				if res.Compile == nil || !res.Compile.OK || len(res.Runs) != 1+len(inner) {
					r.Inconclusive("directory-argument case: short result")
					return
				}
				r.Eval(1)
				fr := &res.Runs[0]
				if fr.Panic != nil {
					r.Violate(&drv.Violation{Sig: "runfiles-panic:" + fr.Panic.Frame, Panic: fr.Panic.Msg, Frame: fr.Panic.Frame, Src: src, Case: &c, Detail: map[string]any{"argument": arg}})
					return
				}
				if fr.Budget != "" {
					r.Count("skipped_expensive", 1)
					return
				}
				var want []wire.Match
				for k := range inner {
					sr := &res.Runs[1+k]
					if sr.Panic != nil || sr.Budget != "" {
						return
					}
					for _, m := range sr.Matches {
						m.File = inner[k].path
						want = append(want, m)
					}
				}
				got := append([]wire.Match{}, fr.Matches...)
				for k := range got {
					got[k].File = filepath.Clean(got[k].File)
				}
				if matchesJSON(got) != matchesJSON(want) {
					r.Violate(&drv.Violation{Sig: "directory-argument-result-differs-from-its-files", Src: src, Case: &c,
						Detail: map[string]any{"argument": arg, "matches": len(got), "expected_matches": len(want)}})
					return
				}
				r.Count("directory_argument_calls_verified", 1)
				if len(want) > 0 {
					r.Nontrivial("dirarg|" + src + "|" + arg)
				}
			}}
		})
	}
	// several files in one RunFiles call == the per-file results in order (single-command programs)
	multi := [][]int{{8, 0, 14}, {1, 7, 3}, {16, 13}, {0, 0, 9}, {3, 3}, {5, 2, 5, 2}, {7, 7, 7}}
	// ... and hundreds of small files in one call (one command, then three) while the process may hold 256 file
	// descriptors at a time: the 257th file is searched like the first
	crowdDir := filepath.Join(dir, "crowd")
	os.MkdirAll(crowdDir, 0o755)
	var crowdPaths []string
	var crowdTexts [][]byte
	for k := 0; k < 600; k++ {
		b := c07Content(gen.Derive(r.Seed, "C07crowd", k), 30+k%40)
		pth := filepath.Join(crowdDir, fmt.Sprintf("c%04d.txt", k))
		os.WriteFile(pth, b, 0o644)
		crowdPaths = append(crowdPaths, pth)
		crowdTexts = append(crowdTexts, b)
	}
	crowdProgs := []string{c07Programs[0], "replace all 'needle' with 'N'", c07Programs[1]}
	nMulti := len(multi) * len(c07Programs)
	r.Exec(nMulti+len(crowdProgs), drv.ExecOpts{Batch: 4}, func(i int) *drv.Item {
		crowd := i >= nMulti
		var set []int
		var src string
		if crowd {
			src = crowdProgs[i-nMulti]
		} else {
			set = multi[i/len(c07Programs)]
			src = c07Programs[i%len(c07Programs)]
		}
		if src == c07Programs[5] || src == c07Programs[3] {
			return nil
		}
		var paths []string
		var texts [][]byte
		if crowd {
			paths, texts = crowdPaths, crowdTexts
		}
		for _, k := range set {
			pth := files[k].path
			switch (i + k) % 3 { // (by file, not by position: a file listed twice is spelled the same way twice)
			case 1: // the same file under another legal spelling of its path
				pth = filepath.Dir(pth) + "/./" + filepath.Base(pth)
			case 2:
				pth = filepath.Dir(pth) + "//" + filepath.Base(pth)
			}
			paths = append(paths, pth)
			texts = append(texts, files[k].content)
		}
		c := wire.Case{Op: "runfiles", Src: []byte(src), Files: paths, Mode: "NOTHING", Texts: texts, StepBudget: 30_000_000}
		if crowd {
			c.FdLimit = 256
		}
		return &drv.Item{Case: c, Check: func(res *wire.Result) {
			if crashOrGuard(r, res, &c, src, false) {
				return
			}
			if res.Compile == nil || !res.Compile.OK || len(res.Runs) != 1+len(paths) {
				r.Inconclusive("multi-file case: short result")
				return
			}
			r.Eval(1)
			fr := &res.Runs[0]
			if fr.Panic != nil {
				r.Violate(&drv.Violation{Sig: "runfiles-panic:" + fr.Panic.Frame, Panic: fr.Panic.Msg, Frame: fr.Panic.Frame, Src: src, Case: &c})
				return
			}
			if fr.Budget != "" {
				r.Count("skipped_expensive", 1)
				return
			}
			if fr.ReadMismatch != "" {
				r.Violate(&drv.Violation{Sig: "engine-read-returned-wrong-bytes", Src: src, Case: &c, Detail: map[string]any{"read": fr.ReadMismatch, "files": fmt.Sprint(paths)}})
				return
			}
			var want []wire.Match
			for k := range paths {
				sr := &res.Runs[1+k]
				if sr.Panic != nil || sr.Budget != "" {
					return
				}
				for _, m := range sr.Matches {
					m.File = paths[k]
					want = append(want, m)
				}
			}
			if matchesJSON(fr.Matches) != matchesJSON(want) {
				r.Violate(&drv.Violation{Sig: "multi-file-result-differs-from-per-file-results", Src: src, Case: &c,
					Detail: map[string]any{"files": fmt.Sprint(paths), "file_matches": len(fr.Matches), "expected_matches": len(want)}})
				return
			}
			r.Count("multi_file_calls_verified", 1)
			if crowd {
				r.Count("calls_over_600_files_under_a_descriptor_limit_verified", 1)
			}
			if len(want) > 0 {
				r.Nontrivial(fmt.Sprintf("multi|%s|%v", src, set))
			}
		}}
	})
	// sessions: the SAME path is rewritten with different bytes of the same size and searched again in one
	// process: nothing read for an earlier open of that path may be served to a later one
	sessProgs := []string{c07Programs[0], c07Programs[1], c07Programs[6], c07Programs[7], c07Programs[10]}
	nsess := 24
	if !quick(r) {
		nsess = 400
	}
	r.Exec(nsess, drv.ExecOpts{Batch: 4}, func(i int) *drv.Item {
		rng := gen.Derive(r.Seed, "C07session", i)
		sdir := filepath.Join(dir, fmt.Sprintf("sess%d", i))
		os.MkdirAll(sdir, 0o755)
		size := []int{60, 900, 3000, 4096, 5000, 9000}[rng.Intn(6)]
		var steps []wire.Step
		for k := 0; k < 3+rng.Intn(3); k++ {
			content := c07Content(gen.Derive(r.Seed, "C07sessfile", i*100+k), size)
			// make the beginning differ visibly from step to step
			copy(content, []byte(fmt.Sprintf("needleQ%d <tag %c> \nnew", k, 'a'+byte(k))))
			name := []string{"s.txt", "s.txt", "t.txt"}[rng.Intn(3)]
			steps = append(steps, wire.Step{Write: map[string][]byte{name: content}, Src: []byte(sessProgs[rng.Intn(len(sessProgs))]), Files: []string{name}, Mode: "NOTHING", Text: content, WantMatches: true})
		}
		c := wire.Case{Op: "session", Dir: sdir, Steps: steps}
		return &drv.Item{Case: c, Check: func(res *wire.Result) {
			defer os.RemoveAll(sdir)
			r.Eval(1)
			if res.Died || res.Panic != nil {
				msg, frame := firstLines(res.Stderr, 3), ""
				if res.Panic != nil {
					msg, frame = res.Panic.Msg, res.Panic.Frame
				}
				r.Violate(&drv.Violation{Sig: "session-crashed:" + frame, Panic: msg, Frame: frame, Case: &wire.Case{Op: "session", Dir: sdir}})
				return
			}
			if len(res.StepResults) != len(steps) {
				r.Inconclusive("session: short result")
				return
			}
			for k, sr := range res.StepResults {
				if sr.CompileErr != "" {
					r.Inconclusive("session program rejected")
					return
				}
				if sr.Panic != nil {
					r.Violate(&drv.Violation{Sig: "runfiles-panic:" + sr.Panic.Frame, Panic: sr.Panic.Msg, Frame: sr.Panic.Frame, Src: string(steps[k].Src), Detail: map[string]any{"step": k, "size": size}})
					return
				}
				a := append([]wire.Match{}, sr.Matches...)
				for q := range a {
					a[q].File = "text"
				}
				if matchesJSON(a) != matchesJSON(sr.StringMatches) {
					r.Violate(&drv.Violation{Sig: "reopened-path-result-differs-from-string-result", Src: string(steps[k].Src),
						Detail: map[string]any{"step": k, "of": len(steps), "file_size": size, "file_matches": len(a), "string_matches": len(sr.StringMatches),
							"note": "the same path had been rewritten with different bytes of the same size before this step"}})
					return
				}
				r.Count("session_steps_verified", 1)
			}
			r.Nontrivial(fmt.Sprintf("session|%d", i))
		}}
	})
	// direct reader histories on LARGE files (1 MiB + 37, 4 MiB, 64 MiB + 5 904: whatever depends on the size of the
	// file - window sizes, clamps at the end, reads longer than a block - is beyond the sizes above); ground truth
	// is read from the file itself
	{
		bigSizes := []int{(1 << 20) + 37, 4 << 20, (64 << 20) + 5904}
		var bigPaths []string
		for k, sz := range bigSizes {
			p := filepath.Join(dir, fmt.Sprintf("big%d.bin", k))
			f, err := os.Create(p)
			if err != nil {
				r.Inconclusive("cannot create a large scratch file")
				break
			}
			chunk := make([]byte, 1<<20)
			x := r.Seed*2654435761 + uint64(k)
			for w := 0; w < sz; w += len(chunk) {
				for j := range chunk {
					x = x*6364136223846793005 + 1442695040888963407
					chunk[j] = "ab \nq1"[(x>>59)%6]
				}
				n := len(chunk)
				if sz-w < n {
					n = sz - w
				}
				f.Write(chunk[:n])
			}
			f.Close()
			bigPaths = append(bigPaths, p)
		}
		nb := 6000
		if !quick(r) {
			nb = 100000
		}
		r.Exec(len(bigPaths), drv.ExecOpts{Batch: 1}, func(i int) *drv.Item {
			c := wire.Case{Op: "reader", Path: bigPaths[i], TruthFromFile: true, Ops: nb, Seed: r.Seed*77 + uint64(i)}
			return &drv.Item{Case: c, Check: func(res *wire.Result) {
				r.Eval(1)
				if res.Died || res.Panic != nil {
					msg, frame := firstLines(res.Stderr, 3), ""
					if res.Panic != nil {
						msg, frame = res.Panic.Msg, res.Panic.Frame
					}
					r.Violate(&drv.Violation{Sig: "reader-crashed:" + frame, Panic: msg, Frame: frame, Case: &c, Detail: map[string]any{"size": bigSizes[i]}})
					return
				}
				if res.Mismatch != "" {
					r.Violate(&drv.Violation{Sig: "reader-returned-wrong-bytes", Case: &c, Detail: map[string]any{"size": bigSizes[i], "what": res.Mismatch}})
					return
				}
				r.Count("large_file_reader_histories_verified", 1)
				r.Nontrivial(fmt.Sprintf("bigreader|%d", bigSizes[i]))
			}}
		})
		for _, p := range bigPaths {
			os.Remove(p)
		}
	}
	c07Sparse(r)
	c07Stdio(r)
	// direct reader histories
	r.Exec(len(files)*2, drv.ExecOpts{Batch: 3}, func(i int) *drv.Item {
		f := files[i/2]
		c := wire.Case{Op: "reader", Path: f.path, Truth: f.content, Ops: nReaderOps, Seed: r.Seed*1000 + uint64(i)}
		return &drv.Item{Case: c, Check: func(res *wire.Result) {
			r.Eval(1)
			if res.Died || res.Panic != nil {
				msg, frame := firstLines(res.Stderr, 3), ""
				if res.Panic != nil {
					msg, frame = res.Panic.Msg, res.Panic.Frame
				}
				r.Violate(&drv.Violation{Sig: "reader-crashed:" + frame, Panic: msg, Frame: frame, Case: &wire.Case{Op: "reader", Path: f.path, Ops: nReaderOps, Seed: c.Seed}, Detail: map[string]any{"size": f.size}})
				return
			}
			if res.Mismatch != "" {
				r.Violate(&drv.Violation{Sig: "reader-returned-wrong-bytes", Case: &wire.Case{Op: "reader", Path: f.path, Ops: nReaderOps, Seed: c.Seed},
					Detail: map[string]any{"size": f.size, "what": res.Mismatch}})
				return
			}
			for k, v := range res.Counters {
				r.Count("reader_"+k, v)
			}
			if res.Counters["refill_back"] > 0 {
				r.Nontrivial(fmt.Sprintf("reader|%s|%d", f.path, c.Seed))
			}
		}}
	})
	if r.NViolations() == 0 {
		for _, k := range []string{"session_steps_verified", "refill_backward", "refill_forward", "reads_spanning_4096_boundary", "reads_of_last_byte", "reader_refill_back", "reader_nonempty", "reader_anchor_pair"} {
			if r.Counter(k) == 0 {
				r.Inconclusive("coverage floor: " + k + " = 0")
			}
		}
	}
}
