package checks

import (
	"bytes"
	"fmt"

	"verifharness/drv"
	"verifharness/gen"
	"verifharness/wire"
)

func init() { Registry["C03"] = C03 }

func isASCII(b []byte) bool {
	for _, c := range b {
		if c >= 0x80 {
			return false
		}
	}
	return true
}

// lineCol computes the 1-based line and byte column of an offset from the text alone.
func lineCol(text []byte, off int) (int, int) {
	line := 1 + bytes.Count(text[:off], []byte{'\n'})
	last := bytes.LastIndexByte(text[:off], '\n')
	return line, off - last
}

func varsSubstrings(v *wire.Var, val []byte, path string) string {
	if v == nil {
		return ""
	}
	if !v.IsMap {
		if !bytes.Contains(val, v.Str) {
			return fmt.Sprintf("variable %s=%q is not a substring of the match value %q", path, v.Str, val)
		}
		return ""
	}
	for k, e := range v.Map {
		if e == nil {
			return fmt.Sprintf("variable %s.%s is nil", path, k)
		}
		if s := varsSubstrings(e, val, path+"."+k); s != "" {
			return s
		}
	}
	return ""
}

func countVars(v *wire.Var) (strs int, maps int) {
	if v == nil {
		return
	}
	if !v.IsMap {
		return 1, 0
	}
	maps = 1
	for _, e := range v.Map {
		s, m := countVars(e)
		strs += s
		maps += m
	}
	return
}

// matchInvariants returns "" or a description of the first violated invariant.
func matchInvariants(text []byte, ms []wire.Match, am gen.Amount, checkCols bool) (string, string) {
	for i, m := range ms {
		if !(0 <= m.S && m.S < m.E && m.E <= len(text)) {
			return "bounds", fmt.Sprintf("match %d has offsets [%d,%d) on a text of %d bytes", i, m.S, m.E, len(text))
		}
		if !bytes.Equal(m.Val, text[m.S:m.E]) {
			return "value", fmt.Sprintf("match %d value %q != text[%d:%d] %q", i, m.Val, m.S, m.E, text[m.S:m.E])
		}
		if i > 0 {
			if m.S < ms[i-1].E {
				return "overlap-or-order", fmt.Sprintf("match %d [%d,%d) starts before the end of match %d [%d,%d)", i, m.S, m.E, i-1, ms[i-1].S, ms[i-1].E)
			}
			if m.Num != ms[i-1].Num+1 {
				return "numbering", fmt.Sprintf("match numbers %d then %d", ms[i-1].Num, m.Num)
			}
		} else {
			first := -1
			switch am.Kind {
			case "", "all", "take", "top":
				first = 1
			case "skip", "skiptake":
				first = am.Skip + 1
			}
			if first > 0 && m.Num != first {
				return "numbering", fmt.Sprintf("first match of `%s` is numbered %d, want %d", am.String(), m.Num, first)
			}
		}
		l1, c1 := lineCol(text, m.S)
		l2, c2 := lineCol(text, m.E)
		if m.L1 != l1 || m.L2 != l2 {
			return "line", fmt.Sprintf("match %d [%d,%d) lines %d-%d, want %d-%d", i, m.S, m.E, m.L1, m.L2, l1, l2)
		}
		if checkCols && (m.C1 != c1 || m.C2 != c2) {
			return "column", fmt.Sprintf("match %d [%d,%d) columns %d-%d, want %d-%d", i, m.S, m.E, m.C1, m.C2, c1, c2)
		}
		if s := varsSubstrings(m.Vars, m.Val, "vars"); s != "" {
			return "variable-not-substring", s
		}
	}
	return "", ""
}

func C03(r *drv.Run) {
	r.BuildWorker()
	n, ntext := 6000, 10
	if !quick(r) {
		n, ntext = 200000, 12
	}
	r.Rule = "programs from the union of all generators (core language, regex literals, named loops, whole line/word/file, every amount clause, replace commands) x multi-line inputs derived from the program (newline-heavy alphabet, \\r\\n, some non-ASCII). Oracle: invariants recomputed from the input text alone on every reported match: bounds, Value == text[Start:End], order/non-overlap, consecutive MatchNumber (first number fixed by the amount clause), 1-based Line and byte Column of both ends from a newline index (columns: ASCII texts only), every string variable - recursively through named-loop maps - a substring of Value. Non-trivial = run returned >= 1 match; distinct by (program, text)."
	r.Assumptions = []string{
		"single-command programs (results of several commands are concatenated; C13 covers that)",
		"column claim checked on ASCII texts only, as the property says",
	}
	r.Exec(n, drv.ExecOpts{Batch: 250}, func(i int) *drv.Item {
		rng := gen.Derive(r.Seed, "C03", i)
		p := gen.AnyProgram(rng, i)
		src := gen.RenderProgram(p)
		alpha := []byte("abc\n\n 1A_")
		if i%5 == 0 {
			alpha = append(alpha, '\r', 0xC3, 0xA9)
		}
		sm := gen.NewSampler(rng, p, alpha)
		texts := sm.Inputs(p.Commands[0].Body, ntext, maxLenFor(p, 16))
		// multi-line concatenations so that matches start on later lines and span newlines
		if len(texts) >= 3 {
			j := append(append(append([]byte{}, texts[0]...), '\n'), texts[1]...)
			j = append(append(j, '\n'), texts[2]...)
			if len(j) <= 20 {
				texts = append(texts, j)
			}
			k := append(append(append([]byte{}, texts[1]...), '\r', '\n'), texts[0]...)
			if len(k) <= 20 {
				texts = append(texts, k)
			}
		}
		c := wire.Case{Op: "run", Src: []byte(src), Texts: texts, StepBudget: 400000}
		am := p.Commands[0].Amount
		return &drv.Item{Case: c, Check: func(res *wire.Result) {
			if crashOrGuard(r, res, &c, src, false) {
				return
			}
			if compileTrouble(r, res, &c, src, false) {
				return
			}
			for ti, text := range texts {
				if ti >= len(res.Runs) {
					break
				}
				run := &res.Runs[ti]
				r.Eval(1)
				r.Count("runs_total", 1)
				if runTrouble(r, run, &c, src, text, false) {
					continue
				}
				ascii := isASCII(text)
				kind, msg := matchInvariants(text, run.Matches, am, ascii)
				if kind != "" {
					r.Violate(&drv.Violation{Sig: kind, Src: src, Text: string(text), Case: &c, Detail: map[string]any{"what": msg, "observed": fmtGot(run.Matches)}})
					continue
				}
				if len(run.Matches) > 0 {
					r.Nontrivial(src + "\x00" + string(text))
					r.Count("matches_checked", len(run.Matches))
					for _, m := range run.Matches {
						if m.L2 > m.L1 {
							r.Count("matches_spanning_newline", 1)
						}
						if m.L1 > 1 {
							r.Count("matches_starting_after_line_1", 1)
						}
						s, mp := countVars(m.Vars)
						r.Count("string_variables_checked", s)
						if mp > 1 {
							r.Count("matches_with_nested_variable_maps", 1)
						}
						if m.HasRepl {
							r.Count("replace_matches", 1)
						}
					}
					if ascii {
						r.Count("column_checked_runs", 1)
					}
					if am.Kind != "" && am.Kind != "all" {
						r.Count("amount_clause_runs_with_matches", 1)
					}
				}
			}
			r.Sample(map[string]any{"program": src, "text": string(texts[len(texts)-1])})
		}}
	})
	if r.NViolations() == 0 {
		expensiveFloor(r)
		for _, k := range []string{"matches_spanning_newline", "matches_starting_after_line_1", "string_variables_checked", "matches_with_nested_variable_maps", "replace_matches", "amount_clause_runs_with_matches"} {
			if r.Counter(k) == 0 {
				r.Inconclusive("coverage floor: " + k + " = 0")
			}
		}
	}
}
