package checks

import (
	"bytes"
	"fmt"
	"os"

	"verifharness/drv"
	"verifharness/gen"
	"verifharness/wire"
)

func init() { Registry["C03"] = C03 }

func isASCII(b []byte) bool {
	for _, c := range b {
		if c >= 0x80 {
			return false
		}
	}
	return true
}

// lineCol computes the 1-based line and byte column of an offset from the text alone.
func lineCol(text []byte, off int) (int, int) {
	line := 1 + bytes.Count(text[:off], []byte{'\n'})
	last := bytes.LastIndexByte(text[:off], '\n')
	return line, off - last
}

func varsSubstrings(v *wire.Var, val []byte, path string) string {
	if v == nil {
		return ""
	}
	if !v.IsMap {
		if !bytes.Contains(val, v.Str) {
			return fmt.Sprintf("variable %s=%q is not a substring of the match value %q", path, v.Str, val)
		}
		return ""
	}
	for k, e := range v.Map {
		if e == nil {
			return fmt.Sprintf("variable %s.%s is nil", path, k)
		}
		if s := varsSubstrings(e, val, path+"."+k); s != "" {
			return s
		}
	}
	return ""
}

func countVars(v *wire.Var) (strs int, maps int) {
	if v == nil {
		return
	}
	if !v.IsMap {
		return 1, 0
	}
	maps = 1
	for _, e := range v.Map {
		s, m := countVars(e)
		strs += s
		maps += m
	}
	return
}

// matchInvariants returns "" or a description of the first violated invariant.
func matchInvariants(text []byte, ms []wire.Match, am gen.Amount, checkCols bool) (string, string) {
	for i, m := range ms {
		if !(0 <= m.S && m.S < m.E && m.E <= len(text)) {
			return "bounds", fmt.Sprintf("match %d has offsets [%d,%d) on a text of %d bytes", i, m.S, m.E, len(text))
		}
		if !bytes.Equal(m.Val, text[m.S:m.E]) {
			return "value", fmt.Sprintf("match %d value %q != text[%d:%d] %q", i, m.Val, m.S, m.E, text[m.S:m.E])
		}
		if i > 0 {
			if m.S < ms[i-1].E {
				return "overlap-or-order", fmt.Sprintf("match %d [%d,%d) starts before the end of match %d [%d,%d)", i, m.S, m.E, i-1, ms[i-1].S, ms[i-1].E)
			}
			if m.Num != ms[i-1].Num+1 {
				return "numbering", fmt.Sprintf("match numbers %d then %d", ms[i-1].Num, m.Num)
			}
		} else {
			first := -1
			switch am.Kind {
			case "", "all", "take", "top":
				first = 1
			case "skip", "skiptake":
				first = am.Skip + 1
			}
			if first > 0 && m.Num != first {
				return "numbering", fmt.Sprintf("first match of `%s` is numbered %d, want %d", am.String(), m.Num, first)
			}
		}
		l1, c1 := lineCol(text, m.S)
		l2, c2 := lineCol(text, m.E)
		if m.L1 != l1 || m.L2 != l2 {
			return "line", fmt.Sprintf("match %d [%d,%d) lines %d-%d, want %d-%d", i, m.S, m.E, m.L1, m.L2, l1, l2)
		}
		if checkCols && (m.C1 != c1 || m.C2 != c2) {
			return "column", fmt.Sprintf("match %d [%d,%d) columns %d-%d, want %d-%d", i, m.S, m.E, m.C1, m.C2, c1, c2)
		}
		if s := varsSubstrings(m.Vars, m.Val, "vars"); s != "" {
			return "variable-not-substring", s
		}
	}
	return "", ""
}

func C03(r *drv.Run) {
	r.BuildWorker()
	if os.Getenv("VERIF_FAMILY") == "huge" {
		// debugging aid: the huge-text family alone (never set by a registered command)
		c03Huge(r)
		return
	}
	n, ntext := 6000, 10
	if !quick(r) {
		n, ntext = 200000, 12
	}
	r.Rule = "programs from the union of all generators (core language, regex literals, named loops, whole line/word/file, every amount clause, replace commands) x multi-line inputs derived from the program (newline-heavy alphabet, \\r\\n, some non-ASCII). Plus the exhaustive capture shapes of C02 (first alternatives that fail, abandoned iterations, named loops over inner loops) on all texts over {a,b} up to length 4, and its last-path shapes (an optional capture on the path tried last) on all texts over {a,b,c} up to length 4; plus linear-time programs over long inputs (thousands of short lines, single lines of 6 000 and 70 000 bytes, a text whose candidates are 3 000 .. 20 000 bytes and many lines apart, CR LF line ends, matches spanning newlines; offsets beyond 65 536, line numbers beyond 2 000, columns beyond 5 000; and three programs - among them `whole file`, one read of the whole input - on inputs of 1 MiB + 37, 2 MiB and 2 MiB + 600 bytes). The same invariants on what RunFiles reports for files on disk that begin with byte-order marks (UTF-8, UTF-16, half of one, two of them), an interpreter line, magic numbers, NUL bytes or an empty line, of sizes up to 9 000 bytes on both sides of 4 096. Characters whose code point ends in the byte of a line feed, carriage return, tab or blank (U+010A, U+4E0A, U+1F60A, U+010D ...) consumed whole by literals, negated literals, back-references, ranges and whole file/line, and skipped by the scan (32 programs x 13 texts). RunFiles searching file NAMES (third argument): six find programs over ten spellings of directory and file arguments - the searched text of a match is the name it reports as Filename. Thorough tier: two texts of 2^31 + 16 bytes (one single line; nothing but line feeds) taken whole by `find all whole file`: offsets, columns and line numbers beyond 32 bits, judged inside the worker. Oracle: invariants recomputed from the input text alone on every reported match: bounds, Value == text[Start:End], order/non-overlap, consecutive MatchNumber (first number fixed by the amount clause), 1-based Line and byte Column of both ends from a newline index (columns: ASCII texts only), every string variable - recursively through named-loop maps - a substring of Value. Non-trivial = run returned >= 1 match; distinct by (program, text)."
	r.Assumptions = []string{
		"single-command programs (results of several commands are concatenated; C13 covers that)",
		"column claim checked on ASCII texts only, as the property says",
	}
	r.Exec(n, drv.ExecOpts{Batch: 250}, func(i int) *drv.Item {
		rng := gen.Derive(r.Seed, "C03", i)
		p := gen.AnyProgram(rng, i)
		src := gen.RenderProgram(p)
		alpha := []byte("abc\n\n 1A_")
		if i%5 == 0 {
			alpha = append(alpha, '\r', 0xC3, 0xA9)
		}
		if i%7 == 3 {
			// CR-only line ends, NUL, form feed, vertical tab: none of them is a newline
			alpha = append(alpha, '\r', '\r', 0x00, 0x0c, 0x0b)
		}
		sm := gen.NewSampler(rng, p, alpha)
		texts := sm.Inputs(p.Commands[0].Body, ntext, maxLenFor(p, 16))
		// multi-line concatenations so that matches start on later lines and span newlines
		if len(texts) >= 3 {
			j := append(append(append([]byte{}, texts[0]...), '\n'), texts[1]...)
			j = append(append(j, '\n'), texts[2]...)
			if len(j) <= 20 {
				texts = append(texts, j)
			}
			k := append(append(append([]byte{}, texts[1]...), '\r', '\n'), texts[0]...)
			if len(k) <= 20 {
				texts = append(texts, k)
			}
		}
		if len(texts) > 0 && i%4 == 1 {
			// a byte-order mark in front, no newline at the end / a lone CR at the end
			texts = append(texts, append([]byte("\xEF\xBB\xBF"), texts[0]...), append(append([]byte{}, texts[len(texts)-1]...), '\r'))
		}
		c := wire.Case{Op: "run", Src: []byte(src), Texts: texts, StepBudget: 400000}
		am := p.Commands[0].Amount
		return &drv.Item{Case: c, Check: func(res *wire.Result) {
			if crashOrGuard(r, res, &c, src, false) {
				return
			}
			if compileTrouble(r, res, &c, src, false) {
				return
			}
			for ti, text := range texts {
				if ti >= len(res.Runs) {
					break
				}
				run := &res.Runs[ti]
				r.Eval(1)
				r.Count("runs_total", 1)
				if runTrouble(r, run, &c, src, text, false) {
					continue
				}
				ascii := isASCII(text)
				kind, msg := matchInvariants(text, run.Matches, am, ascii)
				if kind != "" {
					r.Violate(&drv.Violation{Sig: kind, Src: src, Text: string(text), Case: &c, Detail: map[string]any{"what": msg, "observed": fmtGot(run.Matches)}})
					continue
				}
				if len(run.Matches) > 0 {
					r.Nontrivial(src + "\x00" + string(text))
					r.Count("matches_checked", len(run.Matches))
					for _, m := range run.Matches {
						if m.L2 > m.L1 {
							r.Count("matches_spanning_newline", 1)
						}
						if m.L1 > 1 {
							r.Count("matches_starting_after_line_1", 1)
						}
						s, mp := countVars(m.Vars)
						r.Count("string_variables_checked", s)
						if mp > 1 {
							r.Count("matches_with_nested_variable_maps", 1)
						}
						if m.HasRepl {
							r.Count("replace_matches", 1)
						}
					}
					if ascii {
						r.Count("column_checked_runs", 1)
					}
					if am.Kind != "" && am.Kind != "all" {
						r.Count("amount_clause_runs_with_matches", 1)
					}
				}
			}
			r.Sample(map[string]any{"program": src, "text": string(texts[len(texts)-1])})
		}}
	})
	c03Long(r)
	c03Files(r)
	c03Runes(r)
	c03Names(r)
	if !quick(r) {
		c03Huge(r)
	}
	// the exhaustive capture shapes of C02 (captures in first alternatives that fail, in abandoned iterations, inside
	// named loops under inner loops) under C03's invariants: a binding that survives backtracking is often text
	// that is no part of the final match
	shapes := enumCaptureShapes()
	shapeTexts := allTexts("ab", 4)
	lp, lpTexts := lastPathShapes()
	nAB := len(shapes)
	shapes = append(shapes, lp...)
	r.Exec(len(shapes), drv.ExecOpts{Batch: 100}, func(i int) *drv.Item {
		if i < nAB && quick(r) && (uint64(i)+r.Seed)%2 != 0 {
			return nil
		}
		shapeTexts := shapeTexts
		if i >= nAB {
			shapeTexts = lpTexts
		}
		p := shapes[i]
		src := gen.RenderProgram(p)
		c := wire.Case{Op: "run", Src: []byte(src), Texts: shapeTexts, StepBudget: 150000}
		return &drv.Item{Case: c, Check: func(res *wire.Result) {
			if crashOrGuard(r, res, &c, src, false) || compileTrouble(r, res, &c, src, false) {
				return
			}
			for ti, text := range shapeTexts {
				if ti >= len(res.Runs) {
					break
				}
				run := &res.Runs[ti]
				r.Eval(1)
				if runTrouble(r, run, &c, src, text, false) {
					continue
				}
				kind, msg := matchInvariants(text, run.Matches, p.Commands[0].Amount, true)
				if kind != "" {
					r.Violate(&drv.Violation{Sig: "shape:" + kind, Src: src, Text: string(text), Case: &c, Detail: map[string]any{"what": msg, "observed": fmtGot(run.Matches)}})
					continue
				}
				if len(run.Matches) > 0 {
					r.Nontrivial(src + "\x00" + string(text))
					r.Count("capture_shape_runs_verified", 1)
				}
			}
		}}
	})
	if r.NViolations() == 0 {
		if r.MaxOf("largest_line_number") < 2000 || r.MaxOf("largest_column_number") < 5000 || r.MaxOf("largest_offset") < (1<<20) {
			r.Inconclusive("coverage floor: the long-input family did not reach line 2000 / column 5000 / offset 2^20")
		}
		expensiveFloor(r)
		for _, k := range []string{"matches_spanning_newline", "matches_starting_after_line_1", "string_variables_checked", "matches_with_nested_variable_maps", "replace_matches", "amount_clause_runs_with_matches"} {
			if r.Counter(k) == 0 {
				r.Inconclusive("coverage floor: " + k + " = 0")
			}
		}
	}
}

// c03Long: the same invariants where the counters are large: offsets beyond any buffer size, thousands of lines,
// columns in the thousands.
func c03Long(r *drv.Run) {
	progs := []struct {
		src string
		am  gen.Amount
	}{
		{"find all at least 1 digit", gen.Amount{Kind: "all"}},
		{"find all 'ab'", gen.Amount{Kind: "all"}},
		{"find all line start letter", gen.Amount{Kind: "all"}},
		{"find all letter line end", gen.Amount{Kind: "all"}},
		{"replace all digit with 'D'", gen.Amount{Kind: "all"}},
		{"find all @/[a-c]+\\n[a-c]+/", gen.Amount{Kind: "all"}},
		{"find all 'b' whitespace 'a'", gen.Amount{Kind: "all"}},
		{"find skip 700 take 40 in 'a' to 'c'", gen.Amount{Kind: "skiptake", Skip: 700, Take: 40}},
		{"find last 25 at least 1 letter", gen.Amount{Kind: "last", Last: 25}},
		{"find all (letter = first) at most 3 letter", gen.Amount{Kind: "all"}},
	}
	var texts [][]byte
	mk := func(seed int, lines int, minLen, maxLen int, eol string) []byte {
		rng := gen.Derive(r.Seed, "C03long", seed)
		alpha := []byte("abc ab12 b a")
		var b []byte
		for l := 0; l < lines; l++ {
			n := minLen
			if maxLen > minLen {
				n += rng.Intn(maxLen - minLen + 1)
			}
			for k := 0; k < n; k++ {
				b = append(b, alpha[rng.Intn(len(alpha))])
			}
			if l < lines-1 || rng.Bool() {
				b = append(b, eol...)
			}
		}
		return b
	}
	texts = append(texts, mk(0, 3000, 0, 12, "\n"), mk(1, 2500, 3, 30, "\r\n"), mk(2, 1, 6000, 6000, "\n"), mk(3, 3, 70000, 70000, "\n"), mk(4, 40, 1000, 4200, "\n"), mk(5, 5000, 0, 1, "\n"))
	// SPARSE candidates: stretches of 3 000 .. 20 000 bytes (many lines) that hold neither a digit nor a capital letter,
	// then one in the middle of a line - whatever a scan does to get across such a stretch, lines and columns stay right
	{
		rng := gen.Derive(r.Seed, "C03sparse", 0)
		var b []byte
		for _, gap := range []int{3000, 4095, 4096, 4097, 5000, 8192, 8193, 12288, 20000, 4096, 4096} {
			for g := 0; g < gap; g++ {
				if rng.Intn(37) == 0 {
					b = append(b, '\n')
				} else {
					b = append(b, "abc xyz"[rng.Intn(7)])
				}
			}
			b = append(b, "Qz7 ab"...)
		}
		for g := 0; g < 5000; g++ {
			b = append(b, "ab c\n"[rng.Intn(5)])
		}
		texts = append(texts, b)
	}
	progs = append(progs, struct {
		src string
		am  gen.Amount
	}{"find all 'Qz'", gen.Amount{Kind: "all"}}, struct {
		src string
		am  gen.Amount
	}{"replace all 'Q' with 'R' columnNumber", gen.Amount{Kind: "all"}}, struct {
		src string
		am  gen.Amount
	}{"find all 'z7 ' letter", gen.Amount{Kind: "all"}})
	// inputs beyond a mebibyte, for programs that take them in few steps (one read of the whole input) or linearly
	nSmall := len(progs)
	progs = append(progs, struct {
		src string
		am  gen.Amount
	}{"find all whole file", gen.Amount{Kind: "all"}}, struct {
		src string
		am  gen.Amount
	}{"replace all whole file with 'x' endOffset", gen.Amount{Kind: "all"}}, struct {
		src string
		am  gen.Amount
	}{"find all 'b' whitespace 'a'", gen.Amount{Kind: "all"}})
	bigTexts := [][]byte{mk(6, 1, (1<<20)+37, (1<<20)+37, "\n"), mk(7, 9000, 200, 260, "\n"), mk(8, 2, (1<<20)+300, (1<<20)+300, "\r\n")}
	r.Exec(len(progs), drv.ExecOpts{Batch: 1}, func(i int) *drv.Item {
		pr := progs[i]
		texts := texts
		if i >= nSmall {
			texts = bigTexts
		}
		c := wire.Case{Op: "run", Src: []byte(pr.src), Texts: texts, StepBudget: 100_000_000}
		return &drv.Item{Case: c, Check: func(res *wire.Result) {
			if crashOrGuard(r, res, &c, pr.src, false) {
				return
			}
			if compileTrouble(r, res, &c, pr.src, false) {
				return
			}
			for ti, text := range texts {
				if ti >= len(res.Runs) {
					break
				}
				run := &res.Runs[ti]
				r.Eval(1)
				if runTrouble(r, run, &c, pr.src, text[:min(len(text), 80)], false) {
					continue
				}
				kind, msg := matchInvariants(text, run.Matches, pr.am, true)
				if kind != "" {
					r.Violate(&drv.Violation{Sig: "long:" + kind, Src: pr.src, Text: fmt.Sprintf("(%d bytes)", len(text)), Case: &c, Detail: map[string]any{"what": msg, "text_index": ti, "matches": len(run.Matches)}})
					continue
				}
				r.Count("long_input_runs_verified", 1)
				if len(run.Matches) > 0 {
					r.Nontrivial(fmt.Sprintf("long|%s|%d", pr.src, ti))
					r.Count("matches_checked", len(run.Matches))
					last := run.Matches[len(run.Matches)-1]
					r.Max("largest_line_number", last.L2)
					r.Max("largest_offset", last.E)
					for _, m := range run.Matches {
						r.Max("largest_column_number", m.C2)
					}
				}
			}
		}}
	})
}
