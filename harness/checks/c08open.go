package checks

// c08Openers: sources that open like something else - every triple of punctuation characters, alone and in front of
// text without a line end; interpreter lines, byte-order marks, comment openers of other languages, directives,
// magic numbers - each with several continuations (nothing, blanks, line ends of every kind, a program on the same
// or the next line).
func c08Openers(add func(family, src string)) {
	punct := "!\"#$%&'()*+,-./:;<=>?@[\\]^_`{|}~"
	for a := 0; a < len(punct); a++ {
		for b := 0; b < len(punct); b++ {
			for c := 0; c < len(punct); c++ {
				t := string([]byte{punct[a], punct[b], punct[c]})
				add("punctuation-opener", t)
				add("punctuation-opener", t+"usr/bin/env vore -src")
			}
		}
	}
	for _, op := range []string{"#!", "#!/", "#!/usr/bin/vore", "#! /usr/bin/env vore", "\ufeff", "\ufeff#!/bin/vore", "\xff\xfe", "\xfe\xff", "<?xml version=\"1.0\"?>", "%!PS", "//", "/*", "/* c */",
		"#", "# c", ";", "; c", "@", "@echo off", "{", "<!--", "<!-- c -->", "REM", "rem x", "::", "'''", "\"\"\"", "=begin", "\x00", "\x1a", "\x04", "PK\x03\x04", "\x7fELF", "--", "--(", "--[[", "-- c"} {
		for _, tail := range []string{"", " ", "\n", "\r\n", "\r", "find all 'a'", "\nfind all 'a'", "\nfind all 'a'\n", " find all 'a'\n", "\n\n", "\x00", "\nfind all"} {
			add("foreign-opener", op+tail)
			add("foreign-opener", " "+op+tail)
		}
	}
}
