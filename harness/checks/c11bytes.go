package checks

import (
	"fmt"
	"strings"

	"verifharness/drv"
	"verifharness/proc"
	"verifharness/wire"
)

// c11Bytes: comparison and ordering operators on strings that come from the searched text - multi-byte characters,
// their head and tail (which are not valid UTF-8 on their own), lone continuation and lead bytes, 0xFE 0xFF. The
// documented table compares strings; the strings of this language are byte strings (head splits off one byte), so
// the order is the order of the bytes.
func c11Bytes(r *drv.Run) {
	pool := []string{"a", "b", "ab", "e", "z", "é", "è", "É", "éz", "\xc3", "\xd1", "\xa9", "\xc3\xa9z", "\xff", "\xfe\xff", "€", "\xe2\x82", "\xe2", "\xf0\x9f\x98\x80", "\xf0\x9f"}
	ops := []string{"<", ">", "<=", ">=", "==", "!="}
	a, b := proc.EVar{Name: "a"}, proc.EVar{Name: "b"}
	un := func(op string, x proc.Expr) proc.Expr { return proc.EUn{Op: op, X: x} }
	shapes := []struct {
		name string
		l, r proc.Expr
	}{
		{"a?b", a, b}, {"head a?a", un("head", a), a}, {"tail a?head b", un("tail", a), un("head", b)}, {"head a?head b", un("head", a), un("head", b)},
		{"a?'é'", a, proc.EStr{V: "é"}}, {"head b?tail b", un("head", b), un("tail", b)}, {"tail a?tail b", un("tail", a), un("tail", b)},
	}
	var exprs []proc.Expr
	var labels []string
	var sb strings.Builder
	var with []string
	for _, sh := range shapes {
		for _, op := range ops {
			e := proc.EBin{Op: op, L: sh.l, R: sh.r}
			k := len(exprs)
			exprs = append(exprs, e)
			labels = append(labels, strings.Replace(sh.name, "?", " "+op+" ", 1))
			fmt.Fprintf(&sb, "set f%d to transform if %s then return 'T' else return 'F' end end\n", k, proc.Render(e, false))
			with = append(with, fmt.Sprintf("f%d", k))
		}
	}
	sb.WriteString("replace all ((at least 1 not whitespace) = a) ' ' ((at least 1 not whitespace) = b) with " + strings.Join(with, " "))
	src := sb.String()
	var texts [][]byte
	type pair struct{ a, b string }
	var pairs []pair
	for _, x := range pool {
		for _, y := range pool {
			texts = append(texts, []byte(x+" "+y))
			pairs = append(pairs, pair{x, y})
		}
	}
	nb := 8
	per := (len(texts) + nb - 1) / nb
	r.Exec(nb, drv.ExecOpts{Batch: 1}, func(i int) *drv.Item {
		lo, hi := i*per, min((i+1)*per, len(texts))
		c := wire.Case{Op: "run", Src: []byte(src), Texts: texts[lo:hi], StepBudget: 2_000_000}
		return &drv.Item{Case: c, Check: func(res *wire.Result) {
			if crashOrGuard(r, res, &c, src, false) {
				return
			}
			if res.Compile == nil || !res.Compile.OK {
				msg := ""
				if res.Compile != nil {
					msg = res.Compile.Err
				}
				r.Inconclusive("byte-string comparison program rejected: " + oneLineN(msg, 120))
				return
			}
			for ti := range res.Runs {
				run := &res.Runs[ti]
				pr := pairs[lo+ti]
				text := string(texts[lo+ti])
				if run.Panic != nil {
					r.Violate(&drv.Violation{Sig: "run-panic:" + run.Panic.Frame, Panic: run.Panic.Msg, Frame: run.Panic.Frame, Src: src, Text: text, Case: &c})
					return
				}
				if run.Budget != "" || len(run.Matches) != 1 {
					r.Count("byte_string_texts_not_judged", 1)
					continue
				}
				m := &run.Matches[0]
				vars := flatVars(m.Vars)
				if vars["a"] != pr.a || vars["b"] != pr.b {
					// (how `not whitespace` walks over bytes that are no characters is C01's business)
					r.Count("byte_string_texts_not_judged", 1)
					continue
				}
				env := proc.Env{"a": proc.Str(pr.a), "b": proc.Str(pr.b), "match": proc.Str(text), "matchLength": proc.Num(len(text))}
				want := make([]byte, len(exprs))
				for k, e := range exprs {
					v, ok := proc.Eval(e, env)
					want[k] = 'F'
					if ok && v.AsBool() {
						want[k] = 'T'
					}
				}
				got := string(m.Repl)
				r.Eval(len(exprs))
				if got != string(want) {
					k := 0
					for k < len(want) && k < len(got) && got[k] == want[k] {
						k++
					}
					lbl := "result string of another length"
					if k < len(labels) {
						lbl = labels[k]
					}
					r.Violate(&drv.Violation{Sig: "value:string-comparison-on-bytes-of-the-text", Src: src, Text: fmt.Sprintf("%q", text), Case: &c,
						Detail: map[string]any{"a": fmt.Sprintf("%q", pr.a), "b": fmt.Sprintf("%q", pr.b), "first_differing_expression": lbl, "expected": string(want), "observed": got}})
					return
				}
				r.Count("byte_string_comparisons_verified", len(exprs))
				r.Nontrivial("bytes|" + text)
			}
		}}
	})
	if r.NViolations() == 0 && r.Counter("byte_string_comparisons_verified") < 5000 {
		r.Inconclusive(fmt.Sprintf("coverage floor: byte_string_comparisons_verified = %d", r.Counter("byte_string_comparisons_verified")))
	}
}
