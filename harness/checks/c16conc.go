package checks

import (
	"fmt"
	"strings"
	"sync"

	"verifharness/drv"
	"verifharness/wire"
)

// c16Conc: sixteen goroutines compile literals made of hundreds of hex escapes at the same time, each its own letter,
// and search its own text: what a literal denotes does not depend on what another compilation is lexing at that moment.
// Every call is compared with the same call made alone (sequential history in another worker process).
func c16Conc(r *drv.Run) {
	letters := "ABCDEFGHabcdefgh"
	var srcs, texts [][]byte
	for _, c := range []byte(letters) {
		srcs = append(srcs, []byte("find all '"+strings.Repeat(fmt.Sprintf("\\x%02x", c), 150)+"' \""+strings.Repeat(fmt.Sprintf("\\x%02X", c), 150)+"\""))
		texts = append(texts, []byte(strings.Repeat(string([]byte{c}), 300)+" "+strings.Repeat(string([]byte{c ^ 0x01}), 300)))
	}
	var calls []wire.Call
	for g := range srcs {
		calls = append(calls, wire.Call{Kind: "compile+run", Prog: g, Text: g, G: g}, wire.Call{Kind: "compile", Prog: g, G: g}, wire.Call{Kind: "compile+run", Prog: g, Text: (g + 1) % len(texts), G: g})
	}
	seq := map[string]string{}
	var mu sync.Mutex
	key := func(c wire.Call) string { return fmt.Sprintf("%s/%d/%d", c.Kind, c.Prog, c.Text) }
	r.Exec(1, drv.ExecOpts{Batch: 1}, func(i int) *drv.Item {
		c := wire.Case{Op: "hist", Srcs: srcs, Texts: texts, Calls: calls}
		return &drv.Item{Case: c, Check: func(res *wire.Result) {
			if res.Died || res.Panic != nil || len(res.Calls) != len(calls) {
				r.Inconclusive("sequential reference history failed")
				return
			}
			mu.Lock()
			for _, cl := range res.Calls {
				seq[key(cl)] = cl.Digest
			}
			mu.Unlock()
		}}
	})
	rounds := 6
	if !quick(r) {
		rounds = 60
	}
	r.Exec(rounds, drv.ExecOpts{Batch: 2}, func(i int) *drv.Item {
		c := wire.Case{Op: "conc", Srcs: srcs, Texts: texts, Calls: calls, Goroutines: len(srcs), Rounds: 25}
		return &drv.Item{Case: c, Check: func(res *wire.Result) {
			r.Eval(len(res.Calls))
			if res.Died || res.Panic != nil {
				r.Violate(&drv.Violation{Sig: "concurrent-compilations-crashed:" + classifyFatal(res.Stderr), Panic: firstLines(res.Stderr, 3), Case: &c})
				return
			}
			for _, cl := range res.Calls {
				want, ok := seq[key(cl)]
				if !ok {
					continue
				}
				if cl.Panic != "" || cl.Digest != want {
					r.Violate(&drv.Violation{Sig: "literal-denotes-something-else-under-concurrent-compilation", Src: oneLineN(string(srcs[cl.Prog]), 80), Case: &c,
						Detail: map[string]any{"call": cl.Kind, "sequential_digest": want, "concurrent_digest": cl.Digest, "note": cl.Panic}})
					return
				}
				r.Count("concurrent_compilations_of_hex_literals_verified", 1)
			}
		}}
	})
	if r.NViolations() == 0 && r.Counter("concurrent_compilations_of_hex_literals_verified") == 0 {
		r.Inconclusive("coverage floor: concurrent_compilations_of_hex_literals_verified = 0")
	}
}
