package checks

import (
	"fmt"
	"os"
	"path/filepath"

	"verifharness/drv"
	"verifharness/wire"
)

// c09Many: many files in one call and many calls in one process, in a process that may hold 256 file descriptors at
// a time (a common default; 1024 is another): the 257th file is a file like the first. Also an empty file and a
// sub-directory among them, several commands per source (every command visits every file), every mode.
func c09Many(r *drv.Run, filesDir string) {
	type job struct {
		name   string
		src    string
		mode   string
		nfiles int
		asDir  bool
		rounds int
	}
	var jobs []job
	for _, mode := range []string{"NOTHING", "NEW", "OVERWRITE"} {
		jobs = append(jobs,
			job{"find:" + mode, "find all 'ab'", mode, 700, false, 1},
			job{"replace:" + mode, "replace all 'ab' with 'X'", mode, 700, false, 1},
			job{"three-commands:" + mode, "set p to pattern 'a' 'b'\nfind all p\nreplace all digit with '#'\nfind all '#'", mode, 300, false, 1})
	}
	jobs = append(jobs,
		job{"directory-argument", "find all 'ab'", "NOTHING", 700, true, 1},
		job{"directory-argument-replace", "replace all 'ab' with 'abab'", "NEW", 400, true, 1},
		job{"many-calls-find", "find all 'ab'", "NOTHING", 2, false, 600},
		job{"many-calls-replace-overwrite", "replace all 'ab' with 'ba'", "OVERWRITE", 2, false, 600},
		job{"many-calls-empty-file", "find all 'ab'", "NOTHING", 0, false, 600},
		job{"definitions-only", "set p to pattern 'a'\nset q to pattern p 'b'", "NOTHING", 700, false, 1})
	r.Exec(len(jobs), drv.ExecOpts{Batch: 1}, func(i int) *drv.Item {
		jb := jobs[i]
		dir := filepath.Join(filesDir, fmt.Sprintf("many%d", i))
		os.MkdirAll(filepath.Join(dir, "zsub"), 0o755)
		os.WriteFile(filepath.Join(dir, "zsub", "inner.txt"), []byte("ab"), 0o644)
		var paths []string
		for k := 0; k < jb.nfiles; k++ {
			p := filepath.Join(dir, fmt.Sprintf("f%04d.txt", k))
			os.WriteFile(p, []byte(fmt.Sprintf("ab %d ab\n", k)), 0o644)
			paths = append(paths, p)
		}
		e := filepath.Join(dir, "empty.txt")
		os.WriteFile(e, nil, 0o644)
		paths = append(paths, e)
		if jb.asDir {
			paths = []string{dir + "/"}
		}
		c := wire.Case{Op: "runfiles", Src: []byte(jb.src), Files: paths, Mode: jb.mode, StepBudget: 50_000_000, FdLimit: 256, Rounds: jb.rounds}
		return &drv.Item{Case: c, Check: func(res *wire.Result) {
			defer os.RemoveAll(dir)
			r.Eval(1)
			if res.Died {
				if res.Guard == "wall" {
					r.Inconclusive("wall-clock watchdog fired")
					return
				}
				sig := "worker-died:" + classifyFatal(res.Stderr)
				if res.Guard != "" {
					sig = "guard-" + res.Guard
				}
				r.Violate(&drv.Violation{Sig: "many-files:" + sig, Panic: firstLines(res.Stderr, 2), Src: jb.src, Case: &c, Detail: map[string]any{"job": jb.name}})
				return
			}
			if res.Panic != nil {
				r.Violate(&drv.Violation{Sig: "panic:" + res.Panic.Frame, Panic: res.Panic.Msg, Frame: res.Panic.Frame, Src: jb.src, Case: &c, Detail: map[string]any{"job": jb.name}})
				return
			}
			if res.Compile == nil || !res.Compile.OK || len(res.Runs) < 1 {
				r.Inconclusive("fixed program rejected: " + jb.src)
				return
			}
			run := &res.Runs[0]
			if run.Panic != nil {
				r.Violate(&drv.Violation{Sig: "run-panic:" + run.Panic.Frame, Panic: run.Panic.Msg, Frame: run.Panic.Frame, Src: jb.src, Case: &c,
					Detail: map[string]any{"job": jb.name, "files_in_the_call": len(paths), "calls": jb.rounds, "descriptor_limit": 256, "descriptors_before": res.Counters["fds_before"], "descriptors_after": res.Counters["fds_after"]}})
				return
			}
			if run.Budget != "" {
				r.Count("skipped_expensive", 1)
				return
			}
			r.Count("calls_over_hundreds_of_files_or_hundreds_of_calls", 1)
			r.Max("descriptors_held_after_a_call", res.Counters["fds_after"]-res.Counters["fds_before"])
			r.Nontrivial("many|" + jb.name)
		}}
	})
	if r.NViolations() == 0 && r.Counter("calls_over_hundreds_of_files_or_hundreds_of_calls") == 0 {
		r.Inconclusive("coverage floor: calls_over_hundreds_of_files_or_hundreds_of_calls = 0")
	}
}
