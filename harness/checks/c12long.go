package checks

import (
	"fmt"

	"verifharness/drv"
	"verifharness/proc"
	"verifharness/wire"
)

// c12Long: LONG definitions - one transform or predicate of 10 .. 30 000 flat statements, none nested more than two
// levels: the typing verdict of a definition does not depend on how long it is. Shapes: a lookup table of
// `if match == '..' then return '..' end` lines, flat assignments, debug lines, a long + chain per statement; with and
// without one ill-typed statement at the very end.
func c12Long(r *drv.Run) {
	type job struct {
		shape  string
		n      int
		pred   bool
		poison bool
	}
	var jobs []job
	ns := []int{10, 1000, 3400, 5000, 12000}
	if !quick(r) {
		ns = append(ns, 30000)
	}
	for _, shape := range []string{"table", "assignments", "debug", "chains"} {
		for _, n := range ns {
			if shape == "chains" && n > 5000 {
				continue
			}
			for _, pred := range []bool{false, true} {
				jobs = append(jobs, job{shape, n, pred, false})
			}
			jobs = append(jobs, job{shape, n, false, true})
		}
	}
	r.Exec(len(jobs), drv.ExecOpts{Batch: 2}, func(i int) *drv.Item {
		jb := jobs[i]
		var ss []proc.Stmt
		ret := func(v string) proc.Stmt {
			if jb.pred {
				return proc.SReturn{X: proc.EBool{V: len(v)%2 == 0}}
			}
			return proc.SReturn{X: proc.EStr{V: v}}
		}
		for k := 0; k < jb.n; k++ {
			switch jb.shape {
			case "table":
				ss = append(ss, proc.SIf{Cond: proc.EBin{Op: "==", L: proc.EVar{Name: "match"}, R: proc.EStr{V: fmt.Sprintf("%04d", k)}}, Then: []proc.Stmt{ret(fmt.Sprintf("v%d", k))}})
			case "assignments":
				ss = append(ss, proc.SSet{Name: "n1", X: proc.ENum{V: k % 7}})
			case "debug":
				ss = append(ss, proc.SDebug{X: proc.EBin{Op: "+", L: proc.EVar{Name: "matchLength"}, R: proc.ENum{V: k}}})
			case "chains":
				var e proc.Expr = proc.ENum{V: k}
				for q := 0; q < 6; q++ {
					e = proc.EBin{Op: "+", L: e, R: proc.ENum{V: q}}
				}
				ss = append(ss, proc.SSet{Name: "n2", X: e})
			}
		}
		if jb.poison {
			// one ill-typed statement at the very end: head of a number
			ss = append(ss, proc.SSet{Name: "s9", X: proc.EUn{Op: "head", X: proc.ENum{V: 5}}})
		}
		ss = append(ss, ret("end"))
		cs := &c12Case{stmts: ss, transform: !jb.pred, label: fmt.Sprintf("long-definition:%s:%d", jb.shape, jb.n)}
		src := c12Source(cs, false)
		if jb.shape == "debug" {
			// (never run: thousands of lines of debug output)
			cs.runnable = false
		}
		c := wire.Case{Op: "compile", Src: []byte(src)}
		return &drv.Item{Case: c, Check: func(res *wire.Result) {
			before := r.NViolations()
			c12Check(r, cs, oneLineN(src, 300), &c, res)
			if r.NViolations() == before && res.Compile != nil {
				r.Count("long_definitions_judged", 1)
				r.Max("statements_in_the_longest_definition_judged", jb.n)
			}
		}}
	})
	if r.NViolations() == 0 && r.Counter("long_definitions_judged") == 0 {
		r.Inconclusive("coverage floor: long_definitions_judged = 0")
	}
}
