package checks

import (
	"verifharness/drv"
	"verifharness/gen"
	"verifharness/wire"
)

// c01Anchors: every anchor (line / file / word start and end), plain and negated, in eight small shapes - behind and
// in front of a letter and of `any`, behind a lazy run that starts at a line start, behind a greedy run, between two
// letters - on EVERY text over {x, CR, LF, blank} up to length 5: line ends written LF, CR LF and a lone CR, at the
// start, in the middle and as the very last bytes of the input, with and without a last line end.
func c01Anchors(r *drv.Run) {
	x := gen.Lit{S: "x"}
	anyc := gen.Class{Kind: "any"}
	lazyRun := gen.Loop{Min: 1, Max: -1, Form: "atleast", Lazy: true, Body: anyc}
	greedyRun := gen.Loop{Min: 0, Max: -1, Form: "atleast", Body: anyc}
	var progs []*gen.Program
	for _, k := range []string{"linestart", "lineend", "filestart", "fileend", "wordstart", "wordend"} {
		for _, not := range []bool{false, true} {
			a := gen.Anchor{Kind: k, Not: not}
			for _, body := range [][]gen.Node{
				{x, a}, {a, x}, {anyc, a}, {a, anyc},
				{gen.Anchor{Kind: "linestart"}, lazyRun, a},
				{greedyRun, a, anyc},
				{x, a, anyc, x},
				{gen.Loop{Min: 1, Max: -1, Form: "atleast", Body: gen.Seq{Items: []gen.Node{anyc, a}}}},
			} {
				progs = append(progs, &gen.Program{Commands: []gen.Command{{Amount: gen.Amount{Kind: "all"}, Body: body}}})
			}
		}
	}
	texts := allTexts("x\r\n ", 5)[1:]
	r.Exec(len(progs), drv.ExecOpts{Batch: 4}, func(i int) *drv.Item {
		if quick(r) && i%8 >= 6 && (uint64(i/8)+r.Seed)%2 == 0 {
			return nil // quick: the two heaviest shapes for half of the anchors, chosen by seed
		}
		cs := &c01Case{prog: progs[i], src: gen.RenderProgram(progs[i]), texts: texts}
		sc := regexScanner(cs)
		return &drv.Item{Case: wire.Case{Op: "run", Src: []byte(cs.src), Texts: cs.texts, StepBudget: 400000},
			Check: func(res *wire.Result) {
				r.Count("anchor_programs_on_every_text_over_x_cr_lf_blank", 1)
				checkSpansCase(r, cs, res, sc, "anchors:")
			}}
	})
}
