package checks

import (
	"fmt"
	"regexp"

	"verifharness/drv"
	"verifharness/wire"
)

// c02Printed: a name that is bound by a capture and then taken over by a named loop holds the loop's map, not text: a
// back-reference to it matches nothing - in particular not the way such a value PRINTS ("[ValueHashMap]", "map[]",
// "<nil>", "{}" ...), which the texts hold right where the back-reference stands.
func c02Printed(r *drv.Run) {
	printed := []string{"[ValueHashMap]", "map[]", "map[0:map[]]", "<nil>", "{}", "[]", "%!s(<nil>)", "ValueHashMap", "[ValueString]", "1", "a"}
	var texts [][]byte
	for _, p := range printed {
		texts = append(texts, []byte("a1"+p+" b22"+p+p+" c"), []byte("a12 "+p))
	}
	letDig := regexp.MustCompile(`[A-Za-z][0-9]+`)
	progs := []struct {
		src  string
		want func(t []byte) [][]int
	}{
		{"find all (letter = x) (at least 1 digit named x) x", func(t []byte) [][]int { return nil }},
		{"find all (letter = x) (at least 1 digit named x) maybe x", func(t []byte) [][]int { return letDig.FindAllIndex(t, -1) }},
		{"find all @/(?<L>[a-z])/ at least 1 (digit) named L maybe L", func(t []byte) [][]int { return regexp.MustCompile(`[a-z][0-9]+`).FindAllIndex(t, -1) }},
	}
	r.Exec(len(progs), drv.ExecOpts{Batch: 1}, func(i int) *drv.Item {
		pr := progs[i]
		c := wire.Case{Op: "run", Src: []byte(pr.src), Texts: texts, StepBudget: 400000}
		return &drv.Item{Case: c, Check: func(res *wire.Result) {
			if crashOrGuard(r, res, &c, pr.src, false) {
				return
			}
			if res.Compile == nil || !res.Compile.OK {
				// a name bound twice may be refused: then there is nothing to run
				r.Count("name_reuse_programs_rejected", 1)
				return
			}
			for ti, text := range texts {
				if ti >= len(res.Runs) {
					break
				}
				run := &res.Runs[ti]
				r.Eval(1)
				if runTrouble(r, run, &c, pr.src, text, false) {
					continue
				}
				var got [][]int
				for _, m := range run.Matches {
					got = append(got, []int{m.S, m.E})
				}
				if want := pr.want(text); fmt.Sprint(got) != fmt.Sprint(want) {
					r.Violate(&drv.Violation{Sig: "back-reference-to-a-loop-map-matched-something", Src: pr.src, Text: string(text), Case: &c,
						Detail: map[string]any{"expected_spans": fmt.Sprint(want), "observed_spans": fmt.Sprint(got)}})
					return
				}
				r.Count("runs_over_printed_forms_verified", 1)
			}
		}}
	})
	if r.NViolations() == 0 && r.Counter("runs_over_printed_forms_verified") == 0 {
		r.Inconclusive("coverage floor: runs_over_printed_forms_verified = 0 (every name-reuse program rejected?)")
	}
}
