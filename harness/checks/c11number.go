package checks

import (
	"fmt"
	"strings"

	"verifharness/drv"
	"verifharness/proc"
	"verifharness/wire"
)

// c11MatchNumber: the built-in matchNumber inside transforms. The checker does not know the name (an unassigned name,
// hence a string for it), at run time it holds a NUMBER: every expression the checker lets through is evaluated with
// the operator rows of the values that are there - head and tail take the decimal form of a number, + adds two
// numbers, a string on either side makes + a concatenation - for the first, second and third match.
func c11MatchNumber(r *drv.Run) {
	mn := proc.EVar{Name: "matchNumber"}
	un := func(op string, x proc.Expr) proc.Expr { return proc.EUn{Op: op, X: x} }
	bin := func(op string, l, rr proc.Expr) proc.Expr { return proc.EBin{Op: op, L: l, R: rr} }
	others := []proc.Expr{proc.ENum{V: 1}, proc.ENum{V: 9}, proc.ENum{V: 12}, proc.EStr{V: "a"}, proc.EStr{V: "7"}, proc.EStr{V: ""}, proc.EBool{V: true}, proc.EVar{Name: "matchLength"}, proc.EVar{Name: "match"}, mn}
	var exprs []proc.Expr
	for _, op := range unOps {
		exprs = append(exprs, un(op, mn))
	}
	for _, op := range binOps {
		for _, o := range others {
			exprs = append(exprs, bin(op, mn, o), bin(op, o, mn))
		}
	}
	exprs = append(exprs, un("tail", bin("+", mn, proc.ENum{V: 9})), un("head", bin("+", mn, proc.ENum{V: 9})), un("head", un("tail", bin("+", mn, proc.ENum{V: 120}))),
		un("tail", bin("+", bin("+", proc.EStr{V: ""}, mn), proc.EStr{V: "7"})), bin("+", un("head", mn), un("tail", mn)), un("tail", bin("*", mn, proc.ENum{V: 11})),
		bin("==", un("head", mn), proc.ENum{V: 1}), bin("+", un("tail", bin("+", mn, proc.ENum{V: 99})), mn))
	tenv := proc.TypeEnv{"match": proc.TStr, "matchLength": proc.TNum}
	text := "5 6 7 8 9 1 2 3 4 5 6 7" // twelve matches: matchNumber reaches two digits
	var keep []proc.Expr
	for _, e := range exprs {
		if proc.TypeOf(e, tenv) == proc.TErr {
			continue
		}
		okv := true
		for n := 1; n <= 12; n++ {
			if _, ok := proc.Eval(e, proc.Env{"matchNumber": proc.Num(n), "match": proc.Str("5"), "matchLength": proc.Num(1)}); !ok {
				okv = false
			}
		}
		if okv {
			keep = append(keep, e)
		}
	}
	per := 8
	nprog := (len(keep) + per - 1) / per
	r.Exec(nprog, drv.ExecOpts{Batch: 8}, func(i int) *drv.Item {
		ex := keep[i*per : min(len(keep), (i+1)*per)]
		var sb strings.Builder
		var with []string
		for k, e := range ex {
			src := proc.Render(e, k%2 == 0)
			if proc.TypeOf(e, tenv) == proc.TBool {
				fmt.Fprintf(&sb, "set f%d to transform if %s then return 'T' else return 'F' end end\n", k, src)
			} else {
				fmt.Fprintf(&sb, "set f%d to transform return %s end\n", k, src)
			}
			with = append(with, fmt.Sprintf("f%d", k))
		}
		sb.WriteString("replace all digit with " + strings.Join(with, " '|' "))
		src := sb.String()
		c := wire.Case{Op: "run", Src: []byte(src), Texts: [][]byte{[]byte(text)}, StepBudget: 200000}
		return &drv.Item{Case: c, Check: func(res *wire.Result) {
			if crashOrGuard(r, res, &c, src, false) {
				return
			}
			if res.Compile == nil || !res.Compile.OK {
				msg := ""
				if res.Compile != nil {
					msg = res.Compile.Err
				}
				r.Inconclusive("an expression over matchNumber typed by the documented table was rejected: " + oneLineN(msg, 120) + " | " + oneLineN(src, 300))
				return
			}
			if len(res.Runs) < 1 {
				return
			}
			run := &res.Runs[0]
			if run.Panic != nil {
				r.Violate(&drv.Violation{Sig: "run-panic:" + run.Panic.Frame, Panic: run.Panic.Msg, Frame: run.Panic.Frame, Src: src, Text: text, Case: &c})
				return
			}
			if len(run.Matches) != 12 {
				r.Inconclusive("matchNumber family: not twelve matches")
				return
			}
			for mi := range run.Matches {
				m := &run.Matches[mi]
				env := proc.Env{"matchNumber": proc.Num(m.Num), "match": proc.Str(string(m.Val)), "matchLength": proc.Num(len(m.Val))}
				var parts []string
				for _, e := range ex {
					v, _ := proc.Eval(e, env)
					if proc.TypeOf(e, tenv) == proc.TBool {
						if v.AsBool() {
							parts = append(parts, "T")
						} else {
							parts = append(parts, "F")
						}
					} else {
						parts = append(parts, v.AsString())
					}
				}
				r.Eval(len(ex))
				if want, got := strings.Join(parts, "|"), string(m.Repl); got != want {
					gp := strings.Split(got, "|")
					lbl := "?"
					for k := range parts {
						if k >= len(gp) || gp[k] != parts[k] {
							lbl = proc.Render(ex[k], false)
							break
						}
					}
					r.Violate(&drv.Violation{Sig: "value:matchNumber-expression", Src: src, Text: text, Case: &c,
						Detail: map[string]any{"match_number": m.Num, "first_differing_expression": lbl, "expected": want, "observed": got}})
					return
				}
			}
			r.Count("matchNumber_expressions_verified", len(ex))
			r.Nontrivial(fmt.Sprintf("mn|%d", i))
		}}
	})
	if r.NViolations() == 0 && r.Counter("matchNumber_expressions_verified") == 0 {
		r.Inconclusive("coverage floor: matchNumber_expressions_verified = 0")
	}
}
