package checks

import (
	"fmt"
	"os"
	"path/filepath"

	"verifharness/drv"
	"verifharness/wire"
)

// c07Sparse: files beyond 2^31 and 2^32 bytes - offsets that no longer fit 32 bits. The files are sparse (written only
// in 8 KiB pieces around a few places: the start, 2^31, 2^32, 2^32 + 2^31, 2^33, the end), so they cost no disk and
// cannot be held in memory; a seek/read history that jumps between those places is compared, read by read, with what
// the operating system returns for the same place through a descriptor of its own (pread).
func c07Sparse(r *drv.Run) {
	type spec struct {
		size   int64
		places []int64
	}
	specs := []spec{
		{1<<32 + 8292, []int64{0, 100, 1 << 31, 1 << 32, 1<<32 + 100, 1<<32 + 4196}},
		{1<<33 + 12345, []int64{0, 4096, 1 << 31, 1 << 32, 1<<32 + 4096, 1<<32 + 1<<31, 1 << 33, 1<<33 + 8192}},
		{3<<30 + 17, []int64{0, 1 << 30, 1 << 31, 1<<31 + 2048, 3 << 30}},
	}
	dir := filepath.Join(r.WorkDir, "c07sparse")
	os.MkdirAll(dir, 0o755)
	defer os.RemoveAll(dir)
	var paths []string
	for k, sp := range specs {
		p := filepath.Join(dir, fmt.Sprintf("sparse%d.dat", k))
		f, err := os.Create(p)
		if err != nil {
			r.Inconclusive("cannot create a sparse scratch file")
			return
		}
		if err := f.Truncate(sp.size); err != nil {
			f.Close()
			r.Count("sparse_files_not_supported_here", 1)
			return // a file system without large or sparse files: nothing to observe
		}
		for pi, pl := range append(sp.places, sp.size-4096) {
			lo := pl - 4096
			if lo < 0 {
				lo = 0
			}
			hi := pl + 4096
			if hi > sp.size {
				hi = sp.size
			}
			b := make([]byte, hi-lo)
			for j := range b {
				// every place has bytes of its own, and every byte says where in its place it is
				b[j] = "abcdefghijklmnopqrstuvwxyz0123456789 \n"[(int(lo)+j*7+pi*11+j/38)%38]
			}
			f.WriteAt(b, lo)
		}
		f.Close()
		paths = append(paths, p)
	}
	nops := 4000
	if !quick(r) {
		nops = 60000
	}
	r.Exec(len(paths), drv.ExecOpts{Batch: 1}, func(i int) *drv.Item {
		sp := specs[i]
		c := wire.Case{Op: "readerbig", Path: paths[i], Offsets: append(append([]int64{}, sp.places...), sp.size-10, sp.size), Ops: nops, Seed: r.Seed*131 + uint64(i)}
		return &drv.Item{Case: c, Check: func(res *wire.Result) {
			r.Eval(1)
			if res.Died || res.Panic != nil {
				msg, frame := firstLines(res.Stderr, 3), ""
				if res.Panic != nil {
					msg, frame = res.Panic.Msg, res.Panic.Frame
				}
				r.Violate(&drv.Violation{Sig: "reader-crashed:" + frame, Panic: msg, Frame: frame, Case: &c, Detail: map[string]any{"size": sp.size}})
				return
			}
			if res.Mismatch != "" {
				r.Violate(&drv.Violation{Sig: "reader-returned-wrong-bytes:file-beyond-2^31-bytes", Case: &c, Detail: map[string]any{"size": sp.size, "what": res.Mismatch}})
				return
			}
			r.Count("sparse_file_reader_histories_verified", 1)
			r.Count("reads_at_offsets_beyond_2^32", res.Counters["reads_beyond_4GiB"])
			r.Count("reads_at_offsets_between_2^31_and_2^32", res.Counters["reads_beyond_2GiB"])
			r.Nontrivial(fmt.Sprintf("sparsereader|%d", sp.size))
		}}
	})
	if r.NViolations() == 0 && r.Counter("sparse_files_not_supported_here") == 0 && r.Counter("reads_at_offsets_beyond_2^32") == 0 {
		r.Inconclusive("coverage floor: reads_at_offsets_beyond_2^32 = 0")
	}
}
