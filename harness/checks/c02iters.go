package checks

import (
	"fmt"
	"strconv"
	"strings"

	"verifharness/drv"
	"verifharness/wire"
)

// c02ManyIterations (thorough tier): ONE named loop of 10 052 iterations (past 10 000; about three CPU-minutes - the
// VM copies every iteration map on every step), an optional capture bound in eight of them (iterations 10, 999,
// 1 000, 5 000, 9 999, 10 000, 10 005, 10 040): the map of the loop has one entry per arrival at the loop head, keyed 0 .. n (as the reference matcher models it), and
// exactly those eight hold the binding. A second text stops at 1 100 iterations (past 1 000; seconds).
func c02ManyIterations(r *drv.Run) {
	type job struct {
		n    int
		with []int
	}
	jobs := []job{
		{1100, []int{9, 10, 99, 100, 999, 1000, 1005, 1099}},
		{10052, []int{10, 999, 1000, 5000, 9999, 10000, 10005, 10040}},
	}
	r.Exec(len(jobs), drv.ExecOpts{Batch: 1, WallSecs: 3600, Env: []string{"VW_RSS_LIMIT_MB=8000", "VW_CPU_LIMIT_S=1500"}}, func(i int) *drv.Item {
		jb := jobs[i]
		src := fmt.Sprintf("find all at least %d ((maybe ('b' = x)) 'a') named L", jb.n-10)
		has := map[int]bool{}
		for _, k := range jb.with {
			has[k] = true
		}
		var sb strings.Builder
		for k := 0; k < jb.n; k++ {
			if has[k] {
				sb.WriteByte('b')
			}
			sb.WriteByte('a')
		}
		text := []byte(sb.String())
		c := wire.Case{Op: "run", Src: []byte(src), Texts: [][]byte{text}, StepBudget: 50_000_000}
		return &drv.Item{Case: c, Check: func(res *wire.Result) {
			if res.Died && (res.Guard == "heap" || res.Guard == "cpu" || res.Guard == "wall") {
				r.Count("long_named_loops_stopped_by_a_resource_guard", 1)
				return
			}
			if crashOrGuard(r, res, &c, src, false) {
				return
			}
			if compileTrouble(r, res, &c, src, false) {
				return
			}
			r.Eval(1)
			if len(res.Runs) != 1 || runTrouble(r, &res.Runs[0], &c, src, nil, false) {
				return
			}
			ms := res.Runs[0].Matches
			bad := func(what string) {
				r.Violate(&drv.Violation{Sig: "named-loop-of-many-iterations", Src: src, Case: &c, Detail: map[string]any{"iterations": jb.n, "iterations_that_bind_x": fmt.Sprint(jb.with), "difference": what}})
			}
			if len(ms) != 1 || ms[0].S != 0 || ms[0].E != len(text) {
				bad(fmt.Sprintf("%d matches, expected one over the whole text", len(ms)))
				return
			}
			var L *wire.Var
			if ms[0].Vars != nil && ms[0].Vars.Map != nil {
				L = ms[0].Vars.Map["L"]
			}
			if L == nil || !L.IsMap {
				bad("the match has no map L")
				return
			}
			// (every arrival at the loop head opens an entry, also the last one, after which the loop is left: n + 1)
			if len(L.Map) != jb.n+1 {
				bad(fmt.Sprintf("L has %d entries, expected %d (0 .. %d)", len(L.Map), jb.n+1, jb.n))
				return
			}
			for k := 0; k <= jb.n; k++ {
				it := L.Map[strconv.Itoa(k)]
				if it == nil || !it.IsMap {
					bad(fmt.Sprintf("L has no entry %d", k))
					return
				}
				x := it.Map["x"]
				if has[k] && (x == nil || string(x.Str) != "b" || len(it.Map) != 1) {
					bad(fmt.Sprintf("iteration %d should hold exactly x = b, holds %d variables", k, len(it.Map)))
					return
				}
				if !has[k] && len(it.Map) != 0 {
					bad(fmt.Sprintf("iteration %d should hold nothing, holds %d variables", k, len(it.Map)))
					return
				}
			}
			r.Count("named_loops_of_more_than_1000_iterations_verified", 1)
			r.Max("iterations_of_the_longest_named_loop_verified", jb.n)
			r.Nontrivial(fmt.Sprintf("iters|%d", jb.n))
		}}
	})
}
