package checks

import (
	"fmt"
	"strings"
)

// c08Nesting: valid programs whose constructs are nested 10 .. 500 levels deep, one construct kind per source:
// alternations nested on the left and on the right, plain groups, loops, captures, inline subroutines, regex groups
// and regex alternations, parenthesised process expressions, if statements. Nesting depth is linear in the length of
// the source, and so must the work of Compile be.
func c08Nesting(add func(family, src string)) {
	rep := strings.Repeat
	// plain groups and parenthesised process expressions (whose compilation is linear in the depth) far deeper: a
	// recursive descent that keeps more than a few words per level on the stack ends in a stack overflow, which no
	// recover() sees
	for _, d := range []int{5000, 50000, 120000, 200000, 400000} {
		add("very-deep-nesting", "find all "+rep("(", d)+"'a'"+rep(")", d))
		add("very-deep-nesting", "set f to transform return "+rep("(", d)+"1"+rep(")", d)+" end\nreplace all 'a' with f")
		add("very-deep-nesting", "find all 'x' "+rep("(", d)+"'a' 'b'"+rep(")", d)+" 'y'")
	}
	for _, d := range []int{10, 25, 40, 100, 500} {
		// ((( 'a') or 'b') or 'b') ...
		add("deep-nesting", "find all "+rep("(", d)+"'a'"+rep(") or 'b'", d))
		// 'b' or ('b' or ( ... 'a'))
		add("deep-nesting", "find all "+rep("'b' or (", d)+"'a'"+rep(")", d))
		add("deep-nesting", "find all "+rep("(", d)+"'a'"+rep(")", d))
		add("deep-nesting", "find all "+rep("maybe (", d)+"'a'"+rep(")", d))
		add("deep-nesting", "find all "+rep("at least 0 ('x' ", d)+"'a'"+rep(")", d))
		s := "'a'"
		for k := 0; k < d; k++ {
			s = "(" + s + fmt.Sprintf(") = c%d", k)
		}
		add("deep-nesting", "find all "+s)
		s = "'a'"
		for k := 0; k < d; k++ {
			s = "{" + s + fmt.Sprintf("} = s%d", k)
		}
		add("deep-nesting", "find all "+s)
		add("deep-nesting", "find all @/"+rep("(", d)+"a"+rep(")", d)+"/")
		add("deep-nesting", "find all @/"+rep("(", d)+"a"+rep("|b)", d)+"/")
		add("deep-nesting", "find all @/"+rep("(?:a|", d)+"b"+rep(")", d)+"/")
		add("deep-nesting", "set f to transform return "+rep("(", d)+"1"+rep(" + 1)", d)+" end\nreplace all 'a' with f")
		add("deep-nesting", "set f to transform return "+rep("(1 + ", d)+"1"+rep(")", d)+" end\nreplace all 'a' with f")
		add("deep-nesting", "set f to transform return "+rep("not (", d)+"true"+rep(")", d)+" end\nreplace all 'a' with f")
		add("deep-nesting", "set f to transform "+rep("if match == 'a' then ", d)+"return 'x' "+rep("end ", d)+"return 'y' end\nreplace all 'a' with f")
		add("deep-nesting", "set f to transform "+rep("loop ", d)+"break "+rep("end ", d)+"return 'y' end\nreplace all 'a' with f")
		add("deep-nesting", "find all "+rep("(", d)+"'a' or 'b'"+rep(") or ('c' or 'd')", d))
		add("deep-nesting", "find all in "+rep("'a', ", d)+"'b' "+rep("(", d)+"not 'q'"+rep(")", d))
	}
}
