package checks

import (
	"fmt"

	"verifharness/drv"
	"verifharness/gen"
	"verifharness/wire"
)

// c04Captures: the capture shapes of C02 (bindings in first alternatives that fail, in abandoned iterations, in
// recursive subroutines, inside named loops, followed by back-references) under amount clauses: a match that is skipped
// is FOUND like any other match - what was bound on an abandoned path does not reach the path that is taken, in the
// attempts before the window as in those inside it.
func c04Captures(r *drv.Run) {
	shapes := enumCaptureShapes()
	per := len(shapes) / 64
	var progs []*gen.Program
	for a := 0; a < 2; a++ {
		for b := 0; b < 2; b++ {
			for c := 0; c < 2; c++ {
				base := ((a*4+b)*4 + c) * per
				progs = append(progs, shapes[base:base+per]...)
			}
		}
	}
	// the loop-capture-then-back-reference body on texts where a stale binding would let a non-match through
	x := gen.Capture{Name: "x", Body: gen.Class{Kind: "letter"}}
	progs = append(progs, &gen.Program{Commands: []gen.Command{{Amount: gen.Amount{Kind: "all"}, Body: []gen.Node{gen.Loop{Min: 1, Max: -1, Form: "atleast", Body: gen.Seq{Items: []gen.Node{x}}}, gen.BackRef{Name: "x"}}}}},
		&gen.Program{Commands: []gen.Command{{Amount: gen.Amount{Kind: "all"}, Body: []gen.Node{gen.Or{Alts: []gen.Node{gen.Seq{Items: []gen.Node{x, gen.Lit{S: "!"}}}, gen.Class{Kind: "letter"}}}, gen.Loop{Min: 0, Max: 1, Form: "maybe", Body: gen.BackRef{Name: "x"}}}}}})
	texts := allTexts("ab", 4)
	extra := [][]byte{[]byte("aa abcb cc dd"), []byte("abab cc abcb bb"), []byte("a! bb ab!a aa")}
	clauses := []gen.Amount{{Kind: "skip", Skip: 1}, {Kind: "skip", Skip: 2}, {Kind: "skiptake", Skip: 1, Take: 1}, {Kind: "skiptake", Skip: 2, Take: 2}, {Kind: "last", Last: 1}, {Kind: "top", Take: 1}, {Kind: "take", Take: 2}}
	r.Exec(len(progs), drv.ExecOpts{Batch: 8}, func(i int) *drv.Item {
		p := progs[i]
		tx := texts
		if i >= len(progs)-2 {
			tx = append(append([][]byte{}, texts...), extra...)
		}
		srcs := [][]byte{[]byte(gen.RenderProgram(p))}
		for _, am := range clauses {
			q := *p
			q.Commands = []gen.Command{p.Commands[0]}
			q.Commands[0].Amount = am
			srcs = append(srcs, []byte(gen.RenderProgram(&q)))
		}
		c := wire.Case{Op: "astcmp", Srcs: srcs, Texts: tx, StepBudget: 60000}
		return &drv.Item{Case: c, Check: func(res *wire.Result) {
			if crashOrGuard(r, res, &c, string(srcs[0]), false) {
				return
			}
			if len(res.Compiles) != len(srcs) || len(res.Runs) != len(srcs)*len(tx) {
				r.Inconclusive("worker returned a short result")
				return
			}
			for k := range res.Compiles {
				if !res.Compiles[k].OK {
					r.Inconclusive("capture shape rejected by Compile: " + res.Compiles[k].Err + " | " + string(srcs[k]))
					return
				}
			}
			for ti, text := range tx {
				A := &res.Runs[ti]
				if A.Panic != nil || A.Budget != "" {
					continue
				}
				for vi, am := range clauses {
					run := &res.Runs[(vi+1)*len(tx)+ti]
					r.Eval(1)
					if runTrouble(r, run, &c, string(srcs[vi+1]), text, false) {
						continue
					}
					want := window(A.Matches, am)
					if matchesJSON(run.Matches) != matchesJSON(want) {
						r.Violate(&drv.Violation{Sig: "capture-shapes:window:" + am.Kind, Src: string(srcs[vi+1]), Text: string(text), Case: &c,
							Detail: map[string]any{"all": fmtGot(A.Matches), "expected_window": fmtGotN(want), "observed": fmtGotN(run.Matches)}})
						return
					}
					if len(want) > 0 && len(want) < len(A.Matches) {
						r.Count("capture_shape_windows_verified", 1)
						r.Nontrivial(fmt.Sprintf("capwin|%d|%d|%d", i, ti, vi))
					}
				}
			}
		}}
	})
	if r.NViolations() == 0 && r.Counter("capture_shape_windows_verified") == 0 {
		r.Inconclusive("coverage floor: capture_shape_windows_verified = 0")
	}
}
