package checks

import (
	"bytes"
	"encoding/json"
	"fmt"
	"math"
	"os"
	"path/filepath"
	"reflect"
	"sort"
	"strings"
	"unicode/utf8"

	"verifharness/drv"
	"verifharness/gen"
	"verifharness/wire"
)

func init() { Registry["C17"] = C17 }

var c17Texts = [][]byte{
	[]byte(`he said "hi" \ and 'bye'`), []byte("tab\there\nnew\r\nline\x01\x1f\x7f"), []byte("<a href=\"x\">&amp;</a>"),
	[]byte("h\xc3\xa9llo w\xc3\xb6rld \xe2\x82\xac \xf0\x9f\x98\x80"), []byte("bad\xff\xfeutf\xc3"), []byte("a,b;c\n1,2;3"),
	[]byte("\u2028\u2029 line seps"), []byte("aab ab b"), []byte("name=Zo\ufffd end \ufffd\ufffd x \ufffdy,z\ufffd"), []byte("ab,c,d e,f,gh,i jk"), []byte("x"), []byte(""),
	// text that already LOOKS like JSON escapes (searching JSON / source code): backslash + u003c etc.
	[]byte("lit \\u003c \\u003e \\u0026 \\u2028 \\n \\\" \\\\ \\/ end"), []byte("{\"k\":\"v\\u0041\\\"\"}"),
	// invisible and unusual code points of every plane: format characters (BMP and astral: tag characters, musical and
	// hieroglyph controls), C1 controls, no-break space, non-characters, private use, the last code point
	[]byte("tag \U000E0067\U000E0062\U000E007F flag \U0001F3F4\U000E0067 zwj a\u200db bom \ufeff shy \u00ad rlo \u202e x"),
	[]byte("astral \U0001D173 \U00013430 \U0001BCA0 \U000110BD \U0010FFFF \U000F0000 \uFFFE \uFFFF \u0080 \u0085 \u009f \u00a0 \ue000 end"),
}

// c17RandomText: code points drawn from every plane and category boundary the encoders special-case.
func c17RandomText(rng *gen.Rng) []byte {
	ranges := [][2]rune{{0x00, 0x1f}, {0x20, 0x7e}, {0x7f, 0x9f}, {0xa0, 0xff}, {0x2000, 0x206f}, {0xd7f0, 0xd7ff}, {0xe000, 0xe010}, {0xfe00, 0xfe0f}, {0xfff0, 0xffff},
		{0x10000, 0x10010}, {0x1d160, 0x1d180}, {0x1f300, 0x1f3ff}, {0xe0000, 0xe007f}, {0xf0000, 0xf0010}, {0x10fff0, 0x10ffff}}
	var out []rune
	n := 8 + rng.Intn(16)
	for i := 0; i < n; i++ {
		rg := ranges[rng.Intn(len(ranges))]
		c := rg[0] + rune(rng.Intn(int(rg[1]-rg[0])+1))
		if c == 0 {
			c = ' '
		}
		out = append(out, c)
		if rng.Chance(1, 3) {
			out = append(out, ' ')
		}
	}
	return []byte(string(out))
}

var c17Programs = []string{
	"find all (at least 1 any fewest) = piece in ' ', ',', ';', '\\n'",
	"find all at least 1 ((any = ch)) named chars",
	"find all at least 1 ((not whitespace = c) maybe (whitespace = w)) named items",
	"replace all (not whitespace = c) with '[' c ']' matchNumber",
	"replace all at least 1 letter with '\"' value '\\\\' '<&>'",
	"find all whole line",
	"set f to transform return match + '\"\\\\' + matchLength end\nreplace all at least 1 not whitespace with f",
	"find top 2 any",
	"find all 'zzz'",
	"find all @/(?<w>\\S+)\\s(\\S)/",
	// REPLACE commands whose captures carry the names of the replacer's own built-ins: they are captures of the match
	"replace all (at least 1 letter) = value with '<' value '>'",
	"replace all (letter = filename) (maybe letter = totalMatches) with startOffset ':' filename",
	"replace all (any = matchNumber) (maybe any = lineNumber) with 'x'",
	"replace all (letter = startOffset) (letter = endOffset) (maybe letter = columnNumber) with endOffset",
	// names made of DIGITS (regex named groups, loops named by a string), with leading zeros, names that differ only in
	// their leading zeros, names that need escaping as JSON keys
	"find all @/(?<007>a)b/",
	"find all @/(?<1>a)(?<01>b)/",
	"find all @/(?<00>a)(?<0>b)?/",
	"find all at least 1 ('a' = x) named \"007\"",
	"find all at least 1 (letter = x) named \"12\"",
	"find all at least 1 ((letter = x)) named \"a b\\\"c\"",
	"find all at least 1 (at least 1 (letter = x) named \"01\" maybe ',') named \"1\"",
	// loops named by a string that holds what JSON must escape in a member NAME: tab, line feed (as escape and written
	// bare), other control bytes, DEL, a backslash, a slash, <>&, U+2028, a character outside the BMP, invalid UTF-8
	"find all at least 1 (letter = x) named \"col\\t1\"",
	"find all at least 1 (letter = x) named \"line\nfeed\"",
	"find all at least 1 (letter = x) named \"a\\x01b\\x1f\\x7f\"",
	"find all at least 1 (letter = x) named 'back\\\\slash/and\\rreturn'",
	"find all at least 1 (letter = x) named \"<&>\u2028😊\"",
	"find all at least 1 (letter = x) named \"\\b\\f\\v\\a\"",
	"find all at least 1 (at least 1 (letter = x) named \"\\t\" maybe ',') named \"\\n\"",
	// variables and named loops that are called like members of the output format itself
	"find all at least 1 ((at least 1 letter) = cell maybe ',') named column",
	"find all at least 1 ((at least 1 letter) = value maybe in ',', ' ') named offset",
	"find all at least 1 ((letter = filename) (maybe letter = replacement) maybe ',') named variables",
	"find all (at least 1 letter) = matchNumber in ',', ' ' (at least 1 letter) = null",
	"find all at least 1 (at least 1 ((letter = key)) named column maybe ',') named offset",
}

// expectedDoc builds the document the property prescribes from the in-memory matches.
func expectedVars(v *wire.Var) any {
	if v == nil {
		return map[string]any{}
	}
	if !v.IsMap {
		return string(v.Str)
	}
	m := map[string]any{}
	for k, e := range v.Map {
		m[k] = expectedVars(e)
	}
	return m
}

func allValidUTF8(v *wire.Var) bool {
	if v == nil {
		return true
	}
	if !v.IsMap {
		return utf8.Valid(v.Str)
	}
	for _, e := range v.Map {
		if !allValidUTF8(e) {
			return false
		}
	}
	return true
}

func expectedObj(m *wire.Match, replace bool) map[string]any {
	o := map[string]any{
		"filename":    m.File,
		"matchNumber": float64(m.Num),
		"offset":      map[string]any{"start": float64(m.S), "end": float64(m.E)},
		"line":        map[string]any{"start": float64(m.L1), "end": float64(m.L2)},
		"column":      map[string]any{"start": float64(m.C1), "end": float64(m.C2)},
		"value":       string(m.Val),
		"variables":   expectedVars(m.Vars),
	}
	if m.HasRepl {
		o["replacement"] = string(m.Repl)
	}
	return o
}

func C17(r *drv.Run) {
	r.BuildWorker()
	n := 2500
	if !quick(r) {
		n = 80000
	}
	r.Rule = "every result list of the fixed programs also rendered by eight goroutines at the same time, twelve renderings each, compact and formatted: each is the text the list gives alone; seven programs whose loops are named by a string holding what JSON must escape in a member name (tab, line feed as escape and bare, control bytes, DEL, backslash, slash, <&>, U+2028, an astral character); the fixed programs also in processes whose standard output is a terminal (a fresh pseudo-terminal) or the null device, under the environment of an interactive session (TERM, COLORTERM, forced colours); result lists empty / one / many from find and replace commands, flat captures and named-loop (nested) variables, produced by fixed programs that capture arbitrary bytes (four replace commands whose captures are called like the replacer's built-ins; seven with names made of digits - leading zeros, names differing only in leading zeros - or needing escapes as JSON keys, given through regex named groups and loops named by a string; five with captures and named loops called like members of the output format: offset, column, value, variables, filename, replacement, matchNumber, key, null) and by the any-program generator, over texts with quotes, backslashes, control bytes, the replacement character U+FFFD written as a character (well-formed text, not the stand-in for a broken byte), <>&, U+2028/2029, multi-byte UTF-8, invalid UTF-8, and code points of every plane (format characters incl. astral tag characters, C1 controls, non-characters, private use, U+10FFFF; fixed and seeded random). Also RunFiles results whose file names need escaping or are spelled in a non-canonical way (quotes, backslash, <&>, non-ASCII, newline and tab in names; dir//name, dir/./name, dir/sub/../name; a directory argument with a trailing slash): the filename member must be the in-memory name, byte for byte. Also lists of 511 .. 20 000 matches (sizes at and next to powers of two and ten, every thousand, ten seed-chosen sizes), and EVERY list length from 1 to 1 500 (thorough: 9 000) rendered both ways and validated inside the worker; the nil list, the empty list and an emptied list (what a caller collecting results builds itself) must render as equal documents both ways. After the texts of a case a result list that has been rendered is refilled in place with the matches of another text (same length) and rendered again: it must give that other list's document. Oracle: Json() and FormattedJson() return without panic, json.Valid, decode to equal documents, one object per match whose fields equal the in-memory match (replacement present iff the match has one); exact string equality is demanded where the in-memory strings are valid UTF-8. Non-trivial = a result list with >= 1 match rendered and decoded; distinct by (program, text)."
	r.Assumptions = []string{"strings that are not valid UTF-8 cannot round-trip through JSON; for those only validity, document equality of the two renderings and all non-string fields are demanded"}
	fixed := len(c17Programs)
	mk := func(i int) *drv.Item {
		rng := gen.Derive(r.Seed, "C17", i)
		var src string
		texts := c17Texts
		if i < fixed {
			src = c17Programs[i]
			texts = append(append([][]byte{}, c17Texts...), c17RandomText(rng), c17RandomText(rng), c17RandomText(rng))
		} else if i < 6*fixed {
			// the fixed programs again, over seeded texts of unusual code points
			src = c17Programs[i%fixed]
			texts = nil
			for k := 0; k < 12; k++ {
				texts = append(texts, c17RandomText(rng))
			}
		} else {
			p := gen.AnyProgram(rng, i)
			src = gen.RenderProgram(p)
			sm := gen.NewSampler(rng, p, []byte("abc\n \"\\<1A\xc3\xa9\xff"))
			texts = sm.Inputs(p.Commands[0].Body, 6, maxLenFor(p, 14))
			texts = append(texts, []byte("a\"b\\c\nab\xc3\xa9 \xff"))
		}
		c := wire.Case{Op: "json", Src: []byte(src), Texts: texts, WantJSON: true, StepBudget: 300000}
		if i < fixed {
			// the fixed programs: every result list is also rendered by eight goroutines at once
			c.ConcRender = 8
		}
		return &drv.Item{Case: c, Check: func(res *wire.Result) {
			if crashOrGuard(r, res, &c, src, false) {
				return
			}
			for ti := range res.Runs {
				if m := res.Runs[ti].ConcRenderMismatch; m != "" {
					r.Violate(&drv.Violation{Sig: "one-list-rendered-by-several-goroutines-at-once", Src: src, Text: string(texts[min(ti, len(texts)-1)]), Case: &c, Detail: map[string]any{"what": m}})
					return
				}
			}
			if c.ConcRender > 0 {
				r.Count("cases_whose_lists_were_also_rendered_by_eight_goroutines_at_once", 1)
			}
			if res.Compile == nil || !res.Compile.OK {
				if res.Compile != nil && res.Compile.Panic == nil {
					r.Inconclusive("generated program rejected by Compile: " + res.Compile.Err + " | " + src)
				}
				return
			}
			for ti, text := range texts {
				if ti >= len(res.Runs) {
					break
				}
				c17CheckRun(r, &res.Runs[ti], src, text, &c)
			}
			if res.Mismatch != "" {
				r.Violate(&drv.Violation{Sig: "stale-rendering-of-a-refilled-result-list", Src: src, Case: &c, Detail: map[string]any{"what": res.Mismatch}})
			} else {
				r.Count("cases_with_refill_pass", 1)
			}
			if i%97 == 0 {
				r.Sample(map[string]any{"program": src, "text": string(texts[0])})
			}
		}}
	}
	r.Exec(6*fixed+n, drv.ExecOpts{Batch: 100}, mk)
	// the fixed programs again in processes whose standard output is a TERMINAL (a fresh pseudo-terminal) or the null
	// device, with the environment of an interactive session (TERM, COLORTERM, forced colours): a rendering is a
	// value, it does not depend on where the process's output goes
	for _, env := range []struct {
		stdout string
		vars   []string
	}{
		{"pty", []string{"TERM=xterm-256color", "COLORTERM=truecolor", "NO_COLOR="}},
		{"pty", []string{"TERM=xterm", "CLICOLOR_FORCE=1", "FORCE_COLOR=1", "NO_COLOR="}},
		{"/dev/null", []string{"TERM=xterm-256color", "NO_COLOR="}},
	} {
		before := r.Counter("objects_compared_exactly")
		r.Exec(fixed, drv.ExecOpts{Batch: 100, Stdout: env.stdout, Env: env.vars}, mk)
		r.Count("objects_compared_with_output_on_"+strings.Trim(strings.ReplaceAll(env.stdout, "/", "_"), "_"), int(r.Counter("objects_compared_exactly")-before))
	}
	c17Files(r)
	c17Large(r)
	if r.NViolations() == 0 {
		if r.Counter("file_results_with_unusual_names_verified") == 0 {
			r.Inconclusive("coverage floor: no RunFiles result with unusual file names rendered")
		}
		for _, k := range []string{"objects_compared_exactly", "objects_compared_non_utf8", "nested_variable_objects", "replacement_objects", "lists_with_many"} {
			if r.Counter(k) == 0 {
				r.Inconclusive("coverage floor: " + k + " = 0")
			}
		}
		if r.Counter("empty_lists")+r.Counter("empty_lists_rendered_as_null") == 0 {
			r.Inconclusive("coverage floor: no empty result list rendered")
		}
	}
}

// c17CheckRun validates the two renderings of one result list against the in-memory matches.
func c17CheckRun(r *drv.Run, run *wire.Run, src string, text []byte, c *wire.Case) {
	r.Eval(1)
	r.Count("runs_total", 1)
	if runTrouble(r, run, c, src, text, false) {
		return
	}
	if run.JSONErr != nil {
		r.Violate(&drv.Violation{Sig: "Json()-panics:" + run.JSONErr.Frame, Panic: run.JSONErr.Msg, Frame: run.JSONErr.Frame, Src: src, Text: string(text), Case: c})
		return
	}
	if run.FJSONErr != nil {
		r.Violate(&drv.Violation{Sig: "FormattedJson()-panics:" + run.FJSONErr.Frame, Panic: run.FJSONErr.Msg, Frame: run.FJSONErr.Frame, Src: src, Text: string(text), Case: c})
		return
	}
	bad := func(sig, what string) {
		r.Violate(&drv.Violation{Sig: sig, Src: src, Text: string(text), Case: c,
			Detail: map[string]any{"what": what, "json": oneLineN(string(run.JSON), 300)}})
	}
	if !json.Valid(run.JSON) || !json.Valid(run.FJSON) {
		bad("invalid-json", "json.Valid is false")
		return
	}
	var d1, d2 any
	if json.Unmarshal(run.JSON, &d1) != nil || json.Unmarshal(run.FJSON, &d2) != nil {
		bad("undecodable-json", "Unmarshal failed")
		return
	}
	if !reflect.DeepEqual(d1, d2) {
		bad("compact-and-formatted-differ", "documents differ")
		return
	}
	// exactly one document: nothing but whitespace after it
	dec := json.NewDecoder(bytes.NewReader(run.JSON))
	var tmp any
	dec.Decode(&tmp)
	if dec.More() {
		bad("more-than-one-document", "trailing data")
		return
	}
	arr, ok := d1.([]any)
	if !ok {
		if d1 == nil && len(run.Matches) == 0 {
			r.Count("empty_lists_rendered_as_null", 1)
			return
		}
		bad("not-an-array", fmt.Sprintf("top level is %T", d1))
		return
	}
	if len(arr) != len(run.Matches) {
		bad("object-count", fmt.Sprintf("%d objects for %d matches", len(arr), len(run.Matches)))
		return
	}
	okAll := true
	for k := range arr {
		m := &run.Matches[k]
		got, isObj := arr[k].(map[string]any)
		if !isObj {
			bad("element-not-object", "")
			okAll = false
			break
		}
		want := expectedObj(m, m.HasRepl)
		_, hasRepl := got["replacement"]
		if hasRepl != m.HasRepl {
			bad("replacement-presence", fmt.Sprintf("replacement key present=%v, match has replacement=%v", hasRepl, m.HasRepl))
			okAll = false
			break
		}
		exact := utf8.Valid(m.Val) && utf8.Valid(m.Repl) && allValidUTF8(m.Vars) && utf8.ValidString(m.File)
		if exact {
			if !reflect.DeepEqual(got, want) {
				gb, _ := json.Marshal(got)
				wb, _ := json.Marshal(want)
				bad("object-differs-from-match", "got "+oneLineN(string(gb), 250)+" want "+oneLineN(string(wb), 250))
				okAll = false
				break
			}
			r.Count("objects_compared_exactly", 1)
		} else {
			for _, f := range []string{"matchNumber", "offset", "line", "column", "filename"} {
				if !reflect.DeepEqual(got[f], want[f]) {
					bad("field-differs:"+f, fmt.Sprint(got[f], " vs ", want[f]))
					okAll = false
				}
			}
			if !okAll {
				break
			}
			r.Count("objects_compared_non_utf8", 1)
		}
		if s, mp := countVars(m.Vars); mp > 1 {
			r.Count("nested_variable_objects", 1)
			_ = s
		}
		if m.HasRepl {
			r.Count("replacement_objects", 1)
		}
	}
	if okAll {
		if len(arr) > 0 {
			r.Nontrivial(src + "\x00" + string(text))
		} else {
			r.Count("empty_lists", 1)
		}
		if len(arr) > 1 {
			r.Count("lists_with_many", 1)
		}
	}

}

// c17Files: result lists that come from files, with names that a JSON encoder has to escape and path spellings that
// a tidy-minded encoder might be tempted to normalise.
func c17Files(r *drv.Run) {
	dir := filepath.Join(r.WorkDir, "c17files")
	os.MkdirAll(filepath.Join(dir, "sub"), 0o755)
	os.MkdirAll(filepath.Join(dir, "d i r"), 0o755)
	names := []string{"plain.txt", "we\"ird\\na'me<&>.txt", "caf\u00e9 \u20ac \U0001F600.txt", "new\nline\ttab.txt", "sub/inner.txt", "d i r/a b.txt", "sub/%d.txt", "repl\ufffdacement \ufffd.txt"}
	content := []byte("he said \"hi\" 12\nab <b>&amp; caf\u00e9 7\n")
	for _, n := range names {
		os.WriteFile(filepath.Join(dir, n), content, 0o644)
	}
	spell := func(n string, k int) string {
		switch k % 5 {
		case 1:
			return dir + "//" + n
		case 2:
			return dir + "/./" + n
		case 3:
			return dir + "/sub/../" + n
		case 4:
			return dir + "/" + strings.Replace(n, "/", "//", 1)
		}
		return filepath.Join(dir, n)
	}
	progs := []string{c17Programs[0], c17Programs[2], c17Programs[3], c17Programs[5], "find all at least 1 digit", "replace all (letter = c) with filename ':' c"}
	type job struct {
		src   string
		files []string
	}
	var jobs []job
	for pi, src := range progs {
		var fl []string
		for ni, n := range names {
			fl = append(fl, spell(n, pi+ni))
		}
		jobs = append(jobs, job{src, fl})
		// directory arguments, with and without a trailing slash: RunFiles searches the files inside
		jobs = append(jobs, job{src, []string{dir + "/sub/", dir + "/d i r", spell("plain.txt", pi)}})
	}
	r.Exec(len(jobs), drv.ExecOpts{Batch: 4}, func(i int) *drv.Item {
		jb := jobs[i]
		c := wire.Case{Op: "runfiles", Src: []byte(jb.src), Files: jb.files, Mode: "NOTHING", WantJSON: true, StepBudget: 2_000_000}
		return &drv.Item{Case: c, Check: func(res *wire.Result) {
			if crashOrGuard(r, res, &c, jb.src, false) {
				return
			}
			if res.Compile == nil || !res.Compile.OK || len(res.Runs) < 1 {
				r.Inconclusive("fixed program rejected: " + jb.src)
				return
			}
			before := r.NViolations()
			c17CheckRun(r, &res.Runs[0], jb.src, []byte(strings.Join(jb.files, " | ")), &c)
			if r.NViolations() == before && len(res.Runs[0].Matches) > 0 {
				r.Count("file_results_with_unusual_names_verified", 1)
			}
		}}
	})
}

// c17Large: result lists of thousands of matches (renderers that work in blocks or windows show their arithmetic
// only there): sizes at and next to powers of two and ten, every thousand up to 20 000, and ten seed-chosen sizes.
func c17Large(r *drv.Run) {
	sizes := map[int]bool{}
	for k := 9; k <= 14; k++ {
		sizes[1<<k], sizes[1<<k-1], sizes[1<<k+1] = true, true, true
	}
	for _, n := range []int{999, 1000, 1001, 9999, 10000, 10001} {
		sizes[n] = true
	}
	for j := 2; j <= 20; j++ {
		sizes[1000*j] = true
	}
	rng := gen.Derive(r.Seed, "C17large", 0)
	for k := 0; k < 10; k++ {
		sizes[2000+rng.Intn(18000)] = true
	}
	// every list length in a range, rendered and validated inside the worker (quick: 1..1 500, thorough: 1..9 000)
	top := 1500
	if !quick(r) {
		top = 9000
	}
	var ranges [][2]int
	for lo := 1; lo <= top; {
		// ranges of about equal cost (cost grows with the square of the length)
		hi := min(int(math.Sqrt(float64(lo*lo)+200000))+1, top+1)
		ranges = append(ranges, [2]int{lo, hi})
		lo = hi
	}
	scanSrc := "find all (letter = c)"
	r.Exec(len(ranges), drv.ExecOpts{Batch: 1}, func(i int) *drv.Item {
		rg := ranges[i]
		c := wire.Case{Op: "jsonscan", Src: []byte(scanSrc), Texts: [][]byte{[]byte(strings.Repeat("ab", rg[1]/2+1))}, Ops: rg[0], Seed: uint64(rg[1]), StepBudget: 50_000_000}
		return &drv.Item{Case: c, Check: func(res *wire.Result) {
			r.Eval(1)
			if crashOrGuard(r, res, &c, scanSrc, false) {
				return
			}
			if res.Mismatch != "" {
				r.Violate(&drv.Violation{Sig: c17ScanSig(res.Mismatch), Src: scanSrc, Case: &c, Detail: map[string]any{"what": res.Mismatch, "lengths": fmt.Sprintf("%d..%d", rg[0], rg[1]-1)}})
				return
			}
			r.Count("list_lengths_rendered_and_validated", res.Counters["lengths_rendered"])
			r.Count("nil_and_empty_lists_rendered_both_ways", res.Counters["special_lists_rendered"])
			r.Nontrivial(fmt.Sprintf("scan|%d", rg[0]))
		}}
	})
	var ns []int
	for n := range sizes {
		ns = append(ns, n)
	}
	sort.Ints(ns)
	progs := []string{"find all 'a'", "replace all (letter = c) with '<' c '>'"}
	r.Exec(len(ns), drv.ExecOpts{Batch: 2}, func(i int) *drv.Item {
		n := ns[i]
		src := progs[i%len(progs)]
		c := wire.Case{Op: "json", Src: []byte(src), Texts: [][]byte{[]byte(strings.Repeat("a", n))}, WantJSON: true, StepBudget: 50_000_000}
		return &drv.Item{Case: c, Check: func(res *wire.Result) {
			if crashOrGuard(r, res, &c, src, false) {
				return
			}
			if res.Compile == nil || !res.Compile.OK || len(res.Runs) < 1 {
				r.Inconclusive("fixed program rejected: " + src)
				return
			}
			before := r.NViolations()
			c17CheckRun(r, &res.Runs[0], src, []byte(fmt.Sprintf("(%d letters)", n)), &c)
			if r.NViolations() == before && len(res.Runs[0].Matches) == n {
				r.Count("large_lists_verified", 1)
				r.Max("largest_list_rendered", n)
			}
		}}
	})
}

func c17ScanSig(m string) string {
	if strings.Contains(m, " list ") && !strings.Contains(m, "list of") {
		return "nil-or-empty-list-renders-differently-both-ways"
	}
	return "rendering-of-some-list-length-is-not-valid-json"
}
