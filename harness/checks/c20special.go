package checks

import (
	"os"
	"path/filepath"

	"verifharness/drv"
	"verifharness/wire"
)

// c20Special: characters that are separators, escapes or wildcards SOMEWHERE ELSE - backslash, ? [ ] { } ! ^ ~ : ; ,
// % $ # & blank tab - are plain name bytes in a pattern, inside the pattern itself (not only in the names a `*`
// runs over). One directory holds files whose names contain each of them, and sub-directories called like the part
// in front of the character, so that a pattern split or rewritten at the character selects something else.
func c20Special(r *drv.Run, check func(tree *refNode, base string, pattern string, cwd string, sample bool) func(res *wire.Result)) {
	base := filepath.Join(r.WorkDir, "c20", "special")
	os.MkdirAll(base, 0o755)
	root := &refNode{dir: true}
	file := func(parent *refNode, dir, name string) {
		os.WriteFile(filepath.Join(dir, name), []byte("x"), 0o644)
		parent.kids = append(parent.kids, &refNode{name: name})
	}
	specials := []string{"\\", "?", "[", "]", "{", "}", "!", "^", "~", ":", ";", ",", "%", "$", "#", "&", " ", "\t", "'", "\"", "|", "+", "(", ")", "="}
	// a sub-directory `a` (and `c`) holding the names that stand behind the character
	for _, dn := range []string{"a", "c"} {
		os.MkdirAll(filepath.Join(base, dn), 0o755)
		k := &refNode{name: dn, dir: true}
		root.kids = append(root.kids, k)
		for _, n := range []string{"1.txt", "2.txt", "b", "d.log"} {
			file(k, filepath.Join(base, dn), n)
		}
	}
	var pats []string
	for _, sp := range specials {
		for _, n := range []string{"a" + sp + "1.txt", "a" + sp + "b", sp + "x", "c" + sp, "a" + sp + sp + "b"} {
			file(root, base, n)
		}
		pats = append(pats, "a"+sp+"*.txt", "a"+sp+"b", "*"+sp+"*", sp+"*", "c"+sp, "a"+sp+"*", "*"+sp+"b", "a"+sp+sp+"b", "a"+sp+"1.txt",
			base+"/a"+sp+"*", base+"/*"+sp+"1.txt")
	}
	pats = append(pats, "a/*.txt", "*/b", "*", "a*")
	// a doubled (tripled) separator is one separator: every selected file once
	pats = append(pats, "a//*.txt", "a//1.txt", "a///b", "c//*", "a//*", base+"//a/*.txt", base+"/a//b", "a//d.log", "c//d.log", "a////1.txt")
	r.Exec(len(pats), drv.ExecOpts{Batch: 60}, func(i int) *drv.Item {
		p := pats[i]
		return &drv.Item{Case: wire.Case{Op: "glob", Pattern: p, PatternB: []byte(p), Dir: base}, Check: func(res *wire.Result) {
			if res.FilesB != nil {
				res.Files = res.Files[:0]
				for _, f := range res.FilesB {
					res.Files = append(res.Files, string(f))
				}
			}
			before := r.NViolations()
			check(root, base, p, base, false)(res)
			if r.NViolations() == before {
				r.Count("patterns_holding_a_character_special_elsewhere", 1)
			}
		}}
	})
}
