package checks

import (
	"fmt"
	"strings"

	"verifharness/drv"
	"verifharness/gen"
	"verifharness/wire"
)

func init() { Registry["C10"] = C10 }

func c10Blocks() []gen.Node {
	return []gen.Node{
		gen.Lit{S: "a"}, gen.Lit{S: "a", Not: true}, gen.Class{Kind: "any"},
		gen.Anchor{Kind: "linestart"}, gen.Anchor{Kind: "lineend"}, gen.Anchor{Kind: "linestart", Not: true},
		gen.Anchor{Kind: "wordstart"}, gen.Anchor{Kind: "wordend"}, gen.Anchor{Kind: "filestart"}, gen.Anchor{Kind: "fileend"},
		gen.Anchor{Kind: "fileend", Not: true},
		gen.Seq{}, // the empty group ()
		gen.In{Not: true, Items: []gen.ListItem{{Kind: "lit", S: "a"}}},
		gen.Whole{Kind: "word"}, gen.Whole{Kind: "line", Not: true},
		// lists with an empty-string member: nullable although their longest member consumes
		gen.In{Items: []gen.ListItem{{Kind: "lit", S: ""}, {Kind: "lit", S: "a"}}}, gen.In{Items: []gen.ListItem{{Kind: "lit", S: "a"}, {Kind: "lit", S: ""}}},
		gen.Lit{S: ""},
	}
}

func c10Forms() []gen.Loop {
	return []gen.Loop{
		{Min: 0, Max: 1, Form: "maybe"}, {Min: 0, Max: 1, Lazy: true, Form: "maybe"},
		{Min: 0, Max: -1, Form: "atleast"}, {Min: 0, Max: -1, Lazy: true, Form: "atleast"},
		{Min: 0, Max: 2, Form: "atmost"}, {Min: 0, Max: 2, Lazy: true, Form: "atmost"},
		{Min: 1, Max: -1, Form: "atleast"}, {Min: 0, Max: 2, Form: "between"},
	}
}

func wrap(f gen.Loop, body gen.Node) gen.Node {
	f.Body = body
	return f
}

// c10Programs enumerates all programs of loop-nesting depth <= depth over the nullable blocks.
func c10Programs(depth int) []*gen.Program {
	blocks := c10Blocks()
	forms := c10Forms()
	var progs []*gen.Program
	mk := func(body ...gen.Node) {
		progs = append(progs, &gen.Program{Commands: []gen.Command{{Amount: gen.Amount{Kind: "all"}, Body: body}}})
	}
	var l1 []gen.Node
	for _, f := range forms {
		for _, b := range blocks {
			l1 = append(l1, wrap(f, b))
		}
	}
	for _, b := range blocks {
		mk(b)
	}
	for _, l := range l1 {
		mk(l)
		mk(l, gen.Lit{S: "b"})
	}
	// the outer scan under every amount clause: skipped / windowed empty matches must not stall it
	for _, am := range []gen.Amount{{Kind: "skip", Skip: 1}, {Kind: "skip", Skip: 3}, {Kind: "skiptake", Skip: 1, Take: 1}, {Kind: "top", Take: 1}, {Kind: "take", Take: 2}, {Kind: "last", Last: 1}} {
		for _, l := range l1 {
			progs = append(progs, &gen.Program{Commands: []gen.Command{{Amount: am, Body: []gen.Node{l}}}})
			progs = append(progs, &gen.Program{Commands: []gen.Command{{Amount: am, Replace: true, Body: []gen.Node{l, gen.Loop{Min: 0, Max: 1, Form: "maybe", Body: gen.Lit{S: "b"}}}, With: []gen.WithItem{{Kind: "str", S: "x"}}}}})
		}
	}
	// level 2: a loop over a level-1 loop, over (block level-1), and over (level-1 or block)
	var l2 []gen.Node
	for _, f := range forms {
		for _, l := range l1 {
			l2 = append(l2, wrap(f, gen.Seq{Items: []gen.Node{l}}))
		}
		for bi, b := range blocks {
			for li, l := range l1 {
				if (bi+li)%5 != 0 {
					continue
				}
				l2 = append(l2, wrap(f, gen.Seq{Items: []gen.Node{b, l}}))
				l2 = append(l2, wrap(f, gen.Or{Alts: []gen.Node{gen.Seq{Items: []gen.Node{l}}, b}}))
			}
		}
	}
	if depth >= 2 {
		for _, l := range l2 {
			mk(l)
			mk(l, gen.Lit{S: "b"})
		}
		// nullable bodies inside subroutines called from loops; guarded recursion
		for _, f := range forms {
			for _, l := range l1 {
				mk(gen.SubDef{Name: "s", Body: []gen.Node{l}}, wrap(f, gen.SubCall{Name: "s"}))
			}
			// recursion behind every kind of consuming guard (a guard that stops consuming at end of
			// input without failing turns guarded recursion into endless recursion)
			guards := []gen.Node{gen.Lit{S: "a"}, gen.Lit{S: "a", Not: true}, gen.Class{Kind: "any"}, gen.Class{Kind: "letter"}, gen.Class{Kind: "digit", Not: true},
				gen.In{Not: true, Items: []gen.ListItem{{Kind: "lit", S: "a"}}}, gen.In{Items: []gen.ListItem{{Kind: "lit", S: "a"}, {Kind: "range", From: "b", To: "b"}}},
				// ranges with an EMPTY lower bound consume one character all the same (b and the line feed lie outside / inside)
				gen.In{Items: []gen.ListItem{{Kind: "range", From: "", To: "a"}}}, gen.In{Items: []gen.ListItem{{Kind: "range", From: "", To: "\n"}, {Kind: "lit", S: "b"}}}}
			for _, gd := range guards {
				mk(gen.SubDef{Name: "s", Body: []gen.Node{gd, wrap(f, gen.SubCall{Name: "s"})}})
				// ... and the loop around the recursive call has a NULLABLE body (the call is optional, or stands next
				// to an empty alternative): the same loop is then live at every recursion level at once
				mk(gen.SubDef{Name: "s", Body: []gen.Node{gd, wrap(f, gen.Loop{Min: 0, Max: 1, Form: "maybe", Body: gen.SubCall{Name: "s"}})}})
				mk(gen.SubDef{Name: "s", Body: []gen.Node{gd, wrap(f, gen.Or{Alts: []gen.Node{gen.SubCall{Name: "s"}, gen.Seq{}}})}})
				for _, b := range blocks[:4] {
					mk(gen.SubDef{Name: "s", Body: []gen.Node{gd, wrap(f, gen.Seq{Items: []gen.Node{gen.SubCall{Name: "s"}, b}})}})
				}
			}
		}
	}
	// named loops are loops too: at top level, inside an inline subroutine (call depth 1), inside a stored pattern,
	// and inside an inline subroutine that is called again from a loop
	if depth >= 2 {
		for _, f := range forms {
			if f.Form == "maybe" {
				continue // the grammar has no `maybe ... named`
			}
			for _, b := range blocks {
				nl := f
				nl.Body = b
				nl.Name = "n"
				x := gen.Lit{S: "b"}
				mk(nl)
				mk(x, nl)
				mk(gen.SubDef{Name: "s", Body: []gen.Node{x, nl}})
				mk(gen.SubDef{Name: "s", Body: []gen.Node{x, nl}}, gen.Loop{Min: 0, Max: -1, Form: "atleast", Body: gen.SubCall{Name: "s"}})
				progs = append(progs, &gen.Program{Globals: []gen.Global{{Name: "g", Body: []gen.Node{x, nl}}},
					Commands: []gen.Command{{Amount: gen.Amount{Kind: "all"}, Body: []gen.Node{gen.GlobalRef{Name: "g"}, gen.Loop{Min: 0, Max: 1, Form: "maybe", Body: gen.GlobalRef{Name: "g"}}}}}})
				// a named loop is counted, not unrolled: a huge minimum over a body that can match nothing must not
				// mean that many empty iterations
				if f.Min == 0 && f.Max == -1 && !f.Lazy {
					for _, big := range []gen.Loop{{Min: 100000, Max: -1, Form: "atleast"}, {Min: 50000, Max: 200000, Form: "between"}, {Min: 100000, Max: -1, Form: "atleast", Lazy: true}} {
						bl := big
						bl.Body = b
						bl.Name = "n"
						mk(x, bl)
						mk(gen.SubDef{Name: "s", Body: []gen.Node{x, bl}})
					}
				}
				// a named loop around an unnamed nullable loop, inside a subroutine
				inner := gen.Loop{Min: 0, Max: -1, Form: "atleast", Body: b}
				nl2 := f
				nl2.Body = gen.Seq{Items: []gen.Node{inner}}
				nl2.Name = "n"
				mk(gen.SubDef{Name: "s", Body: []gen.Node{x, nl2}})
			}
		}
	}
	// stored patterns WITH A PREDICATE over nullable bodies - predicates that return, that end without reaching a
	// return, that reject - referenced twice in a row, inside loops, and two of them side by side in a loop body
	if depth >= 2 {
		preds := []string{"return true", "if matchLength > 3 then return false end", "set n to matchLength - 2", "return matchLength < 1", "if match == 'a' then return false end", "return false"}
		bl := gen.Lit{S: "b"}
		for _, b := range blocks {
			for pi, ps := range preds {
				qs := preds[(pi+1)%len(preds)]
				gl := []gen.Global{{Name: "p", Body: []gen.Node{b}, Pred: &gen.Pred{Src: ps}}, {Name: "q", Body: []gen.Node{gen.Loop{Min: 0, Max: 1, Form: "maybe", Body: b}}, Pred: &gen.Pred{Src: qs}}}
				p, q := gen.GlobalRef{Name: "p"}, gen.GlobalRef{Name: "q"}
				for _, body := range [][]gen.Node{
					{p, p, bl},
					{p, q, p, bl},
					{gen.Loop{Min: 0, Max: -1, Form: "atleast", Body: gen.Seq{Items: []gen.Node{p, q}}}, bl},
					{gen.Loop{Min: 1, Max: -1, Form: "atleast", Lazy: true, Body: p}, p},
					{gen.Loop{Min: 0, Max: 2, Form: "atmost", Body: gen.Seq{Items: []gen.Node{q, p}}}, gen.Loop{Min: 0, Max: 1, Form: "maybe", Body: q}},
				} {
					progs = append(progs, &gen.Program{Globals: gl, Commands: []gen.Command{{Amount: gen.Amount{Kind: "all"}, Body: body}}})
				}
			}
		}
	}
	// loops that run ZERO times (exactly 0, at most 0, between 0 and 0) around the FIRST mention of a stored pattern or
	// the definition of an inline subroutine, with the same name used again afterwards: no code stands where the loop
	// was, whatever its body mentions
	if depth >= 2 {
		bl := gen.Lit{S: "b"}
		for _, z := range []gen.Loop{{Min: 0, Max: 0, Form: "exactly"}, {Min: 0, Max: 0, Form: "atmost"}, {Min: 0, Max: 0, Form: "between"}} {
			for _, b := range blocks {
				gl := []gen.Global{{Name: "p", Body: []gen.Node{b}}}
				p := gen.GlobalRef{Name: "p"}
				my := gen.Loop{Min: 0, Max: 1, Form: "maybe", Body: gen.Lit{S: "a"}}
				for _, body := range [][]gen.Node{
					{wrap(z, p), p},
					{wrap(z, p), p, bl},
					{wrap(z, p), my, p},
					{wrap(z, gen.Seq{Items: []gen.Node{bl, p}}), gen.Loop{Min: 0, Max: -1, Form: "atleast", Body: p}},
				} {
					progs = append(progs, &gen.Program{Globals: gl, Commands: []gen.Command{{Amount: gen.Amount{Kind: "all"}, Body: body}}})
				}
				// the stored pattern first mentioned under a zero-count loop INSIDE another stored pattern
				progs = append(progs, &gen.Program{Globals: append(append([]gen.Global{}, gl...), gen.Global{Name: "q", Body: []gen.Node{wrap(z, p), p}}),
					Commands: []gen.Command{{Amount: gen.Amount{Kind: "all"}, Body: []gen.Node{gen.GlobalRef{Name: "q"}, bl}}}})
				mk(wrap(z, gen.SubDef{Name: "s", Body: []gen.Node{b}}), gen.SubDef{Name: "t", Body: []gen.Node{b}}, gen.SubCall{Name: "t"})
			}
		}
	}
	if depth >= 3 {
		for _, f := range forms {
			for i, l := range l2 {
				if i%2 != 0 {
					continue
				}
				mk(wrap(f, gen.Seq{Items: []gen.Node{l}}))
			}
		}
	}
	return progs
}

// one name bound by a capture and by a named loop, then referenced
var c10Collisions = []string{
	"find all ('a') = n at least 0 'b' named n n",
	"find all at least 1 (any = n) named n n",
	"find all (letter = n) at least 0 ('b' = n) named n n",
	"find all @/(?<n>a)/ at least 0 'b' named n n",
	"find all at least 0 'b' named n ('a') = n n",
	"replace all ('a') = n at least 0 'b' named n with n n",
	"find all at least 1 ((any = n) n) named n",
	"find all ('a') = n at least 0 'b' named n @/\\k<n>/",
}

func C10(r *drv.Run) {
	r.BuildWorker()
	depth, tlen := 2, 3
	nrand := 1500
	budget := 250_000
	if !quick(r) {
		depth, tlen = 3, 4
		nrand = 40000
	}
	progs := c10Programs(depth)
	texts := allTexts("ab\n", tlen)
	r.Exhaustive = true
	r.Rule = fmt.Sprintf("bounded-progress form of termination: every Run must return within %d VM steps (hook H1), a budget fixed at >= 100x the largest step count the enumerated scope needs on the unchanged tree. Scope enumerated completely: all programs of loop-nesting depth <= %d over nullable building blocks (literal, not-literal, any, line/word/file anchors and their negations, the empty group, the empty string, not-in, in-lists with an empty-string member first or last, whole word/line; loop forms maybe, at least 0, at most 2, between 0 and 2, at least 1, greedy and fewest; every level-1 program also under skip / skip-take / top / take / last clauses, as find and as replace; loops over loops, over (block loop) and over (loop or block); nullable bodies in subroutines called from loops; named loops with nullable bodies at top level, inside an inline subroutine, inside a stored pattern, inside a subroutine called from a loop, and named loops with a minimum of 50 000 / 100 000 over such bodies; loops that run zero times (exactly 0, at most 0, between 0 and 0) around the first mention of a stored pattern - in a command and inside another stored pattern - or around the definition of an inline subroutine, the name used again afterwards; stored patterns with a predicate (one that returns, one that ends without reaching a return, one that rejects) over each nullable block, referenced twice in a row, inside loops, and two of them side by side in a loop body; recursion guarded by each kind of consuming element, also with the recursive call inside a loop whose body is nullable (maybe s; s or the empty group): literal, not-literal, any, class, negated class, not-in, in, ranges with an empty lower bound) x all %d inputs over {a,b,\\n} up to length %d; plus seeded random deeper programs on inputs <= 8 bytes, a third of them drawing on every construct (regex literals, named loops, whole-*, amount clauses, replace) with now and then one name bound both by a capture and by a named loop (there an over-budget run is skipped, not judged; what counts there: crashes, and the step monitor's no-progress verdict - one instruction executed 20 000 times in a row in the same attempt at the same input offset with unchanged backtrack/call/loop depths). The property's other clause - process code without an unbounded loop - is covered by bounded process loops (counter loops, loops counting in a name they never initialise, head/tail loops with break, continue at every position, nested loops, return from inside; every transform used three times in one replacement; also over matches holding multi-byte characters and stray high bytes) in transforms and predicates: every Run must return (there the worker's 30-second CPU guard is the observer; the VM step hook does not see process statements). Long prefixes: ten programs whose nullable loop (unnamed, named, capturing, lazy, in a regex literal) starts after one attempt has matched 100 .. 131 073 bytes through whole file / whole line (lengths on both sides of 65 536); budget 250 000 steps. Non-trivial = the program contains an optional loop whose body can match the empty string and the run executed a loop instruction; distinct by (program, input).", budget, depth, len(texts), tlen)
	r.Assumptions = []string{
		"unbounded 'always terminates' is restated as 'returns within the step budget'; max observed steps are in the evidence so the margin is visible",
		"recursion only behind a consumed byte; no process-code loops",
	}
	r.Exec(len(progs), drv.ExecOpts{Batch: 60}, func(i int) *drv.Item {
		p := progs[i]
		src := gen.RenderProgram(p)
		c := wire.Case{Op: "run", Src: []byte(src), Texts: texts, StepBudget: budget}
		return &drv.Item{Case: c, Check: func(res *wire.Result) { c10Check(r, src, texts, &c, res, i%97 == 0, "enumerated") }}
	})
	r.Extra["enumerated_programs"] = len(progs)
	r.Extra["enumerated_inputs"] = len(texts)
	// random deeper programs
	r.Exec(nrand, drv.ExecOpts{Batch: 100}, func(i int) *drv.Item {
		rng := gen.Derive(r.Seed, "C10", i)
		sc := gen.DefaultScope
		sc.MaxDepth = 4
		sc.Alpha = "ab"
		p := gen.NewPG(rng, sc).FindProgram()
		collided := false
		if i%3 == 2 {
			// every construct the harness knows, and now and then one name bound by a capture AND by a named loop
			p = gen.AnyProgram(rng, i)
			if rng.Chance(1, 2) {
				p.Commands[0].Body, collided = gen.CollideNames(rng, p.Commands[0].Body)
			}
		}
		src := gen.RenderProgram(p)
		sm := gen.NewSampler(rng, p, []byte("ab\n "))
		tx := sm.Inputs(p.Commands[0].Body, 8, maxLenFor(p, 8))
		if i < len(c10Collisions) {
			src, collided = c10Collisions[i], true
			tx = [][]byte{[]byte("abba xabz"), []byte("aa"), []byte("abab"), []byte("b"), {}, []byte("a\nb aab")}
		}
		c := wire.Case{Op: "run", Src: []byte(src), Texts: tx, StepBudget: 1_000_000}
		return &drv.Item{Case: c, Check: func(res *wire.Result) {
			r.Count("random_programs", 1)
			if collided {
				if res.Compile != nil && !res.Compile.OK && res.Compile.Panic == nil {
					r.Count("name_collision_programs_rejected", 1) // a clash the compiler refuses is no run at all
					return
				}
				r.Count("name_collision_programs_run", 1)
			}
			c10Check(r, src, tx, &c, res, false, "random")
		}}
	})
	c10Process(r)
	c10LongPrefix(r)
	if r.NViolations() == 0 && r.Counter("process_loop_runs") == 0 {
		r.Inconclusive("coverage floor: no process loop was run")
	}
	if r.NViolations() == 0 && r.Counter("name_collision_programs_run") == 0 {
		r.Inconclusive("coverage floor: no program with a capture and a named loop of one name was run")
	}
	if r.NViolations() == 0 && r.Counter("runs_with_loop_instructions") == 0 {
		r.Inconclusive("no run executed a loop instruction")
	}
}

func c10Check(r *drv.Run, src string, texts [][]byte, c *wire.Case, res *wire.Result, sample bool, scope string) {
	if res.Died {
		if res.Guard == "wall" {
			r.Inconclusive("wall-clock watchdog fired")
			return
		}
		if res.Guard != "" && scope == "random" {
			// deeper random programs: legitimate exponential backtracking can exhaust the CPU/heap guard
			// before the step budget; like an over-budget run it is skipped, not judged
			r.Count("random_runs_over_budget_skipped", 1)
			return
		}
		sig := "worker-died:" + classifyFatal(res.Stderr)
		if res.Guard != "" {
			sig = "guard-" + res.Guard
		}
		r.Violate(&drv.Violation{Sig: sig, Panic: firstLines(res.Stderr, 2), Src: src, Case: c})
		return
	}
	if res.Panic != nil {
		r.Violate(&drv.Violation{Sig: "panic:" + res.Panic.Frame, Panic: res.Panic.Msg, Frame: res.Panic.Frame, Src: src, Case: c})
		return
	}
	if res.Compile == nil || !res.Compile.OK {
		msg := ""
		if res.Compile != nil {
			msg = res.Compile.Err
		}
		r.Inconclusive("enumerated program rejected by Compile: " + msg + " | " + src)
		return
	}
	for ti := range res.Runs {
		run := &res.Runs[ti]
		r.Eval(1)
		var text []byte
		if ti < len(texts) {
			text = texts[ti]
		}
		if run.Panic != nil {
			r.Violate(&drv.Violation{Sig: "run-panic:" + run.Panic.Frame, Panic: run.Panic.Msg, Frame: run.Panic.Frame, Src: src, Text: string(text), Case: c})
			continue
		}
		if stuck(run) {
			r.Violate(&drv.Violation{Sig: "no-progress-spin", Src: src, Text: string(text), Case: c, Detail: map[string]any{"monitor": run.Budget}})
			continue
		}
		if run.Budget != "" && scope == "random" {
			// deeper random programs may backtrack exponentially for good reasons: only the
			// enumerated scope has a budget derived from its own measured worst case
			r.Count("random_runs_over_budget_skipped", 1)
			continue
		}
		if run.Budget != "" {
			r.Violate(&drv.Violation{Sig: "step-budget-exceeded", Src: src, Text: string(text), Case: c, Detail: map[string]any{"budget": run.Budget}})
			continue
		}
		r.Max("steps_"+scope, run.Steps)
		r.Count("vm_steps", run.Steps)
		if run.Kinds["StartLoop"] > 0 {
			r.Count("runs_with_loop_instructions", 1)
			r.Nontrivial(src + "\x00" + string(text))
		}
		if run.Steps > 100000 {
			r.Count("runs_over_100k_steps", 1)
		}
	}
	if sample && len(texts) > 0 {
		r.Sample(map[string]any{"program": src, "text": string(texts[len(texts)-1])})
	}
}

// c10Process: bounded `loop ... end` bodies in transforms and predicates. The loops end by construction (a counter
// with a limit, or a string that loses its head on every pass); `continue`, `break` and `return` stand at every
// position relative to the statement that makes the progress.
func c10Process(r *drv.Run) {
	bodies := []string{
		// counter first, continue later
		"set i to 0 set s to '' loop set i to i + 1 if i > 4 then break end if i == 2 then continue end set s to s + 'x' end return s",
		// continue before anything else of the pass but after the counter
		"set i to 0 loop set i to i + 1 if i < 3 then continue end break end return i",
		// two continues on one pass path
		"set i to 0 set n to 0 loop set i to i + 1 if i > 6 then break end if i % 2 == 0 then continue end if i == 5 then continue end set n to n + i end return n",
		// head/tail loop: the string shrinks before the continue
		"set w to match set n to 0 loop if w == '' then break end set c to head w set w to tail w if c == 'a' then continue end set n to n + 1 end return n",
		// nested loops, continue in the inner one, break out of both by counters
		"set i to 0 set t to 0 loop set i to i + 1 if i > 3 then break end set j to 0 loop set j to j + 1 if j > 3 then break end if j == i then continue end set t to t + 1 end end return t",
		// continue as the LAST statement of the body, and a loop whose body is only a break
		"set i to 0 loop set i to i + 1 if i >= 3 then break end continue end loop break end return i",
		// a loop that counts in a name it never initialises (unassigned = the empty string at the start of EVERY call:
		// the transform is used twice in one replacement, and for every match)
		"loop set out to out + '*' if out == '***' then break end end return out",
		"loop set k to k + 'x' if k == 'xxxx' then return k end end return 'never'",
		// return from inside a loop after a continue has been taken
		"set i to 0 loop set i to i + 1 if i == 1 then continue end if i == 3 then return 'three' end end return 'never'",
	}
	var srcs []string
	for _, b := range bodies {
		srcs = append(srcs, "set f to transform "+b+" end\nreplace all at least 1 letter with f ':' f '/' f")
		// ... and over matches that hold multi-byte characters and stray high bytes (a walk by head and tail goes
		// through them byte by byte)
		srcs = append(srcs, "set f to transform "+b+" end\nreplace all at least 1 not in ' ' with f")
		// the same loop in a predicate, its result turned into a verdict
		pb := strings.Replace(b, "return s", "return s == 'xxx'", 1)
		pb = strings.Replace(pb, "return i", "return i > 0", 1)
		pb = strings.Replace(pb, "return n", "return n >= 0", 1)
		pb = strings.Replace(pb, "return t", "return t > 0", 1)
		pb = strings.Replace(pb, "return 'three'", "return true", 1)
		pb = strings.Replace(pb, "return 'never'", "return false", 1)
		pb = strings.Replace(pb, "return out", "return out == '***'", 1)
		pb = strings.Replace(pb, "return k end", "return true end", 1)
		srcs = append(srcs, "set p to pattern at least 1 letter begin "+pb+" end\nfind all p")
	}
	texts := [][]byte{[]byte("a"), []byte("banana split"), []byte("aaa b"), []byte(""), []byte("xyz"), []byte("été naïve"), []byte("a\xffb \x80\x80 \xc3"), []byte("😊a 上"), []byte("aé")}
	r.Exec(len(srcs), drv.ExecOpts{Batch: 1}, func(i int) *drv.Item {
		src := srcs[i]
		c := wire.Case{Op: "run", Src: []byte(src), Texts: texts, StepBudget: 1_000_000}
		return &drv.Item{Case: c, Check: func(res *wire.Result) {
			r.Eval(1)
			if res.Died {
				if res.Guard == "wall" {
					r.Inconclusive("wall-clock watchdog fired")
					return
				}
				sig := "worker-died:" + classifyFatal(res.Stderr)
				if res.Guard != "" {
					sig = "process-loop-does-not-return:guard-" + res.Guard
				}
				r.Violate(&drv.Violation{Sig: sig, Panic: firstLines(res.Stderr, 2), Src: src, Case: &c})
				return
			}
			if res.Panic != nil || res.Compile == nil || !res.Compile.OK {
				msg := ""
				if res.Compile != nil {
					msg = res.Compile.Err
				}
				r.Inconclusive("process-loop program did not compile or the worker failed: " + oneLineN(msg, 120) + " | " + src)
				return
			}
			for ti := range res.Runs {
				if res.Runs[ti].Panic != nil {
					r.Violate(&drv.Violation{Sig: "run-panic:" + res.Runs[ti].Panic.Frame, Panic: res.Runs[ti].Panic.Msg, Frame: res.Runs[ti].Panic.Frame, Src: src, Text: string(texts[ti]), Case: &c})
					return
				}
			}
			r.Count("process_loop_runs", len(res.Runs))
			r.Nontrivial("process|" + src)
		}}
	})
}
