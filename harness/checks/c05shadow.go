package checks

import (
	"fmt"
	"strings"

	"verifharness/drv"
	"verifharness/wire"
)

// c05Shadow: a capture that carries the name of something a transform is given by the engine (`match`, `matchLength`).
// The property says a transform runs "with that match as `match`": the whole matched text, whatever the body calls its
// captures. The capture stands first, last, inside a loop or in one alternative only; the transform reads `match` (and
// `matchLength`) next to an ordinary capture.
func c05Shadow(r *drv.Run) {
	type shape struct {
		body string // %s = the shadowing name
	}
	shapes := []shape{
		{"((at least 1 letter) = %s) '-' ((at least 1 digit) = num)"},
		{"((at least 1 digit) = num) '-' ((at least 1 letter) = %s)"},
		{"((at least 1 digit) = num) '-' (at least 1 (letter = %s))"},
		{"((at least 1 digit) = num) '-' ((('x' or 'y') = %s) or letter)"},
		{"(((at least 1 digit) = num) '-' (letter = %s)) = outer"},
	}
	names := []string{"match", "matchLength"}
	transforms := []struct {
		src string
		fn  func(m string) string
	}{
		{"return '[' + match + ']'", func(m string) string { return "[" + m + "]" }},
		{"set s to '' + matchLength return s + '/' + match", func(m string) string { return fmt.Sprint(len(m)) + "/" + m }},
		{"if matchLength > 3 then return match + '+' end return match + '.'", func(m string) string {
			if len(m) > 3 {
				return m + "+"
			}
			return m + "."
		}},
	}
	texts := [][]byte{[]byte("ab-12 cd-7"), []byte("12-ab 7-x 33-yz"), []byte("1-x2-y 3-q"), []byte("-"), []byte("9-y")}
	type job struct{ s, n, t int }
	var jobs []job
	for s := range shapes {
		for n := range names {
			for t := range transforms {
				jobs = append(jobs, job{s, n, t})
			}
		}
	}
	r.Exec(len(jobs), drv.ExecOpts{Batch: 10}, func(i int) *drv.Item {
		jb := jobs[i]
		body := fmt.Sprintf(shapes[jb.s].body, names[jb.n])
		find := "find all " + body
		repl := "set wrap to transform " + transforms[jb.t].src + " end\nreplace all " + body + " with num ':' wrap"
		c := wire.Case{Op: "astcmp", Srcs: [][]byte{[]byte(find), []byte(repl)}, Texts: texts, StepBudget: 300000}
		return &drv.Item{Case: c, Check: func(res *wire.Result) {
			if crashOrGuard(r, res, &c, repl, false) {
				return
			}
			if len(res.Compiles) != 2 || len(res.Runs) != 2*len(texts) {
				r.Inconclusive("short result")
				return
			}
			for k := 0; k < 2; k++ {
				if !res.Compiles[k].OK {
					r.Inconclusive("shadow family: program rejected by Compile: " + res.Compiles[k].Err + " | " + string(c.Srcs[k]))
					return
				}
			}
			for ti, text := range texts {
				f := &res.Runs[ti]
				g := &res.Runs[len(texts)+ti]
				r.Eval(1)
				if runTrouble(r, f, &c, find, text, false) || runTrouble(r, g, &c, repl, text, false) {
					continue
				}
				if len(f.Matches) != len(g.Matches) {
					r.Violate(&drv.Violation{Sig: "shadowed-builtin:match-count-differs-from-find", Src: repl, Text: string(text), Case: &c,
						Detail: map[string]any{"find": len(f.Matches), "replace": len(g.Matches)}})
					return
				}
				for mi := range f.Matches {
					fm, gm := &f.Matches[mi], &g.Matches[mi]
					if string(fm.Val) != string(gm.Val) || fm.S != gm.S || fm.E != gm.E {
						r.Violate(&drv.Violation{Sig: "shadowed-builtin:match-differs-from-find", Src: repl, Text: string(text), Case: &c})
						return
					}
					num := ""
					if fm.Vars != nil && fm.Vars.Map["num"] != nil {
						num = string(fm.Vars.Map["num"].Str)
					}
					want := num + ":" + transforms[jb.t].fn(string(fm.Val))
					if string(gm.Repl) != want {
						r.Violate(&drv.Violation{Sig: "shadowed-builtin:transform-does-not-see-the-whole-match-as-" + names[jb.n], Src: repl, Text: string(text), Case: &c,
							Detail: map[string]any{"expected": want, "observed": string(gm.Repl), "match": string(fm.Val)}})
						return
					}
					r.Count("replacements_with_a_capture_named_like_a_builtin_checked", 1)
				}
			}
		}}
	})
	if r.NViolations() == 0 && r.Counter("replacements_with_a_capture_named_like_a_builtin_checked") == 0 {
		r.Inconclusive("coverage floor: replacements_with_a_capture_named_like_a_builtin_checked = 0")
	}
	_ = strings.Join
}
