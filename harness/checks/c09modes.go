package checks

import (
	"fmt"
	"os"
	"path/filepath"

	"verifharness/drv"
	"verifharness/wire"
)

// c09Modes: replace commands run through RunFiles in the modes that WRITE (NEW, OVERWRITE) as well as NOTHING: what is
// only computed for a text is also spliced into a file. Ten fixed commands whose replacement comes to nothing for all
// or some matches (a name defined nowhere, a capture only some matches bind, a named loop, an empty string, a
// transform returning the empty string) and generated replace commands with mixed with-lists (the generator of C05),
// each on files holding its own sampled texts.
func c09Modes(r *drv.Run, filesDir string) {
	fixed := []string{
		"replace all 'a' with nosuch",
		"replace all maybe ('x' = v) 'a' with v",
		"replace all at least 1 'a' named lp with lp",
		"replace all at least 1 ('a' = c) named lp with lp c",
		"replace all 'a' with ''",
		"replace all 'a' with '' nosuch ''",
		"set e to transform return '' end\nreplace all 'a' with e",
		"replace all (maybe 'x') = v 'a' with v",
		"replace top 2 'a' with nosuch\nreplace last 1 'b' with nosuch",
		"replace skip 1 take 1 letter with nosuch matchNumber",
	}
	fixedTexts := [][]byte{[]byte("a xa aa b\nab a"), []byte(""), []byte("zzz"), []byte("a")}
	n := 120
	if !quick(r) {
		n = 3000
	}
	modes := []string{"NEW", "OVERWRITE", "NOTHING"}
	total := len(fixed)*len(modes) + n
	r.Exec(total, drv.ExecOpts{Batch: 10}, func(i int) *drv.Item {
		var src, mode string
		var texts [][]byte
		if i < len(fixed)*len(modes) {
			src, mode, texts = fixed[i/len(modes)], modes[i%len(modes)], fixedTexts
		} else {
			cs := c05Gen(r.Seed+77, i)
			src, mode, texts = cs.repl, modes[i%2], cs.texts
			if len(texts) > 4 {
				texts = texts[:4]
			}
		}
		dir := filepath.Join(filesDir, fmt.Sprintf("modes%d", i))
		os.MkdirAll(dir, 0o755)
		var paths []string
		for k, t := range texts {
			p := filepath.Join(dir, fmt.Sprintf("t%d.txt", k))
			os.WriteFile(p, t, 0o644)
			paths = append(paths, p)
		}
		c := wire.Case{Op: "runfiles", Src: []byte(src), Files: paths, Mode: mode, StepBudget: 2_000_000}
		return &drv.Item{Case: c, Check: func(res *wire.Result) {
			defer os.RemoveAll(dir)
			r.Eval(1)
			if crashOrGuard(r, res, &c, src, true) {
				return
			}
			if res.Compile == nil || !res.Compile.OK || len(res.Runs) < 1 {
				if i < len(fixed)*len(modes) {
					r.Inconclusive("fixed program rejected: " + src)
				}
				return
			}
			run := &res.Runs[0]
			if run.Panic != nil {
				r.Violate(&drv.Violation{Sig: "run-panic:" + run.Panic.Frame, Panic: run.Panic.Msg, Frame: run.Panic.Frame, Src: src, Case: &c,
					Detail: map[string]any{"road": "RunFiles", "mode": mode, "files": len(paths)}})
				return
			}
			if run.Budget != "" {
				r.Count("skipped_expensive", 1)
				return
			}
			r.Count("replace_commands_run_through_files_in_mode_"+mode, 1)
			if len(run.Matches) > 0 {
				r.Nontrivial(fmt.Sprintf("modes|%s|%s", mode, src))
			}
		}}
	})
	if r.NViolations() == 0 {
		for _, m := range modes {
			if r.Counter("replace_commands_run_through_files_in_mode_"+m) == 0 {
				r.Inconclusive("coverage floor: replace_commands_run_through_files_in_mode_" + m + " = 0")
			}
		}
	}
}
