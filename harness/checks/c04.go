package checks

import (
	"encoding/json"
	"fmt"

	"verifharness/drv"
	"verifharness/gen"
	"verifharness/wire"
)

func init() { Registry["C04"] = C04 }

type amountVariant struct {
	am gen.Amount
}

func amountVariants() []gen.Amount {
	var out []gen.Amount
	for n := 0; n <= 5; n++ {
		out = append(out, gen.Amount{Kind: "top", Take: n})
		out = append(out, gen.Amount{Kind: "take", Take: n})
		out = append(out, gen.Amount{Kind: "skip", Skip: n})
		if n >= 1 {
			out = append(out, gen.Amount{Kind: "last", Last: n})
		}
	}
	// multi-digit amounts far beyond any len(A)
	out = append(out, gen.Amount{Kind: "top", Take: 12}, gen.Amount{Kind: "take", Take: 1000000}, gen.Amount{Kind: "skip", Skip: 10},
		gen.Amount{Kind: "last", Last: 100}, gen.Amount{Kind: "skiptake", Skip: 1, Take: 10}, gen.Amount{Kind: "skiptake", Skip: 12, Take: 1})
	for s := 0; s <= 4; s++ {
		for t := 0; t <= 4; t++ {
			out = append(out, gen.Amount{Kind: "skiptake", Skip: s, Take: t})
		}
	}
	// what separates the two halves of `skip s take t` is layout: comments and line breaks included
	out = append(out, gen.Amount{Kind: "skiptake", Skip: 1, Take: 2, Sep: " --(c)-- "}, gen.Amount{Kind: "skiptake", Skip: 2, Take: 1, Sep: " -- drop the first two\n"},
		gen.Amount{Kind: "skiptake", Skip: 1, Take: 1, Sep: "\n\t"}, gen.Amount{Kind: "skiptake", Skip: 0, Take: 3, Sep: "--(a)----(b)--"})
	// numbers spelled with leading zeros are decimal all the same
	out = append(out, gen.Amount{Kind: "top", Take: 2, Zeros: 1}, gen.Amount{Kind: "take", Take: 1, Zeros: 2}, gen.Amount{Kind: "skip", Skip: 1, Zeros: 1},
		gen.Amount{Kind: "last", Last: 2, Zeros: 1}, gen.Amount{Kind: "skiptake", Skip: 1, Take: 2, Zeros: 1})
	return out
}

// longVariants: amounts of 7..13 against texts with 14..20 matches, every number also with one and two leading zeros.
func longVariants() []gen.Amount {
	var out []gen.Amount
	for z := 0; z <= 2; z++ {
		for n := 7; n <= 13; n++ {
			out = append(out, gen.Amount{Kind: "top", Take: n, Zeros: z}, gen.Amount{Kind: "take", Take: n, Zeros: z},
				gen.Amount{Kind: "skip", Skip: n, Zeros: z}, gen.Amount{Kind: "last", Last: n, Zeros: z})
		}
		for _, st := range [][2]int{{8, 3}, {10, 2}, {11, 2}, {9, 9}, {7, 10}, {12, 1}} {
			out = append(out, gen.Amount{Kind: "skiptake", Skip: st[0], Take: st[1], Zeros: z})
		}
	}
	// three-digit amounts around powers of two, against a text with 300 matches
	for _, n := range []int{100, 127, 128, 129, 255, 256, 257, 299, 300, 301} {
		out = append(out, gen.Amount{Kind: "top", Take: n}, gen.Amount{Kind: "take", Take: n}, gen.Amount{Kind: "skip", Skip: n}, gen.Amount{Kind: "last", Last: n})
	}
	for _, st := range [][2]int{{100, 150}, {255, 2}, {256, 44}, {128, 128}, {299, 5}} {
		out = append(out, gen.Amount{Kind: "skiptake", Skip: st[0], Take: st[1]})
	}
	return out
}

func window(a []wire.Match, am gen.Amount) []wire.Match {
	n := len(a)
	clamp := func(x int) int {
		if x < 0 {
			return 0
		}
		if x > n {
			return n
		}
		return x
	}
	switch am.Kind {
	case "top", "take":
		return a[:clamp(am.Take)]
	case "skip":
		return a[clamp(am.Skip):]
	case "skiptake":
		return a[clamp(am.Skip):clamp(am.Skip+am.Take)]
	case "last":
		return a[clamp(n-am.Last):]
	}
	return a
}

func matchesJSON(ms []wire.Match) string {
	if len(ms) == 0 {
		return "[]"
	}
	b, _ := json.Marshal(ms)
	return string(b)
}

func C04(r *drv.Run) {
	r.BuildWorker()
	nbody, ntext := 250, 6
	if !quick(r) {
		nbody, ntext = 8000, 8
	}
	variants := amountVariants()
	longV := longVariants()
	r.Rule = fmt.Sprintf("bodies B from the core generator (alphabet {a,b}: occurrences overlap, lazy and bounded loops) plus fixed overlapping bodies, 24 bodies that open with one of the six anchors plain or negated, two bodies whose captures only some matches bind (replace commands list every capture of the body in their with-list) and four bodies whose named loops capture, are back-referenced from inside and outside, or reuse the name of an earlier capture; per (B, text) the `all` result A and %d amount clauses (top/take n, skip s, last n for n,s in 0..5, skip s take t for s,t in 0..4 - straddling len(A); a few spelled with leading zeros) as find and as replace commands; plus 6 fixed bodies (three of them over multi-byte characters, consumed in one piece and byte by byte) on texts with 14..20 matches under %d clauses with amounts 7..13, each number also spelled with one and two leading zeros (still decimal), and with amounts 100..301 (around 128 and 256) against a text with 300 matches. The capture shapes of C02 (eight literal choices each) and two loop-capture-then-back-reference bodies under seven clauses on all texts over {a,b} up to length 4: what was bound on an abandoned path of an attempt before the window does not let a non-match through. Replace commands whose with-list names one built-in of the replacer each (value, matchNumber, startOffset, endOffset, lineNumber, columnNumber, totalMatches, filename) under every clause: the window is the stated one whatever the replacement reads (the replacement text is compared too, except for totalMatches). Replace commands whose with-list holds only strings and captures over five bodies that capture the same text under different names depending on where it stands (an anchor inside one alternative): every match of every window carries the replacement made of its own captures. One RunFiles call over four files (by name and as a directory argument) under every clause, find and replace: every file gets the stated window of its own matches, the fourth as the first. Result lists of 300 007 matches (thorough: also 2^21 + 3), find and replace, seven clauses with amounts next to both ends of the list, compared inside the worker match by match (op bigwindows). Oracle: each clause's result must deep-equal (every field, incl. MatchNumber, variables, replacement) the stated slice of A; A itself is checked against the reference matcher. Non-trivial = len(A) >= 2 and the clause cuts A properly (0 < window < len(A)); distinct by (B, text, clause).", len(variants), len(longV))
	r.Assumptions = []string{"`last n` only for n >= 1 (the property's range)", "A itself judged by the C01 reference so the relation cannot hold vacuously on a wrong A"}
	fixed := [][]gen.Node{
		{gen.Lit{S: "aa"}},
		{gen.Loop{Min: 0, Max: 2, Form: "atmost", Body: gen.Lit{S: "a"}}},
		{gen.Loop{Min: 1, Max: -1, Lazy: true, Form: "atleast", Body: gen.Class{Kind: "any"}}},
		{gen.Lit{S: "a"}, gen.Loop{Min: 0, Max: 1, Form: "maybe", Body: gen.Lit{S: "a"}}},
		{gen.Capture{Name: "x", Body: gen.Class{Kind: "letter"}}, gen.Loop{Min: 0, Max: 1, Form: "maybe", Body: gen.BackRef{Name: "x"}}},
	}
	// every anchor, plain and negated, as the FIRST element of the body (a command whose body opens with `file start`
	// matches once at most; one that opens with `not file start` matches almost everywhere)
	anchorA := len(fixed)
	for _, kind := range []string{"filestart", "fileend", "linestart", "lineend", "wordstart", "wordend"} {
		for _, not := range []bool{false, true} {
			fixed = append(fixed, []gen.Node{gen.Anchor{Kind: kind, Not: not}, gen.Loop{Min: 0, Max: 1, Form: "maybe", Body: gen.Class{Kind: "letter"}}, gen.Loop{Min: 0, Max: 1, Form: "maybe", Body: gen.Lit{S: " "}}})
			fixed = append(fixed, []gen.Node{gen.Anchor{Kind: kind, Not: not}, gen.Class{Kind: "any"}})
		}
	}
	anchorB := len(fixed)
	// a capture that only SOME matches bind, used in the with-list of a replace command: the replacement of a match is
	// made from that match alone, whichever matches were replaced before it
	optCapA := len(fixed)
	fixed = append(fixed,
		[]gen.Node{gen.Lit{S: "a"}, gen.Loop{Min: 0, Max: 1, Form: "maybe", Body: gen.Seq{Items: []gen.Node{gen.Capture{Name: "x", Body: gen.Lit{S: "b"}}}}}},
		[]gen.Node{gen.Or{Alts: []gen.Node{gen.Seq{Items: []gen.Node{gen.Capture{Name: "x", Body: gen.Lit{S: "ab"}}}}, gen.Seq{Items: []gen.Node{gen.Capture{Name: "y", Body: gen.Lit{S: "a"}}}}, gen.Lit{S: "b"}}}},
	)
	// named loops whose captures and names interact with back-references (the name of a loop is also the scope of
	// what it captures; a loop may reuse the name of an earlier capture): whatever these mean, they mean the same
	// under every clause. Their `all` result is not judged against the reference, only the windows against it.
	nFixedPlain := len(fixed)
	any1 := gen.Class{Kind: "any"}
	fixed = append(fixed,
		[]gen.Node{gen.Or{Alts: []gen.Node{gen.Seq{Items: []gen.Node{gen.Loop{Min: 1, Max: -1, Form: "atleast", Name: "pairs", Body: gen.Seq{Items: []gen.Node{gen.Capture{Name: "c", Body: any1}, gen.BackRef{Name: "c"}}}}}}, gen.Lit{S: "x"}}}},
		[]gen.Node{gen.Or{Alts: []gen.Node{gen.Seq{Items: []gen.Node{gen.Capture{Name: "k", Body: gen.Lit{S: "a"}}, gen.Loop{Min: 1, Max: -1, Form: "atleast", Name: "k", Body: gen.Lit{S: "b"}}, gen.BackRef{Name: "k"}}}, gen.Lit{S: "b"}, gen.Lit{S: "a"}}}},
		[]gen.Node{gen.Or{Alts: []gen.Node{gen.Seq{Items: []gen.Node{gen.Loop{Min: 1, Max: 2, Form: "between", Name: "it", Body: gen.Seq{Items: []gen.Node{gen.Capture{Name: "c", Body: gen.Class{Kind: "letter"}}}}}, gen.BackRef{Name: "c"}}}, gen.Class{Kind: "digit"}, gen.Lit{S: "b"}}}},
		[]gen.Node{gen.Capture{Name: "c", Body: gen.Class{Kind: "letter"}}, gen.Loop{Min: 0, Max: -1, Form: "atleast", Name: "rest", Body: gen.Seq{Items: []gen.Node{gen.Capture{Name: "d", Body: gen.Class{Kind: "digit"}}}}}, gen.Loop{Min: 0, Max: 1, Form: "maybe", Body: gen.BackRef{Name: "c"}}, gen.Loop{Min: 0, Max: 1, Form: "maybe", Body: gen.BackRef{Name: "d"}}},
	)
	namedTexts := [][]byte{[]byte("aaxbbxx"), []byte("abaabba"), []byte("ab1ba2aa bb7"), []byte("a1a b22b c3 d"), []byte("xxaabbxbaab1")}
	longBodies := [][]gen.Node{
		{gen.Lit{S: "ab"}},
		{gen.Class{Kind: "letter"}},
		{gen.Capture{Name: "x", Body: gen.Class{Kind: "any"}}, gen.Loop{Min: 0, Max: 1, Form: "maybe", Body: gen.BackRef{Name: "x"}}},
		// multi-byte characters consumed in one piece (a literal) and byte by byte (any): line and column of what
		// follows a skipped match
		{gen.Lit{S: "é"}, gen.Class{Kind: "digit"}},
		{gen.Lit{S: "ab", Not: true}},
		{gen.Class{Kind: "any"}, gen.Lit{S: "€"}, gen.Loop{Min: 0, Max: 1, Form: "maybe", Body: gen.Lit{S: "\n"}}},
	}
	longTexts := [][]byte{[]byte("abababababababababababababab"), []byte("ab ab ab ab ab ab ab ab ab ab ab ab ab ab ab ab"), []byte("aabbaabbaabbaabbaabbaabbaabb\nabab"), []byte(rep("ab ", 300)),
		[]byte("é1 é2 é3 é4 é5 é6 é7 é8 é9 é0 é1 é2 é3 é4 é5"), []byte("x€\ny€z€\n€é€ é€\né€x€ y€ z€ a€ b€ c€ d€ e€")}
	r.Exec(nbody+2*len(longBodies), drv.ExecOpts{Batch: 4}, func(i int) *drv.Item {
		rng := gen.Derive(r.Seed, "C04", i)
		var p *gen.Program
		variants := variants
		long := i >= nbody
		if long {
			p = &gen.Program{Commands: []gen.Command{{Amount: gen.Amount{Kind: "all"}, Body: longBodies[(i-nbody)/2]}}}
			variants = longV
		} else if i < len(fixed) {
			p = &gen.Program{Commands: []gen.Command{{Amount: gen.Amount{Kind: "all"}, Body: fixed[i]}}}
		} else {
			sc := gen.DefaultScope
			sc.MaxDepth = 2
			sc.Globals = i%5 == 0
			p = gen.NewPG(rng, sc).FindProgram()
		}
		replace := i%3 == 1
		if long {
			replace = (i-nbody)%2 == 1
		}
		if !long && (i == optCapA || i == optCapA+1) {
			replace = true
		}
		if replace {
			p.Commands[0].Replace = true
			p.Commands[0].With = []gen.WithItem{{Kind: "str", S: "<"}, {Kind: "var", S: "value"}, {Kind: "var", S: "matchNumber"}, {Kind: "str", S: ">"}}
			// every capture of the body, bound by this match or not
			for _, cn := range gen.CaptureNames(p.Commands[0].Body) {
				p.Commands[0].With = append(p.Commands[0].With, gen.WithItem{Kind: "str", S: "|"}, gen.WithItem{Kind: "var", S: cn})
			}
			if i%2 == 1 {
				// a transform that reads the match's own number, offsets, line and column: the replacement of a match is
				// the same under every clause that selects it
				p.Transforms = []gen.Transform{{Name: "tn", Src: "return '#' + matchNumber + '@' + startOffset + '-' + endOffset + ':' + matchLength + ',' + lineNumber + ',' + columnNumber"}}
				p.Commands[0].With = append(p.Commands[0].With, gen.WithItem{Kind: "var", S: "tn"})
			}
		}
		sm := gen.NewSampler(rng, p, []byte("ab\n A"))
		texts := sm.Inputs(p.Commands[0].Body, ntext-2, maxLenFor(p, 12))
		texts = append(texts, []byte("aaaaaa"), []byte("abababab"))
		if long {
			texts = longTexts
		}
		if !long && i >= anchorA && i < anchorB {
			texts = append(texts, []byte("a a\naa b a\n\na"), []byte("ab a.a a"), []byte("a\nb\nc d\n"))
		}
		if !long && (i == optCapA || i == optCapA+1) {
			texts = append(texts, []byte("ab a ab a a ab"), []byte("a ab b a b ab a"), []byte("a a ab a a"))
		}
		namedFixed := !long && i >= nFixedPlain && i < len(fixed)
		if namedFixed {
			texts = append(texts, namedTexts...)
		}
		srcs := [][]byte{[]byte(gen.RenderProgram(p))}
		for _, am := range variants {
			q := *p
			q.Commands = []gen.Command{p.Commands[0]}
			q.Commands[0].Amount = am
			srcs = append(srcs, []byte(gen.RenderProgram(&q)))
		}
		c := wire.Case{Op: "astcmp", Srcs: srcs, Texts: texts, StepBudget: 60000}
		baseSrc := string(srcs[0])
		return &drv.Item{Case: c, Check: func(res *wire.Result) {
			if crashOrGuard(r, res, &c, baseSrc, false) {
				return
			}
			if len(res.Compiles) != len(srcs) || len(res.Runs) != len(srcs)*len(texts) {
				r.Inconclusive("worker returned a short result")
				return
			}
			for k := range res.Compiles {
				if !res.Compiles[k].OK && k > 0 && res.Compiles[0].OK && res.Compiles[k].Panic == nil {
					// the same body under `all` compiled: only the amount clause differs
					sig := "amount-clause-rejected:" + variants[k-1].Kind
					if variants[k-1].Zeros > 0 {
						sig = "leading-zero-amount-rejected"
					}
					r.Violate(&drv.Violation{Sig: sig, Src: string(srcs[k]), Err: res.Compiles[k].Err, Case: &c,
						Detail: map[string]any{"all": baseSrc, "error": oneLineN(res.Compiles[k].Err, 160)}})
					return
				}
				if !res.Compiles[k].OK {
					r.Inconclusive("generated program rejected by Compile: " + res.Compiles[k].Err + " | " + string(srcs[k]))
					return
				}
			}
			body := p.Commands[0].Body
			for ti, text := range texts {
				A := &res.Runs[ti]
				if A.Panic != nil || A.Budget != "" {
					if A.Panic != nil {
						r.Violate(&drv.Violation{Sig: "run-panic:" + A.Panic.Frame, Panic: A.Panic.Msg, Frame: A.Panic.Frame, Src: baseSrc, Text: string(text), Case: &c})
					} else {
						r.Count("skipped_expensive", 1)
					}
					continue
				}
				// A itself
				alts, gaveUp := expectedScans(p, body, string(text), 400000)
				if namedFixed {
					gaveUp = true
					if len(A.Matches) >= 3 {
						r.Count("named_loop_scope_bodies_with_three_or_more_matches", 1)
					}
				}
				if !gaveUp {
					ok := false
					for _, a := range alts {
						if sameSpans(spansOf(A.Matches), refSpans(a)) {
							ok = true
						}
					}
					if !ok {
						r.Violate(&drv.Violation{Sig: "all-result-differs-from-reference", Src: baseSrc, Text: string(text), Case: &c,
							Detail: map[string]any{"expected": fmtSpans(refSpans(alts[0])), "observed": fmtSpans(spansOf(A.Matches))}})
						continue
					}
				}
				r.Max("len_A", len(A.Matches))
				for vi, am := range variants {
					run := &res.Runs[(vi+1)*len(texts)+ti]
					r.Eval(1)
					r.Count("runs_total", 1)
					vsrc := string(srcs[vi+1])
					if runTrouble(r, run, &c, vsrc, text, false) {
						continue
					}
					want := window(A.Matches, am)
					if matchesJSON(run.Matches) != matchesJSON(want) {
						r.Violate(&drv.Violation{Sig: "window:" + am.Kind, Src: vsrc, Text: string(text), Case: &c,
							Detail: map[string]any{"all": fmtGot(A.Matches), "expected_window": fmtGotN(want), "observed": fmtGotN(run.Matches)}})
						continue
					}
					if len(A.Matches) >= 2 && len(want) > 0 && len(want) < len(A.Matches) {
						r.Nontrivial(vsrc + "\x00" + string(text))
						r.Count("proper_windows_"+am.Kind, 1)
						if am.Zeros > 0 {
							r.Count("proper_windows_leading_zero", 1)
						}
						if am.Skip+am.Take+am.Last >= 10 {
							r.Count("proper_windows_two_digit", 1)
						}
					}
				}
			}
			r.Sample(map[string]any{"all": baseSrc, "variant": string(srcs[len(srcs)/2]), "text": string(texts[len(texts)-1])})
		}}
	})
	c04Captures(r)
	c04Builtins(r)
	c04CaptureLists(r)
	c04Files(r)
	c04Big(r)
	if r.NViolations() == 0 {
		expensiveFloor(r)
		if r.Counter("named_loop_scope_bodies_with_three_or_more_matches") == 0 {
			r.Inconclusive("coverage floor: named_loop_scope_bodies_with_three_or_more_matches = 0")
		}
		for _, k := range []string{"top", "take", "skip", "skiptake", "last", "leading_zero", "two_digit"} {
			if r.Counter("proper_windows_"+k) == 0 {
				r.Inconclusive("no proper window observed for clause " + k)
			}
		}
	}
}

func fmtGotN(ms []wire.Match) string {
	s := ""
	for _, x := range ms {
		s += fmt.Sprintf("#%d[%d,%d) ", x.Num, x.S, x.E)
	}
	return "{" + s + "}"
}
