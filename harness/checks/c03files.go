package checks

import (
	"fmt"
	"os"
	"path/filepath"

	"verifharness/drv"
	"verifharness/gen"
	"verifharness/wire"
)

// c03Files: the same invariants on what RunFiles reports for a searched FILE - offsets, lines and columns are those of
// the file's bytes, whatever the file begins with (byte-order marks, an interpreter line, magic numbers, NUL bytes)
// and however long it is (sizes on both sides of the reader's 4096-byte window).
func c03Files(r *drv.Run) {
	dir := filepath.Join(r.WorkDir, "c03files")
	os.MkdirAll(dir, 0o755)
	defer os.RemoveAll(dir)
	progs := []struct {
		src string
		am  gen.Amount
	}{
		{"find all at least 1 digit", gen.Amount{Kind: "all"}},
		{"find all line start letter", gen.Amount{Kind: "all"}},
		{"find all letter line end", gen.Amount{Kind: "all"}},
		{"replace all 'ab' with 'X' startOffset", gen.Amount{Kind: "all"}},
		{"find all file start any", gen.Amount{Kind: "all"}},
		{"find last 3 at least 1 letter", gen.Amount{Kind: "last", Last: 3}},
		{"find all (letter = first) at most 3 letter file end", gen.Amount{Kind: "all"}},
	}
	type fl struct {
		path    string
		content []byte
	}
	var files []fl
	bodies := []string{"ab 12 cab\nab7\n\nc ab 901 b", "ab 1\r\nb 22 ab\r\nabab 3", ""}
	{
		rng := gen.Derive(r.Seed, "C03files", 0)
		alpha := []byte("abc ab12 b a\n")
		for _, n := range []int{4093, 4096, 4099, 9000} {
			b := make([]byte, n)
			for k := range b {
				b[k] = alpha[rng.Intn(len(alpha))]
			}
			bodies = append(bodies, string(b))
		}
	}
	for oi, op := range []string{"", "\xef\xbb\xbf", "\xff\xfe", "\xfe\xff", "#!/usr/bin/vore\n", "\x1f\x8b\x08", "\x00\x00", "\xef\xbb", "\xef\xbb\xbf\xef\xbb\xbf", "\n", "\r\n"} {
		for bi, body := range bodies {
			if bi >= 3 && oi > 4 {
				continue
			}
			p := filepath.Join(dir, fmt.Sprintf("f%d_%d.txt", oi, bi))
			content := []byte(op + body)
			os.WriteFile(p, content, 0o644)
			files = append(files, fl{p, content})
		}
	}
	type job struct{ p, f int }
	var jobs []job
	for p := range progs {
		for f := range files {
			jobs = append(jobs, job{p, f})
		}
	}
	r.Exec(len(jobs), drv.ExecOpts{Batch: 12}, func(i int) *drv.Item {
		jb := jobs[i]
		pr, f := progs[jb.p], files[jb.f]
		c := wire.Case{Op: "runfiles", Src: []byte(pr.src), Files: []string{f.path}, Mode: "NOTHING", StepBudget: 30_000_000}
		return &drv.Item{Case: c, Check: func(res *wire.Result) {
			if crashOrGuard(r, res, &c, pr.src, false) {
				return
			}
			if res.Compile == nil || !res.Compile.OK || len(res.Runs) < 1 {
				r.Inconclusive("fixed program rejected: " + pr.src)
				return
			}
			run := &res.Runs[0]
			r.Eval(1)
			if runTrouble(r, run, &c, pr.src, f.content[:min(len(f.content), 60)], false) {
				return
			}
			kind, msg := matchInvariants(f.content, run.Matches, pr.am, true)
			if kind != "" {
				r.Violate(&drv.Violation{Sig: "file:" + kind, Src: pr.src, Text: oneLineN(string(f.content), 60), Case: &c,
					Detail: map[string]any{"what": msg, "file_begins_with": fmt.Sprintf("%q", f.content[:min(len(f.content), 8)]), "file_size": len(f.content), "matches": len(run.Matches)}})
				return
			}
			r.Count("file_results_verified", 1)
			if len(run.Matches) > 0 {
				r.Nontrivial(fmt.Sprintf("file|%s|%d", pr.src, jb.f))
				r.Count("matches_checked", len(run.Matches))
			}
		}}
	})
	if r.NViolations() == 0 && r.Counter("file_results_verified") == 0 {
		r.Inconclusive("coverage floor: file_results_verified = 0")
	}
}
