package checks

import (
	"fmt"
	"strings"

	"verifharness/drv"
	"verifharness/gen"
	"verifharness/wire"
)

// c14Bounds: brace quantifiers whose bounds lie on both sides of 256 and 512 (and 300, 600), on texts long enough to
// tell the bound from the bound modulo a power of two.
func c14Bounds(r *drv.Run) {
	a := gen.Lit{S: "a"}
	ab := gen.In{Items: []gen.ListItem{{Kind: "lit", S: "a"}, {Kind: "lit", S: "b"}}}
	rep := func(s string, n int) string { return strings.Repeat(s, max(n, 0)) }
	var cases []*c14Case
	add := func(src string, items []gen.Node, texts ...string) {
		re := gen.Regex{Src: src, Tree: gen.Seq{Items: items}}
		p := &gen.Program{Commands: []gen.Command{{Amount: gen.Amount{Kind: "all"}, Body: []gen.Node{re}}}}
		var tb [][]byte
		for _, t := range texts {
			tb = append(tb, []byte(t))
		}
		cases = append(cases, &c14Case{&gen.RegexGen{}, re, p, gen.RenderProgram(p), tb, nil})
	}
	ns := []int{99, 100, 101, 127, 128, 129, 255, 256, 257, 300, 511, 512, 513, 600}
	for _, n := range ns {
		add(fmt.Sprintf("ca{%d}d", n), []gen.Node{gen.Lit{S: "c"}, gen.Loop{Min: n, Max: n, Body: a}, gen.Lit{S: "d"}},
			"c"+rep("a", n)+"d c"+rep("a", n-1)+"d c"+rep("a", n%256)+"d cd c"+rep("a", n+1)+"d c"+rep("a", n%128)+"d")
		add(fmt.Sprintf("a{%d}", n), []gen.Node{gen.Loop{Min: n, Max: n, Body: a}}, rep("a", n+5), rep("a", n-1)+" "+rep("a", 2*n+1))
		add(fmt.Sprintf("ca{0,%d}", n), []gen.Node{gen.Lit{S: "c"}, gen.Loop{Min: 0, Max: n, Body: a}}, "c"+rep("a", n+3)+" c c"+rep("a", n-1))
		add(fmt.Sprintf("ca{%d,}d", n), []gen.Node{gen.Lit{S: "c"}, gen.Loop{Min: n, Max: -1, Body: a}, gen.Lit{S: "d"}},
			"c"+rep("a", n)+"d cad c"+rep("a", n+2)+"d c"+rep("a", n-1)+"d c"+rep("a", n%256)+"d")
		add(fmt.Sprintf("c[ab]{%d}?", n), []gen.Node{gen.Lit{S: "c"}, gen.Loop{Min: n, Max: n, Lazy: true, Body: ab}}, "c"+rep("ab", n/2+2)+" c"+rep("b", n-1))
		add(fmt.Sprintf("ca{%d,%d}d", n-1, n+1), []gen.Node{gen.Lit{S: "c"}, gen.Loop{Min: n - 1, Max: n + 1, Body: a}, gen.Lit{S: "d"}},
			"c"+rep("a", n-2)+"d c"+rep("a", n-1)+"d c"+rep("a", n)+"d c"+rep("a", n+1)+"d c"+rep("a", n+2)+"d c"+rep("a", (n+1)%256)+"d")
	}
	r.Exec(len(cases), drv.ExecOpts{Batch: 4}, func(i int) *drv.Item {
		cs := cases[i]
		c := wire.Case{Op: "run", Src: []byte(cs.src), Texts: cs.texts, StepBudget: 6_000_000}
		return &drv.Item{Case: c, Check: func(res *wire.Result) {
			before := r.NViolations()
			c14Check(r, cs, &c, res)
			if r.NViolations() == before && len(res.Runs) > 0 && res.Runs[0].Budget == "" && len(res.Runs[0].Matches) > 0 {
				r.Count("large_bound_cases_with_matches", 1)
			}
		}}
	})
	if r.NViolations() == 0 && r.Counter("large_bound_cases_with_matches") < int64(len(cases)*3/4) {
		r.Inconclusive(fmt.Sprintf("coverage floor: only %d of %d large-bound regexes ran to the end with a match", r.Counter("large_bound_cases_with_matches"), len(cases)))
	}
}
