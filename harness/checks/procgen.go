package checks

import (
	"fmt"

	"verifharness/gen"
	"verifharness/proc"
)

// procGen builds random process-language expressions and statement lists.
type procGen struct {
	r       *gen.Rng
	nLoop   int
	strVar  []string
	numVar  []string
	boolVar []string
}

func newProcGen(r *gen.Rng) *procGen { return &procGen{r: r} }

// boundary strings for the string->number coercion ("decimal parse or 0"): canonical decimals, signs,
// blanks, and spellings that other parsers accept but a decimal parse must not (leading zeros are
// decimal, not octal; no base prefixes, digit separators, exponents, fractions)
var procStrs = []string{"", "0", "7", "12", "abc", "+3", " 4", "a", "b", "true", "-2", "010", "-012", "0x1F", "1_000", "0b11", "1e3", "3.5", "7 ", "+", "99999999999999999999", "9223372036854775807", "-9223372036854775808", "07", "00", "-0", "+0", "+7", "0012", " 12", "-01"}
var procNums = []int{0, 1, 2, -1, 7, 12, 9223372036854775807, -9223372036854775807, 3, 4, 10, -2, -12}
var binOps = []string{"+", "-", "*", "/", "%", "<", ">", "<=", ">=", "==", "!=", "and", "or"}
var unOps = []string{"not", "head", "tail"}

func (g *procGen) leaf() proc.Expr {
	switch g.r.Intn(9) {
	case 0, 1:
		return proc.EStr{V: procStrs[g.r.Intn(len(procStrs))]}
	case 2, 3:
		return proc.ENum{V: procNums[g.r.Intn(len(procNums))]}
	case 4:
		return proc.EBool{V: g.r.Bool()}
	case 5:
		if len(g.strVar) > 0 {
			return proc.EVar{Name: g.strVar[g.r.Intn(len(g.strVar))]}
		}
		return proc.EVar{Name: "match"}
	case 6:
		if len(g.numVar) > 0 {
			return proc.EVar{Name: g.numVar[g.r.Intn(len(g.numVar))]}
		}
		return proc.EVar{Name: "matchLength"}
	case 7:
		if len(g.boolVar) > 0 {
			return proc.EVar{Name: g.boolVar[g.r.Intn(len(g.boolVar))]}
		}
		return proc.EBool{V: true}
	}
	return proc.EVar{Name: "match"}
}

// anyExpr: unconstrained tree (often ill typed).
func (g *procGen) anyExpr(depth int) proc.Expr {
	if depth <= 0 || g.r.Chance(1, 3) {
		return g.leaf()
	}
	if g.r.Chance(1, 5) {
		return proc.EUn{Op: unOps[g.r.Intn(3)], X: g.anyExpr(depth - 1)}
	}
	return proc.EBin{Op: binOps[g.r.Intn(len(binOps))], L: g.anyExpr(depth - 1), R: g.anyExpr(depth - 1)}
}

// typed: a well-typed tree of the requested type (right operands are free: they get coerced).
func (g *procGen) typed(t proc.Type, depth int) proc.Expr {
	r := g.r
	if depth <= 0 || r.Chance(1, 4) {
		switch t {
		case proc.TStr:
			if r.Chance(1, 3) {
				if len(g.strVar) > 0 && r.Bool() {
					return proc.EVar{Name: g.strVar[r.Intn(len(g.strVar))]}
				}
				return proc.EVar{Name: "match"}
			}
			return proc.EStr{V: procStrs[r.Intn(len(procStrs))]}
		case proc.TNum:
			if r.Chance(1, 3) {
				if len(g.numVar) > 0 && r.Bool() {
					return proc.EVar{Name: g.numVar[r.Intn(len(g.numVar))]}
				}
				return proc.EVar{Name: "matchLength"}
			}
			return proc.ENum{V: procNums[r.Intn(len(procNums))]}
		default:
			if len(g.boolVar) > 0 && r.Chance(1, 3) {
				return proc.EVar{Name: g.boolVar[r.Intn(len(g.boolVar))]}
			}
			return proc.EBool{V: r.Bool()}
		}
	}
	anyT := func() proc.Type { return []proc.Type{proc.TStr, proc.TNum, proc.TBool}[r.Intn(3)] }
	cmp := []string{"<", ">", "<=", ">=", "==", "!="}
	switch t {
	case proc.TStr:
		switch r.Intn(3) {
		case 0:
			return proc.EBin{Op: "+", L: g.typed(proc.TStr, depth-1), R: g.typed(anyT(), depth-1)}
		case 1:
			return proc.EUn{Op: "head", X: g.typed(proc.TStr, depth-1)}
		default:
			return proc.EUn{Op: "tail", X: g.typed(proc.TStr, depth-1)}
		}
	case proc.TNum:
		ar := []string{"+", "-", "*", "/", "%"}
		if r.Chance(1, 4) {
			// **number** op number: string on the left, number on the right
			return proc.EBin{Op: ar[1+r.Intn(4)], L: g.typed(proc.TStr, depth-1), R: g.typed(proc.TNum, depth-1)}
		}
		return proc.EBin{Op: ar[r.Intn(5)], L: g.typed(proc.TNum, depth-1), R: g.typed(anyT(), depth-1)}
	default:
		switch r.Intn(5) {
		case 0:
			return proc.EUn{Op: "not", X: g.typed(proc.TBool, depth-1)}
		case 1:
			return proc.EBin{Op: []string{"and", "or"}[r.Intn(2)], L: g.typed(proc.TBool, depth-1), R: g.typed(anyT(), depth-1)}
		default:
			return proc.EBin{Op: cmp[r.Intn(6)], L: g.typed(anyT(), depth-1), R: g.typed(anyT(), depth-1)}
		}
	}
}

func (g *procGen) exprFor(t proc.Type, depth int, wellTyped bool) proc.Expr {
	if wellTyped {
		return g.typed(t, depth)
	}
	return g.anyExpr(depth)
}

// stmtList builds n statements; loops always carry a counter that increments first and
// breaks at a small bound, so every generated program terminates.
func (g *procGen) stmtList(depth, n int, transform bool, inLoop bool, wellTyped bool) []proc.Stmt {
	var out []proc.Stmt
	r := g.r
	for i := 0; i < n; i++ {
		switch r.Intn(9) {
		case 0, 1:
			t := []proc.Type{proc.TStr, proc.TNum, proc.TBool}[r.Intn(3)]
			var name string
			switch t {
			case proc.TStr:
				name = fmt.Sprintf("s%d", 1+r.Intn(2))
				g.strVar = appendUnique(g.strVar, name)
			case proc.TNum:
				name = fmt.Sprintf("n%d", 1+r.Intn(2))
				g.numVar = appendUnique(g.numVar, name)
			default:
				name = fmt.Sprintf("b%d", 1+r.Intn(2))
				g.boolVar = appendUnique(g.boolVar, name)
			}
			out = append(out, proc.SSet{Name: name, X: g.exprFor(t, 2, wellTyped || r.Chance(3, 4))})
		case 2:
			out = append(out, proc.SDebug{X: g.exprFor(proc.TStr, 1, wellTyped || r.Chance(3, 4))})
		case 3, 4:
			if depth > 0 {
				s := proc.SIf{Cond: g.exprFor(proc.TBool, 2, wellTyped || r.Chance(4, 5))}
				s.Then = g.stmtList(depth-1, 1+r.Intn(2), transform, inLoop, wellTyped)
				if r.Bool() {
					s.HasElse = true
					s.Else = g.stmtList(depth-1, 1+r.Intn(2), transform, inLoop, wellTyped)
				}
				out = append(out, s)
			}
		case 5:
			if depth > 0 {
				g.nLoop++
				iv := fmt.Sprintf("i%d", g.nLoop)
				out = append(out, proc.SSet{Name: iv, X: proc.ENum{V: 0}})
				body := []proc.Stmt{
					proc.SSet{Name: iv, X: proc.EBin{Op: "+", L: proc.EVar{Name: iv}, R: proc.ENum{V: 1}}},
					proc.SIf{Cond: proc.EBin{Op: ">", L: proc.EVar{Name: iv}, R: proc.ENum{V: 1 + r.Intn(3)}}, Then: []proc.Stmt{proc.SBreak{}}},
				}
				body = append(body, g.stmtList(depth-1, 1+r.Intn(2), transform, true, wellTyped)...)
				out = append(out, proc.SLoop{Body: body})
			}
		case 6:
			if inLoop || (!wellTyped && r.Chance(1, 6)) {
				if r.Bool() {
					out = append(out, proc.SBreak{})
				} else {
					out = append(out, proc.SContinue{})
				}
			}
		case 7, 8:
			var t proc.Type
			if transform {
				t = []proc.Type{proc.TStr, proc.TNum}[r.Intn(2)]
			} else {
				t = proc.TBool
			}
			if !wellTyped && r.Chance(1, 5) {
				t = []proc.Type{proc.TStr, proc.TNum, proc.TBool}[r.Intn(3)]
			}
			out = append(out, proc.SReturn{X: g.exprFor(t, 2, wellTyped || r.Chance(3, 4))})
		}
	}
	return out
}

func appendUnique(s []string, v string) []string {
	for _, x := range s {
		if x == v {
			return s
		}
	}
	return append(s, v)
}

// stmts renders a random statement list (used by C08/C09 as hostile-but-plausible process code).
func (g *procGen) stmts(depth, n int, transform bool) string {
	return proc.RenderStmts(g.stmtList(depth, n, transform, false, false), g.r.Bool())
}

// withInits prepends an unconditional, correctly typed initialisation for every variable the
// generator used, so that each variable keeps one type on every path ("single-typed").
func (g *procGen) withInits(ss []proc.Stmt) []proc.Stmt {
	var out []proc.Stmt
	for _, n := range g.strVar {
		out = append(out, proc.SSet{Name: n, X: proc.EStr{V: procStrs[g.r.Intn(len(procStrs))]}})
	}
	for _, n := range g.numVar {
		out = append(out, proc.SSet{Name: n, X: proc.ENum{V: procNums[g.r.Intn(len(procNums))]}})
	}
	for _, n := range g.boolVar {
		out = append(out, proc.SSet{Name: n, X: proc.EBool{V: g.r.Bool()}})
	}
	return append(out, ss...)
}

func procRender(ss []proc.Stmt, full bool) string { return proc.RenderStmts(ss, full) }
