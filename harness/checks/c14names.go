package checks

import (
	"verifharness/drv"
	"verifharness/gen"
	"verifharness/wire"
)

// c14GroupNames: every ASCII letter and digit as a character of a group name - the name g<c> for all 62, <c>g and <c>
// alone for the 52 letters - in a named group judged by Go's regexp (spans and group text) and in a named group
// followed by its named back-reference (reference matcher): a name is a label, which characters it is made of changes
// nothing.
func c14GroupNames(r *drv.Run) {
	var names []string
	for c := byte('0'); c <= 'z'; c++ {
		letter := (c >= 'a' && c <= 'z') || (c >= 'A' && c <= 'Z')
		digit := c >= '0' && c <= '9'
		if !letter && !digit {
			continue
		}
		names = append(names, "g"+string([]byte{c}))
		if letter {
			names = append(names, string([]byte{c})+"g", string([]byte{c}))
		}
	}
	names = append(names, "Zip", "timeZone", "AZaz09", "zZ", "x0Z9")
	ab := gen.In{Items: []gen.ListItem{{Kind: "lit", S: "a"}, {Kind: "lit", S: "b"}}}
	plus := func(n gen.Node) gen.Node { return gen.Loop{Min: 1, Max: -1, Body: n} }
	texts := [][]byte{[]byte("ab-ab"), []byte("aa-a b-"), []byte("a-aa-aa"), []byte("-"), []byte("bab-bab-")}
	var cases []*c14Case
	for _, nm := range names {
		// (?<nm>[ab]+)-      judged by Go
		re1 := gen.Regex{Src: "(?<" + nm + ">[ab]+)-", Tree: gen.Seq{Items: []gen.Node{gen.Seq{Items: []gen.Node{gen.Capture{Name: nm, Body: gen.Seq{Items: []gen.Node{plus(ab)}}}}}, gen.Lit{S: "-"}}}}
		// (?<nm>a+)-\k<nm>   judged by the reference
		re2 := gen.Regex{Src: "(?<" + nm + ">a+)-\\k<" + nm + ">", Tree: gen.Seq{Items: []gen.Node{gen.Seq{Items: []gen.Node{gen.Capture{Name: nm, Body: gen.Seq{Items: []gen.Node{plus(gen.Lit{S: "a"})}}}}}, gen.Lit{S: "-"}, gen.BackRef{Name: nm}}}}
		for k, re := range []gen.Regex{re1, re2} {
			p := &gen.Program{Commands: []gen.Command{{Amount: gen.Amount{Kind: "all"}, Body: []gen.Node{re}}}}
			rg := &gen.RegexGen{NGroups: 1, Names: []string{nm}, Named: true, HasBackRef: k == 1}
			cases = append(cases, &c14Case{rg, re, p, gen.RenderProgram(p), texts, nil})
		}
	}
	r.Exec(len(cases), drv.ExecOpts{Batch: 40}, func(i int) *drv.Item {
		cs := cases[i]
		c := wire.Case{Op: "run", Src: []byte(cs.src), Texts: cs.texts, StepBudget: 400000}
		return &drv.Item{Case: c, Check: func(res *wire.Result) {
			before := r.NViolations()
			c14Check(r, cs, &c, res)
			if r.NViolations() == before {
				r.Count("group_names_over_every_letter_and_digit", 1)
			}
		}}
	})
}
