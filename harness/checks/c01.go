package checks

import (
	"fmt"

	"verifharness/drv"
	"verifharness/gen"
	"verifharness/ref"
	"verifharness/rx"
	"verifharness/wire"
)

func init() { Registry["C01"] = C01 }

// relocatable instruction kinds whose adjust() must be exercised at non-zero offsets
var relocKindsWanted = []string{"CallSubroutine", "Branch", "StartNotIn", "StartLoop", "StopLoop", "StartSubroutine", "Jump"}

type c01Case struct {
	prog  *gen.Program
	src   string
	texts [][]byte
}

func c01Random(seed uint64, i int, ntexts int) *c01Case {
	rng := gen.Derive(seed, "C01", i)
	if i%20 == 13 {
		// wide rather than deep: counts of captures, alternatives, list items, groups, subroutines, stored
		// patterns and lines on both sides of 10, 16, 32, 64, 100, 128, 256
		p, texts, _ := gen.WideProgram(rng, rng.Intn(gen.WideKinds))
		return &c01Case{p, gen.RenderProgram(p), texts}
	}
	sc := gen.DefaultScope
	switch i % 5 {
	case 0:
		sc.Alpha = "ab"
	case 1:
		sc.Alpha = "abc"
	case 2:
		sc.Alpha = "ab"
		sc.MaxDepth = 4
	case 3:
		sc.Alpha = "ab"
		sc.Globals = true
		sc.Captures = false
		sc.BackRefs = false
	case 4:
		sc.Alpha = "ax"
	}
	pg := gen.NewPG(rng, sc)
	p := pg.FindProgram()
	if rng.Chance(1, 6) {
		// naming a loop changes what is reported about it, not what it matches
		n := 0
		p.Commands[0].Body = gen.NameLoops(rng, p.Commands[0].Body, &n)
	}
	src := gen.RenderProgram(p)
	ta := TextAlphaFor(sc.Alpha)
	if i%4 == 1 {
		ta = TextAlphaBoundary(sc.Alpha)
	}
	if i%4 == 3 {
		// the property quantifies over all byte strings: UTF-8 lead AND continuation bytes, valid pairs,
		// stray continuation bytes, 0xff (the Go-regexp cross-check skips these texts, the reference does not)
		ta = append(ta, 0xA9, 0xA9, 0x89, 0xBF, 0x80, 0xFF, 0xE2, 0x82, 0xAC)
	}
	sm := gen.NewSampler(rng, p, ta)
	texts := sm.Inputs(p.Commands[0].Body, ntexts, maxLenFor(p, 14))
	return &c01Case{p, src, texts}
}

// checkSpans compares one run with the reference (and, on the regular subset, with Go's regexp).
func checkSpansCase(r *drv.Run, cs *c01Case, res *wire.Result, sc *rx.Scanner, label string) {
	c := &wire.Case{Op: "run", Src: []byte(cs.src), Texts: cs.texts, StepBudget: 400000}
	if crashOrGuard(r, res, c, cs.src, false) {
		return
	}
	if compileTrouble(r, res, c, cs.src, false) {
		return
	}
	for _, k := range res.Compile.Reloc {
		// "gN:Kind": instruction kinds seen inside relocated global patterns
		if len(k) > 1 && k[0] == 'g' {
			for j := 0; j < len(k); j++ {
				if k[j] == ':' {
					r.Count("reloc_"+k[j+1:], 1)
					break
				}
			}
		}
	}
	body := cs.prog.Commands[0].Body
	for ti, text := range cs.texts {
		if ti >= len(res.Runs) {
			break
		}
		run := &res.Runs[ti]
		r.Eval(1)
		r.Count("runs_total", 1)
		if runTrouble(r, run, c, cs.src, text, false) {
			continue
		}
		mergeKinds(r, run)
		alts, gaveUp := expectedScans(cs.prog, body, string(text), 400000)
		if gaveUp {
			r.Count("reference_gave_up", 1)
			continue
		}
		got := spansOf(run.Matches)
		okAny := false
		for _, a := range alts {
			if sameSpans(got, refSpans(a)) {
				okAny = true
				break
			}
		}
		if len(alts) > 1 && !sameSpans(refSpans(alts[0]), refSpans(alts[1])) {
			r.Count("dont_care_policy_mattered", 1)
		}
		exp := refSpans(alts[0])
		// monitor the monitor: Go regexp on the regular subset
		if sc != nil && rx.TextOK(string(text)) {
			gs, err := sc.Scan(string(text))
			if err == nil {
				r.Count("regexp_crosschecked", 1)
				if !sameSpans(gs, exp) {
					r.Count("oracle_disagreement", 1)
					r.Inconclusive(fmt.Sprintf("oracle disagreement: reference %s vs Go regexp %s on %q for %s", fmtSpans(exp), fmtSpans(gs), text, cs.src))
					continue
				}
			}
		}
		if !okAny {
			r.Violate(&drv.Violation{Sig: label + "spans-differ", Src: cs.src, Text: string(text), Case: c,
				Detail: map[string]any{"expected": fmtSpans(exp), "observed": fmtSpans(got)}})
			continue
		}
		if len(exp) > 0 && run.Backtracks > 0 {
			r.Nontrivial(cs.src + "\x00" + string(text))
		}
		if len(exp) > 0 {
			r.Count("cases_with_match", 1)
		}
	}
	r.Sample(map[string]any{"program": cs.src, "text": string(cs.texts[0])})
}

func regexScanner(cs *c01Case) *rx.Scanner {
	re, ok, _ := rx.Translate(cs.prog, cs.prog.Commands[0].Body)
	if !ok {
		return nil
	}
	s := rx.NewScanner(re)
	if _, err := s.Scan("a"); err != nil {
		return nil
	}
	return s
}

func C01(r *drv.Run) {
	r.BuildWorker()
	nprog, ntext := 4000, 12
	if !quick(r) {
		nprog, ntext = 150000, 16
	}
	r.Rule = "programs: seeded random over the core search language (literals, not, caseless, classes, anchors, in/not in, all loop forms greedy and fewest, or, groups, captures, back-references, inline subroutines incl. guarded recursion, set-to-pattern with/without predicate) + exhaustive small programs + seven commands of escaped literals behind a run of blanks that puts the 4096- and 8192-byte read boundary of the lexer right before, inside and right after every escape + regex literals of ten to twelve plain groups with a back-reference to each group from 9 to 12 (10, the two-digit number ending in 0, among them) + every anchor, plain and negated, in eight small shapes on every text over {x, CR, LF, blank} up to length 5 (line ends written LF, CR LF and lone CR, also as the very last bytes); inputs derived from each program (sampled matches, prefixes, one-byte edits, concatenations, noise); plus a deep family: 8 fixed shapes (greedy / lazy loop then literal, loop of a group with an optional part, recursion depth, recursion inside a loop, many matches, capture in a deep loop then back-reference, negated-list run) on structured inputs sized k = 10, 63..65, 127..129, 255..257, 511..513 (thorough: ..1400) repetitions, and 5 counted-loop shapes whose bounds are k = 15..17, 31..33, 63..65, 100, 127..129 (thorough: ..300) on inputs with k-1, k, k+1, 2k, 2k+1 repetitions; plus caseless literals beyond ASCII (every ordered pair of 26 letters from Greek / Latin-1 / Cyrillic / digraph folding orbits, alone, in a loop with an alternative, in a list; five words). Oracle: reference backtracker (ref/), cross-checked by Go regexp on the regular subset. Non-trivial = reference found >= 1 match AND the VM hook saw >= 1 resume from a saved choice point; distinct by (program, text). Four programs whose subroutines are DEFINED INSIDE other subroutines and call the enclosing one again (among them a bracketed-sum grammar), on every text over {a,b,c} up to length 7. One random program in six has some of its loops named (the name changes what is reported, not what is matched), and the counted-loop family has named between / at least forms. One random program in twenty is WIDE rather than deep: 9..300 captures / alternatives / list items / optional groups / inline subroutines / stored patterns / anchored lines, counts on both sides of 10, 16, 32, 64, 100, 128, 256, on texts holding matches, near misses and leftovers."
	r.Assumptions = []string{
		"reference matcher (harness/ref) is the meaning of the pattern as written; it is cross-checked against Go regexp on the regular subset on every case",
		"word start at end of input / word end at offset 0 / word end at end of input after a non-word byte are don't-care (either answer accepted)",
		"generated programs run on inputs <= 14 bytes (legitimate backtracking is exponential); the deep family uses fixed linear-time shapes on inputs up to ~3 000 bytes",
		"`caseless` is undescribed in the documentation (TODO): it is taken to be Unicode simple case folding of equally long byte strings, which is what the pinned code does (plain ASCII folding on ASCII); checked on every ordered pair of 26 letters incl. the folding orbits with two lower-case members",
		"out of generator scope: whole line/word/file (C03, C09), non-ASCII bytes in generated patterns, subroutine definitions under loops with a minimum >= 1 (vore rejects those: name clash)",
	}

	// exhaustive small programs
	small := enumSmallPrograms()
	smallTexts := allTexts("ab", 4)
	if quick(r) {
		// quick: every second program of the enumeration, chosen by seed parity, all texts
	}
	r.Exec(len(small), drv.ExecOpts{Batch: 100}, func(i int) *drv.Item {
		if quick(r) && (uint64(i)+r.Seed)%3 != 0 {
			return nil
		}
		p := small[i]
		cs := &c01Case{prog: p, src: gen.RenderProgram(p), texts: smallTexts}
		sc := regexScanner(cs)
		return &drv.Item{Case: wire.Case{Op: "run", Src: []byte(cs.src), Texts: cs.texts, StepBudget: 400000},
			Check: func(res *wire.Result) {
				r.Count("exhaustive_small_programs", 1)
				checkSpansCase(r, cs, res, sc, "small:")
			}}
	})
	c01Anchors(r)
	c01Padded(r)
	c01TwoDigitRefs(r)
	// subroutines DEFINED INSIDE other subroutines that call the enclosing one again (mutual recursion through a nested
	// definition), on every text over {a,b,c} up to length 7 and on bracketed arithmetic
	{
		maybe := func(n gen.Node) gen.Node { return gen.Loop{Min: 0, Max: 1, Form: "maybe", Body: n} }
		a, b, cc := gen.Lit{S: "a"}, gen.Lit{S: "b"}, gen.Lit{S: "c"}
		nested := []*gen.Program{
			{Commands: []gen.Command{{Amount: gen.Amount{Kind: "all"}, Body: []gen.Node{gen.SubDef{Name: "q", Body: []gen.Node{a, gen.SubDef{Name: "r", Body: []gen.Node{b, maybe(gen.SubCall{Name: "q"})}}, cc}}}}}},
			{Commands: []gen.Command{{Amount: gen.Amount{Kind: "all"}, Body: []gen.Node{gen.SubDef{Name: "q", Body: []gen.Node{gen.Or{Alts: []gen.Node{cc, gen.Seq{Items: []gen.Node{a, gen.SubDef{Name: "r", Body: []gen.Node{gen.SubCall{Name: "q"}, maybe(gen.SubCall{Name: "q"})}}, b}}}}}}}}}},
			{Commands: []gen.Command{{Amount: gen.Amount{Kind: "all"}, Body: []gen.Node{gen.SubDef{Name: "q", Body: []gen.Node{a, maybe(gen.SubDef{Name: "r", Body: []gen.Node{b, gen.SubDef{Name: "t", Body: []gen.Node{maybe(gen.SubCall{Name: "q"}), cc}}}}), maybe(gen.SubCall{Name: "r"})}}}}}},
			{Commands: []gen.Command{{Amount: gen.Amount{Kind: "all"}, Body: []gen.Node{gen.SubDef{Name: "expr", Body: []gen.Node{
				gen.SubDef{Name: "term", Body: []gen.Node{gen.Or{Alts: []gen.Node{gen.Class{Kind: "digit"}, gen.Seq{Items: []gen.Node{gen.Lit{S: "("}, gen.SubCall{Name: "expr"}, gen.Lit{S: ")"}}}}}}},
				gen.Loop{Min: 0, Max: -1, Form: "atleast", Body: gen.Seq{Items: []gen.Node{gen.Lit{S: "+"}, gen.SubCall{Name: "term"}}}}}}}}}},
		}
		abc := allTexts("abc", 7)
		arith := [][]byte{[]byte("(1+2)+3"), []byte("1+2+3"), []byte("((1))+(2+(3+4))"), []byte("(1+(2)"), []byte("1+(2+3)+((4)+5) 6+(7"), []byte("()"), []byte("(1)+")}
		r.Exec(len(nested), drv.ExecOpts{Batch: 1}, func(i int) *drv.Item {
			p := nested[i]
			texts := abc
			if i == 3 {
				texts = arith
			}
			cs := &c01Case{prog: p, src: gen.RenderProgram(p), texts: texts}
			return &drv.Item{Case: wire.Case{Op: "run", Src: []byte(cs.src), Texts: cs.texts, StepBudget: 400000},
				Check: func(res *wire.Result) {
					before := r.NViolations()
					checkSpansCase(r, cs, res, nil, "nested-definitions:")
					if r.NViolations() == before {
						r.Count("programs_with_nested_definitions_verified", 1)
					}
				}}
		})
	}
	r.Extra["exhaustive_small"] = fmt.Sprintf("%d programs (depth<=2 over {a,b}) x %d texts (all strings over {a,b} up to length 4); quick runs one third of the programs selected by seed", len(small), len(smallTexts))

	r.Exec(nprog, drv.ExecOpts{Batch: 250}, func(i int) *drv.Item {
		cs := c01Random(r.Seed, i, ntext)
		sc := regexScanner(cs)
		if sc != nil {
			r.Count("programs_in_regular_subset", 1)
		}
		return &drv.Item{Case: wire.Case{Op: "run", Src: []byte(cs.src), Texts: cs.texts, StepBudget: 400000},
			Check: func(res *wire.Result) {
				checkSpansCase(r, cs, res, sc, "")
				if i%20 == 13 {
					for _, run := range res.Runs {
						if run.Budget == "" && run.Panic == nil && len(run.Matches) >= 2 {
							r.Count("wide_programs_with_two_or_more_matches", 1)
							break
						}
					}
				}
			}}
	})

	c01Deep(r)
	c01Caseless(r)

	// coverage floors: a run that observed nothing cannot pass
	if r.NViolations() == 0 {
		if r.Counter("wide_programs_with_two_or_more_matches") < int64(nprog/40) {
			r.Inconclusive(fmt.Sprintf("coverage floor: only %d of %d wide programs ran with two or more matches", r.Counter("wide_programs_with_two_or_more_matches"), nprog/20))
		}
		if r.Counter("caseless_non_ascii_runs_with_match") == 0 {
			r.Inconclusive("coverage floor: no caseless literal beyond ASCII matched")
		}
		if r.MaxOf("deep_backtrack_depth") < 500 || r.MaxOf("deep_call_depth") < 250 || r.MaxOf("deep_matches_in_one_run") < 500 {
			r.Inconclusive("coverage floor: the deep family did not reach backtrack depth 500 / call depth 250 / 500 matches in one run")
		}
		for _, k := range relocKindsWanted {
			if r.Counter("reloc_"+k) == 0 {
				r.Inconclusive("relocated instruction kind never exercised: " + k)
			}
		}
		if r.Counter("vm_backtracks") == 0 {
			r.Inconclusive("no case backtracked")
		}
		expensiveFloor(r)
		if r.Counter("regexp_crosschecked") == 0 {
			r.Inconclusive("Go regexp cross-check never ran")
		}
	}
}

// ---- exhaustive small enumeration -------------------------------------------------

func allTexts(alpha string, maxLen int) [][]byte {
	out := [][]byte{{}}
	prev := [][]byte{{}}
	for l := 1; l <= maxLen; l++ {
		var cur [][]byte
		for _, p := range prev {
			for i := 0; i < len(alpha); i++ {
				t := append(append([]byte{}, p...), alpha[i])
				cur = append(cur, t)
			}
		}
		out = append(out, cur...)
		prev = cur
	}
	return out
}

func smallAtoms() []gen.Node {
	return []gen.Node{
		gen.Lit{S: "a"}, gen.Lit{S: "b"}, gen.Lit{S: "ab"}, gen.Class{Kind: "any"}, gen.Lit{S: "a", Not: true},
		gen.In{Not: true, Items: []gen.ListItem{{Kind: "lit", S: "b"}}},
	}
}

func smallLevel1() []gen.Node {
	atoms := smallAtoms()
	out := append([]gen.Node{}, atoms...)
	forms := []gen.Loop{
		{Min: 0, Max: 1, Form: "maybe"}, {Min: 0, Max: 1, Lazy: true, Form: "maybe"},
		{Min: 0, Max: -1, Form: "atleast"}, {Min: 0, Max: -1, Lazy: true, Form: "atleast"},
		{Min: 1, Max: -1, Form: "atleast"}, {Min: 0, Max: 2, Form: "atmost"}, {Min: 1, Max: 2, Lazy: true, Form: "between"},
	}
	for _, f := range forms {
		for _, a := range atoms {
			l := f
			l.Body = a
			out = append(out, l)
		}
	}
	for _, a := range atoms[:4] {
		for _, b := range atoms[:4] {
			out = append(out, gen.Or{Alts: []gen.Node{a, b}})
		}
	}
	return out
}

func enumSmallPrograms() []*gen.Program {
	l1 := smallLevel1()
	var progs []*gen.Program
	mk := func(body ...gen.Node) {
		progs = append(progs, &gen.Program{Commands: []gen.Command{{Amount: gen.Amount{Kind: "all"}, Body: body}}})
	}
	for _, a := range l1 {
		mk(a)
	}
	for _, a := range l1 {
		for _, b := range l1 {
			mk(a, b)
		}
	}
	// loops over groups of two level-1 items (nested loops, alternation under loops)
	forms := []gen.Loop{{Min: 0, Max: -1, Form: "atleast"}, {Min: 0, Max: -1, Lazy: true, Form: "atleast"}, {Min: 1, Max: 2, Form: "between"}, {Min: 0, Max: 1, Form: "maybe"}}
	for fi, f := range forms {
		for i, a := range l1 {
			for j, b := range l1 {
				if (i*7+j*3+fi)%9 != 0 { // a fixed ninth of the product keeps the enumeration bounded
					continue
				}
				l := f
				l.Body = gen.Seq{Items: []gen.Node{a, b}}
				mk(l, gen.Lit{S: "b"})
			}
		}
	}
	_ = ref.CodeLike
	return progs
}

// ---- deep family: the same semantics at stack depths, loop counts and match counts far beyond what 14-byte
// inputs reach (backtrack stack, call stack, loop stack, match list; sizes at and next to powers of two) -----

type c01DeepTemplate struct {
	name  string
	body  []gen.Node
	texts func(k int) []string
}

func rep(s string, n int) string {
	out := make([]byte, 0, len(s)*n)
	for i := 0; i < n; i++ {
		out = append(out, s...)
	}
	return string(out)
}

func c01DeepTemplates() []c01DeepTemplate {
	ab := gen.In{Items: []gen.ListItem{{Kind: "lit", S: "a"}, {Kind: "lit", S: "b"}}}
	x, cc := gen.Lit{S: "x"}, gen.Lit{S: "c"}
	star := func(b gen.Node, lazy bool) gen.Loop {
		return gen.Loop{Min: 0, Max: -1, Form: "atleast", Lazy: lazy, Body: b}
	}
	return []c01DeepTemplate{
		{"greedy-loop-then-literal", []gen.Node{x, star(ab, false), cc}, func(k int) []string {
			return []string{"x" + rep("ab", k) + "c", "x" + rep("ab", k), "x" + rep("ab", k/2) + "c" + rep("ba", k/2) + "c!", rep("ab", k) + "xc"}
		}},
		{"lazy-loop-then-literal", []gen.Node{x, star(gen.Class{Kind: "any"}, true), cc}, func(k int) []string {
			return []string{"x" + rep("ab", k) + "c", "x" + rep("ab", k), "x" + rep("a", k) + "cxc"}
		}},
		{"loop-of-group-with-optional", []gen.Node{x, gen.Loop{Min: 1, Max: -1, Form: "atleast", Body: gen.Seq{Items: []gen.Node{gen.Lit{S: "a"}, gen.Loop{Min: 0, Max: 1, Form: "maybe", Body: gen.Lit{S: "b"}}}}}, cc}, func(k int) []string {
			return []string{"x" + rep("ab", k) + "c", "x" + rep("a", k) + "c", "x" + rep("ab", k) + "d"}
		}},
		{"recursion-depth", []gen.Node{gen.SubDef{Name: "s", Body: []gen.Node{gen.Lit{S: "("}, gen.Loop{Min: 0, Max: 1, Form: "maybe", Body: gen.SubCall{Name: "s"}}, gen.Lit{S: ")"}}}}, func(k int) []string {
			return []string{rep("(", k) + rep(")", k), rep("(", k) + rep(")", k-1), "a" + rep("(", k/2) + rep(")", k/2) + "b" + rep("(", 3) + rep(")", 3)}
		}},
		{"recursion-inside-loop", []gen.Node{gen.SubDef{Name: "s", Body: []gen.Node{gen.Lit{S: "("}, star(gen.Or{Alts: []gen.Node{gen.SubCall{Name: "s"}, gen.Class{Kind: "letter"}}}, false), gen.Lit{S: ")"}}}}, func(k int) []string {
			return []string{rep("(a", k) + rep(")", k), rep("(a(b)", k/2) + rep(")", k/2), rep("(ab)", k)}
		}},
		// four call frames per consumed byte (s enters t enters u enters v calls s): the call stack is much deeper than the match is long
		{"four-frames-per-byte", []gen.Node{gen.SubDef{Name: "s", Body: []gen.Node{gen.Lit{S: "a"}, gen.Loop{Min: 0, Max: 1, Form: "maybe", Body: gen.SubDef{Name: "t", Body: []gen.Node{gen.SubDef{Name: "u", Body: []gen.Node{gen.SubDef{Name: "v", Body: []gen.Node{gen.SubCall{Name: "s"}}}}}}}}}}}, func(k int) []string {
			return []string{rep("a", k), "b" + rep("a", k) + "b", rep("a", k/2) + "-" + rep("a", k/2+1)}
		}},
		// k subroutines nested around one literal, no recursion at all
		{"nested-subroutines", nil, func(k int) []string { return []string{"xab-ab", "ab", "a b"} }},
		{"many-matches", []gen.Node{gen.Lit{S: "ab"}}, func(k int) []string { return []string{rep("ab", k), rep("abb", k), rep("ba", k) + "b"} }},
		{"capture-in-deep-loop-then-backref", []gen.Node{x, star(gen.Capture{Name: "v", Body: ab}, false), cc, gen.BackRef{Name: "v"}}, func(k int) []string {
			return []string{"x" + rep("ab", k) + "cb", "x" + rep("ab", k) + "ca", "x" + rep("ba", k) + "ca"}
		}},
		{"negated-list-run", []gen.Node{x, gen.Loop{Min: 1, Max: -1, Form: "atleast", Body: gen.In{Not: true, Items: []gen.ListItem{{Kind: "lit", S: "c"}, {Kind: "class", Class: "digit"}}}}, cc}, func(k int) []string {
			return []string{"x" + rep("ab", k) + "c", "x" + rep("ab", k) + "7c", "x" + rep("ab", k)}
		}},
	}
}

// counted loops whose bounds ARE the large number
func c01CountedTemplates(k int) []c01DeepTemplate {
	a := gen.Lit{S: "a"}
	x, b := gen.Lit{S: "x"}, gen.Lit{S: "b"}
	tx := func(k int) []string {
		return []string{"x" + rep("a", k-1) + "b", "x" + rep("a", k) + "b", "x" + rep("a", k+1) + "b", "x" + rep("a", 2*k) + "b", "x" + rep("a", 2*k+1) + "b", "xb"}
	}
	return []c01DeepTemplate{
		{"exactly-k", []gen.Node{x, gen.Loop{Min: k, Max: k, Form: "exactly", Body: a}, b}, tx},
		{"at-least-k", []gen.Node{x, gen.Loop{Min: k, Max: -1, Form: "atleast", Body: a}, b}, tx},
		{"at-most-k", []gen.Node{x, gen.Loop{Min: 0, Max: k, Form: "atmost", Body: a}, b}, tx},
		{"between-k-and-2k", []gen.Node{x, gen.Loop{Min: k, Max: 2 * k, Form: "between", Body: a}, b}, tx},
		{"between-k-and-2k-named", []gen.Node{x, gen.Loop{Min: k, Max: 2 * k, Form: "between", Name: "run", Body: a}, b}, tx},
		{"at-least-k-named", []gen.Node{x, gen.Loop{Min: k, Max: -1, Form: "atleast", Name: "run", Body: a}, b}, tx},
		{"between-k-and-k-plus-1-named-fewest", []gen.Node{x, gen.Loop{Min: k, Max: k + 1, Form: "between", Lazy: true, Name: "run", Body: a}, gen.Loop{Min: 0, Max: -1, Form: "atleast", Body: a}, b}, tx},
		{"between-k-and-2k-fewest", []gen.Node{x, gen.Loop{Min: k, Max: 2 * k, Form: "between", Lazy: true, Body: a}, gen.Loop{Min: 0, Max: -1, Form: "atleast", Body: a}, b}, tx},
	}
}

func c01Deep(r *drv.Run) {
	ks := []int{10, 63, 64, 65, 127, 128, 129, 255, 256, 257, 511, 512, 513}
	cks := []int{15, 16, 17, 31, 32, 33, 63, 64, 65, 100, 127, 128, 129}
	if !quick(r) {
		ks = append(ks, 767, 1023, 1024, 1025, 1400)
		cks = append(cks, 255, 256, 257, 300)
	}
	type item struct {
		name string
		k    int
		cs   *c01Case
	}
	var items []item
	mk := func(t c01DeepTemplate, k int) {
		if t.name == "nested-subroutines" {
			var n gen.Node = gen.Lit{S: "ab"}
			for d := k; d >= 1; d-- {
				n = gen.SubDef{Name: fmt.Sprintf("n%d", d), Body: []gen.Node{n}}
			}
			t.body = []gen.Node{n}
		}
		p := &gen.Program{Commands: []gen.Command{{Amount: gen.Amount{Kind: "all"}, Body: t.body}}}
		var texts [][]byte
		for _, s := range t.texts(k) {
			texts = append(texts, []byte(s))
		}
		items = append(items, item{t.name, k, &c01Case{p, gen.RenderProgram(p), texts}})
	}
	for _, t := range c01DeepTemplates() {
		if t.name == "nested-subroutines" {
			for _, k := range []int{10, 255, 256, 257, 1023, 1024, 1025, 1026, 2049} {
				mk(t, k)
			}
			continue
		}
		for _, k := range ks {
			mk(t, k)
		}
	}
	for _, k := range cks {
		for _, t := range c01CountedTemplates(k) {
			mk(t, k)
		}
	}
	r.Exec(len(items), drv.ExecOpts{Batch: 4, Env: []string{"VW_RSS_LIMIT_MB=8000", "VW_CPU_LIMIT_S=240"}}, func(i int) *drv.Item {
		it := items[i]
		cs := it.cs
		c := wire.Case{Op: "run", Src: []byte(cs.src), Texts: cs.texts, StepBudget: 20_000_000}
		return &drv.Item{Case: c, Check: func(res *wire.Result) {
			if crashOrGuard(r, res, &c, cs.src, false) {
				return
			}
			if compileTrouble(r, res, &c, cs.src, false) {
				return
			}
			body := cs.prog.Commands[0].Body
			for ti, text := range cs.texts {
				if ti >= len(res.Runs) {
					break
				}
				run := &res.Runs[ti]
				r.Eval(1)
				if runTrouble(r, run, &c, cs.src, text, false) {
					continue
				}
				alts, gaveUp := expectedScans(cs.prog, body, string(text), 20_000_000)
				if gaveUp {
					r.Count("reference_gave_up", 1)
					continue
				}
				exp := refSpans(alts[0])
				got := spansOf(run.Matches)
				if !sameSpans(got, exp) {
					r.Violate(&drv.Violation{Sig: "deep:" + it.name + ":spans-differ", Src: cs.src, Text: oneLineN(string(text), 120), Case: &c,
						Detail: map[string]any{"k": it.k, "text_length": len(text), "expected": oneLineN(fmtSpans(exp), 200), "observed": oneLineN(fmtSpans(got), 200), "max_backtrack_depth": run.MaxBT, "max_call_depth": run.MaxCall}})
					continue
				}
				r.Count("deep_runs_verified", 1)
				r.Max("deep_backtrack_depth", run.MaxBT)
				r.Max("deep_call_depth", run.MaxCall)
				r.Max("deep_matches_in_one_run", len(exp))
				if len(exp) > 0 {
					r.Nontrivial(cs.src + "\x00" + string(text))
				}
			}
		}}
	})
}

// ---- caseless literals beyond ASCII: every ordered pair of letters from case-folding orbits with more than one
// lower-case member (sigma, mu, theta, phi, the dz digraph), accented Latin, Cyrillic -------------------------

func c01Caseless(r *drv.Run) {
	letters := []string{"Σ", "σ", "ς", "µ", "μ", "Μ", "ϑ", "θ", "Θ", "ϕ", "φ", "Φ", "é", "É", "è", "я", "Я", "ǅ", "ǆ", "Ǆ", "ö", "Ö", "k", "K", "s", "S"}
	type cse struct {
		cs *c01Case
	}
	var cases []*c01Case
	mk := func(body []gen.Node, texts ...string) {
		p := &gen.Program{Commands: []gen.Command{{Amount: gen.Amount{Kind: "all"}, Body: body}}}
		var tx [][]byte
		for _, t := range texts {
			tx = append(tx, []byte(t))
		}
		cases = append(cases, &c01Case{p, gen.RenderProgram(p), tx})
	}
	for _, a := range letters {
		var texts []string
		for _, b := range letters {
			texts = append(texts, b+" x"+b+b, "a"+b)
		}
		mk([]gen.Node{gen.Lit{S: a, Caseless: true}}, texts...)
		mk([]gen.Node{gen.Lit{S: "x"}, gen.Loop{Min: 1, Max: -1, Form: "atleast", Body: gen.Or{Alts: []gen.Node{gen.Lit{S: a, Caseless: true}, gen.Lit{S: "y"}}}}}, texts...)
		mk([]gen.Node{gen.In{Items: []gen.ListItem{{Kind: "lit", S: a, Caseless: true}, {Kind: "lit", S: "x"}}}}, texts...)
	}
	words := [][2]string{{"ΟΔΟΣ", "οδος ΟΔΟΣ οδοσ Οδός"}, {"straße", "STRASSE straße STRAßE"}, {"ǆungla", "Ǆungla ǅungla ǆungla"}, {"привет", "ПРИВЕТ Привет привет"}, {"µm", "μm µm ΜM µM"}}
	for _, w := range words {
		mk([]gen.Node{gen.Lit{S: w[0], Caseless: true}}, w[1])
		mk([]gen.Node{gen.Lit{S: w[0], Caseless: true, Not: false}, gen.Class{Kind: "whitespace"}}, w[1]+" ")
	}
	r.Exec(len(cases), drv.ExecOpts{Batch: 20}, func(i int) *drv.Item {
		cs := cases[i]
		c := wire.Case{Op: "run", Src: []byte(cs.src), Texts: cs.texts, StepBudget: 400000}
		return &drv.Item{Case: c, Check: func(res *wire.Result) {
			if crashOrGuard(r, res, &c, cs.src, false) || compileTrouble(r, res, &c, cs.src, false) {
				return
			}
			body := cs.prog.Commands[0].Body
			for ti, text := range cs.texts {
				if ti >= len(res.Runs) {
					break
				}
				run := &res.Runs[ti]
				r.Eval(1)
				if runTrouble(r, run, &c, cs.src, text, false) {
					continue
				}
				alts, gaveUp := expectedScans(cs.prog, body, string(text), 400000)
				if gaveUp {
					continue
				}
				exp, got := refSpans(alts[0]), spansOf(run.Matches)
				if !sameSpans(got, exp) {
					r.Violate(&drv.Violation{Sig: "caseless-beyond-ascii:spans-differ", Src: cs.src, Text: string(text), Case: &c,
						Detail: map[string]any{"expected": fmtSpans(exp), "observed": fmtSpans(got)}})
					continue
				}
				r.Count("caseless_non_ascii_runs_verified", 1)
				if len(exp) > 0 {
					r.Nontrivial(cs.src + "\x00" + string(text))
					r.Count("caseless_non_ascii_runs_with_match", 1)
				}
			}
		}}
	})
}
