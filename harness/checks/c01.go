package checks

import (
	"fmt"

	"verifharness/drv"
	"verifharness/gen"
	"verifharness/ref"
	"verifharness/rx"
	"verifharness/wire"
)

func init() { Registry["C01"] = C01 }

// relocatable instruction kinds whose adjust() must be exercised at non-zero offsets
var relocKindsWanted = []string{"CallSubroutine", "Branch", "StartNotIn", "StartLoop", "StopLoop", "StartSubroutine", "Jump"}

type c01Case struct {
	prog  *gen.Program
	src   string
	texts [][]byte
}

func c01Random(seed uint64, i int, ntexts int) *c01Case {
	rng := gen.Derive(seed, "C01", i)
	sc := gen.DefaultScope
	switch i % 5 {
	case 0:
		sc.Alpha = "ab"
	case 1:
		sc.Alpha = "abc"
	case 2:
		sc.Alpha = "ab"
		sc.MaxDepth = 4
	case 3:
		sc.Alpha = "ab"
		sc.Globals = true
		sc.Captures = false
		sc.BackRefs = false
	case 4:
		sc.Alpha = "ax"
	}
	pg := gen.NewPG(rng, sc)
	p := pg.FindProgram()
	src := gen.RenderProgram(p)
	ta := TextAlphaFor(sc.Alpha)
	if i%4 == 1 {
		ta = TextAlphaBoundary(sc.Alpha)
	}
	if i%4 == 3 {
		// the property quantifies over all byte strings: UTF-8 lead AND continuation bytes, valid pairs,
		// stray continuation bytes, 0xff (the Go-regexp cross-check skips these texts, the reference does not)
		ta = append(ta, 0xA9, 0xA9, 0x89, 0xBF, 0x80, 0xFF, 0xE2, 0x82, 0xAC)
	}
	sm := gen.NewSampler(rng, p, ta)
	texts := sm.Inputs(p.Commands[0].Body, ntexts, maxLenFor(p, 14))
	return &c01Case{p, src, texts}
}

// checkSpans compares one run with the reference (and, on the regular subset, with Go's regexp).
func checkSpansCase(r *drv.Run, cs *c01Case, res *wire.Result, sc *rx.Scanner, label string) {
	c := &wire.Case{Op: "run", Src: []byte(cs.src), Texts: cs.texts, StepBudget: 400000}
	if crashOrGuard(r, res, c, cs.src, false) {
		return
	}
	if compileTrouble(r, res, c, cs.src, false) {
		return
	}
	for _, k := range res.Compile.Reloc {
		// "gN:Kind": instruction kinds seen inside relocated global patterns
		if len(k) > 1 && k[0] == 'g' {
			for j := 0; j < len(k); j++ {
				if k[j] == ':' {
					r.Count("reloc_"+k[j+1:], 1)
					break
				}
			}
		}
	}
	body := cs.prog.Commands[0].Body
	for ti, text := range cs.texts {
		if ti >= len(res.Runs) {
			break
		}
		run := &res.Runs[ti]
		r.Eval(1)
		r.Count("runs_total", 1)
		if runTrouble(r, run, c, cs.src, text, false) {
			continue
		}
		mergeKinds(r, run)
		alts, gaveUp := expectedScans(cs.prog, body, string(text), 400000)
		if gaveUp {
			r.Count("reference_gave_up", 1)
			continue
		}
		got := spansOf(run.Matches)
		okAny := false
		for _, a := range alts {
			if sameSpans(got, refSpans(a)) {
				okAny = true
				break
			}
		}
		if len(alts) > 1 && !sameSpans(refSpans(alts[0]), refSpans(alts[1])) {
			r.Count("dont_care_policy_mattered", 1)
		}
		exp := refSpans(alts[0])
		// monitor the monitor: Go regexp on the regular subset
		if sc != nil && rx.TextOK(string(text)) {
			gs, err := sc.Scan(string(text))
			if err == nil {
				r.Count("regexp_crosschecked", 1)
				if !sameSpans(gs, exp) {
					r.Count("oracle_disagreement", 1)
					r.Inconclusive(fmt.Sprintf("oracle disagreement: reference %s vs Go regexp %s on %q for %s", fmtSpans(exp), fmtSpans(gs), text, cs.src))
					continue
				}
			}
		}
		if !okAny {
			r.Violate(&drv.Violation{Sig: label + "spans-differ", Src: cs.src, Text: string(text), Case: c,
				Detail: map[string]any{"expected": fmtSpans(exp), "observed": fmtSpans(got)}})
			continue
		}
		if len(exp) > 0 && run.Backtracks > 0 {
			r.Nontrivial(cs.src + "\x00" + string(text))
		}
		if len(exp) > 0 {
			r.Count("cases_with_match", 1)
		}
	}
	r.Sample(map[string]any{"program": cs.src, "text": string(cs.texts[0])})
}

func regexScanner(cs *c01Case) *rx.Scanner {
	re, ok, _ := rx.Translate(cs.prog, cs.prog.Commands[0].Body)
	if !ok {
		return nil
	}
	s := rx.NewScanner(re)
	if _, err := s.Scan("a"); err != nil {
		return nil
	}
	return s
}

func C01(r *drv.Run) {
	r.BuildWorker()
	nprog, ntext := 4000, 12
	if !quick(r) {
		nprog, ntext = 150000, 16
	}
	r.Rule = "programs: seeded random over the core search language (literals, not, caseless, classes, anchors, in/not in, all loop forms greedy and fewest, or, groups, captures, back-references, inline subroutines incl. guarded recursion, set-to-pattern with/without predicate) + exhaustive small programs; inputs derived from each program (sampled matches, prefixes, one-byte edits, concatenations, noise). Oracle: reference backtracker (ref/), cross-checked by Go regexp on the regular subset. Non-trivial = reference found >= 1 match AND the VM hook saw >= 1 resume from a saved choice point; distinct by (program, text)."
	r.Assumptions = []string{
		"reference matcher (harness/ref) is the meaning of the pattern as written; it is cross-checked against Go regexp on the regular subset on every case",
		"word start at end of input / word end at offset 0 / word end at end of input after a non-word byte are don't-care (either answer accepted)",
		"inputs <= 14 bytes (legitimate backtracking is exponential)",
		"out of generator scope: empty string literal, multi-byte list items and ranges, whole line/word/file, non-ASCII bytes in patterns, captures or subroutine definitions under loops with a minimum >= 1 (vore rejects those: name clash)",
	}

	// exhaustive small programs
	small := enumSmallPrograms()
	smallTexts := allTexts("ab", 4)
	if quick(r) {
		// quick: every second program of the enumeration, chosen by seed parity, all texts
	}
	r.Exec(len(small), drv.ExecOpts{Batch: 100}, func(i int) *drv.Item {
		if quick(r) && (uint64(i)+r.Seed)%3 != 0 {
			return nil
		}
		p := small[i]
		cs := &c01Case{prog: p, src: gen.RenderProgram(p), texts: smallTexts}
		sc := regexScanner(cs)
		return &drv.Item{Case: wire.Case{Op: "run", Src: []byte(cs.src), Texts: cs.texts, StepBudget: 400000},
			Check: func(res *wire.Result) {
				r.Count("exhaustive_small_programs", 1)
				checkSpansCase(r, cs, res, sc, "small:")
			}}
	})
	r.Extra["exhaustive_small"] = fmt.Sprintf("%d programs (depth<=2 over {a,b}) x %d texts (all strings over {a,b} up to length 4); quick runs one third of the programs selected by seed", len(small), len(smallTexts))

	r.Exec(nprog, drv.ExecOpts{Batch: 250}, func(i int) *drv.Item {
		cs := c01Random(r.Seed, i, ntext)
		sc := regexScanner(cs)
		if sc != nil {
			r.Count("programs_in_regular_subset", 1)
		}
		return &drv.Item{Case: wire.Case{Op: "run", Src: []byte(cs.src), Texts: cs.texts, StepBudget: 400000},
			Check: func(res *wire.Result) { checkSpansCase(r, cs, res, sc, "") }}
	})

	// coverage floors: a run that observed nothing cannot pass
	if r.NViolations() == 0 {
		for _, k := range relocKindsWanted {
			if r.Counter("reloc_"+k) == 0 {
				r.Inconclusive("relocated instruction kind never exercised: " + k)
			}
		}
		if r.Counter("vm_backtracks") == 0 {
			r.Inconclusive("no case backtracked")
		}
		expensiveFloor(r)
		if r.Counter("regexp_crosschecked") == 0 {
			r.Inconclusive("Go regexp cross-check never ran")
		}
	}
}

// ---- exhaustive small enumeration -------------------------------------------------

func allTexts(alpha string, maxLen int) [][]byte {
	out := [][]byte{{}}
	prev := [][]byte{{}}
	for l := 1; l <= maxLen; l++ {
		var cur [][]byte
		for _, p := range prev {
			for i := 0; i < len(alpha); i++ {
				t := append(append([]byte{}, p...), alpha[i])
				cur = append(cur, t)
			}
		}
		out = append(out, cur...)
		prev = cur
	}
	return out
}

func smallAtoms() []gen.Node {
	return []gen.Node{
		gen.Lit{S: "a"}, gen.Lit{S: "b"}, gen.Lit{S: "ab"}, gen.Class{Kind: "any"}, gen.Lit{S: "a", Not: true},
		gen.In{Not: true, Items: []gen.ListItem{{Kind: "lit", S: "b"}}},
	}
}

func smallLevel1() []gen.Node {
	atoms := smallAtoms()
	out := append([]gen.Node{}, atoms...)
	forms := []gen.Loop{
		{Min: 0, Max: 1, Form: "maybe"}, {Min: 0, Max: 1, Lazy: true, Form: "maybe"},
		{Min: 0, Max: -1, Form: "atleast"}, {Min: 0, Max: -1, Lazy: true, Form: "atleast"},
		{Min: 1, Max: -1, Form: "atleast"}, {Min: 0, Max: 2, Form: "atmost"}, {Min: 1, Max: 2, Lazy: true, Form: "between"},
	}
	for _, f := range forms {
		for _, a := range atoms {
			l := f
			l.Body = a
			out = append(out, l)
		}
	}
	for _, a := range atoms[:4] {
		for _, b := range atoms[:4] {
			out = append(out, gen.Or{Alts: []gen.Node{a, b}})
		}
	}
	return out
}

func enumSmallPrograms() []*gen.Program {
	l1 := smallLevel1()
	var progs []*gen.Program
	mk := func(body ...gen.Node) {
		progs = append(progs, &gen.Program{Commands: []gen.Command{{Amount: gen.Amount{Kind: "all"}, Body: body}}})
	}
	for _, a := range l1 {
		mk(a)
	}
	for _, a := range l1 {
		for _, b := range l1 {
			mk(a, b)
		}
	}
	// loops over groups of two level-1 items (nested loops, alternation under loops)
	forms := []gen.Loop{{Min: 0, Max: -1, Form: "atleast"}, {Min: 0, Max: -1, Lazy: true, Form: "atleast"}, {Min: 1, Max: 2, Form: "between"}, {Min: 0, Max: 1, Form: "maybe"}}
	for fi, f := range forms {
		for i, a := range l1 {
			for j, b := range l1 {
				if (i*7+j*3+fi)%9 != 0 { // a fixed ninth of the product keeps the enumeration bounded
					continue
				}
				l := f
				l.Body = gen.Seq{Items: []gen.Node{a, b}}
				mk(l, gen.Lit{S: "b"})
			}
		}
	}
	_ = ref.CodeLike
	return progs
}
