package checks

import (
	"fmt"
	"regexp"
	"strings"

	"verifharness/drv"
	"verifharness/gen"
	"verifharness/ref"
	"verifharness/rx"
	"verifharness/wire"
)

func init() { Registry["C14"] = C14 }

type c14Case struct {
	rg      *gen.RegexGen
	re      gen.Regex
	prog    *gen.Program
	src     string
	texts   [][]byte
	prelude [][]byte
}

func c14Gen(seed uint64, i int, ntexts int) *c14Case {
	rng := gen.Derive(seed, "C14", i)
	rg := &gen.RegexGen{R: rng, Alpha: "abc", Named: false, BackRefs: rng.Chance(1, 2), Anchors: true}
	switch rng.Intn(6) {
	case 0:
		rg.Named = true
	case 1, 2:
		rg.Mixed = true
	}
	if !rg.Named && !rg.Mixed && rng.Chance(1, 8) {
		rg.ManyGroups = true
		rg.BackRefs = true
	}
	re := rg.Regex(2 + i%2)
	p := &gen.Program{Commands: []gen.Command{{Amount: gen.Amount{Kind: "all"}, Body: []gen.Node{re}}}}
	if rng.Chance(1, 3) {
		// a stored pattern that happens to carry the name of one of the regex's named groups (never referenced as
		// a pattern): inside the regex the name means the group
		for _, nm := range rg.Names {
			if nm[0] != '_' {
				p.Globals = append(p.Globals, gen.Global{Name: nm, Body: []gen.Node{gen.Lit{S: []string{"q", "a", "ab"}[rng.Intn(3)]}}})
				break
			}
		}
	}
	src := gen.RenderProgram(p)
	alpha := []byte("abc\n 1dA-.*+?|()[]{}^$/,09")
	sm := gen.NewSampler(rng, p, alpha)
	texts := sm.Inputs(p.Commands[0].Body, ntexts, maxLenFor(p, 14))
	cs := &c14Case{rg, re, p, src, texts, nil}
	if rng.Chance(1, 3) {
		// compiled first in the same process: sources that fail after opening regex groups, and ones that succeed
		pool := []string{"find all @/(q)(?=r)/", "find all @/(q)/ at least", "find all @/(a)(b/", "find all @/(a)(b)(c)/ 'x", "find all @/(?<n>a)(b)\\3/", "find all @/(a)(b)(c)(d)/"}
		cs.prelude = [][]byte{[]byte(pool[rng.Intn(len(pool))])}
	}
	return cs
}

// goScan emulates vore's scan with Go's regexp on the SAME regex source and also returns group texts.
type goMatch struct {
	S, E   int
	Groups map[string]string
}

func goScan(reSrc string, names []string, text string, cache map[int]*regexp.Regexp) ([]goMatch, error) {
	var out []goMatch
	p := 0
	for p < len(text) {
		r, ok := cache[p]
		if !ok {
			var err error
			r, err = regexp.Compile(fmt.Sprintf("\\A(?s:.{%d})((?m:%s))", p, reSrc))
			if err != nil {
				return nil, err
			}
			cache[p] = r
		}
		loc := r.FindStringSubmatchIndex(text)
		if loc != nil && loc[3] > loc[2] {
			m := goMatch{S: loc[2], E: loc[3], Groups: map[string]string{}}
			for gi, name := range names {
				k := 2 * (gi + 2)
				if k+1 < len(loc) && loc[k] >= 0 {
					m.Groups[name] = text[loc[k]:loc[k+1]]
				}
			}
			out = append(out, m)
			p = loc[3]
		} else {
			p++
		}
	}
	return out, nil
}

func C14(r *drv.Run) {
	r.BuildWorker()
	n, ntext := 4000, 12
	if !quick(r) {
		n, ntext = 150000, 16
	}
	r.Rule = "ten regexes that begin with a capturing group whose body begins with a starred atom (.* .*? a* [ab]*) and that refer back to it, on every text over {a, b, -, newline} up to length 5; ^ and $ as operands of an alternation (first, last, in the middle; in plain, non-capturing and named groups; thirteen regexes) on every text over {a, b, comma, newline} up to length 4; group names over every ASCII letter and digit (g<c>, <c>g, <c> alone, a few mixed ones) in a named group and in a named group with its named back-reference; every escape and class of the subset (\\s \\S \\d \\D . [^a] [a-c] [^a-c], alone, repeated, and between two letters) on every ASCII byte of the domain (0x00..0x7F without \\r and \\f) alone, between letters, doubled, and in runs of 14; exact counts 1 001 .. 100 001 (thorough .. 200 001; beyond what Go accepts, expected from the text alone: x a{n} y matches x a^n y and nothing shorter or longer); brace quantifiers with bounds 99..600 on both sides of 100, 128, 256, 512 ({n}, {0,n}, {n,}, {n-1,n+1}, lazy) on texts long enough to tell the bound from the bound modulo a power of two; exhaustive small regexes (every sequence of up to three of eight atoms on every text over {a,b,newline,1} up to length 4; quick: all of length <= 2 and half of length 3) + generated regexes of the stated subset (literals, ., bracket classes with ranges and negation (also opened or closed by a literal hyphen, or opened by a range that starts at the hyphen), \\d \\D \\s \\S, plain/non-capturing/named groups, * + ? {m} {m,} {m,n} and lazy forms, alternations whose operands are single quantified atoms or groups, ^ $ at the ends, numbered and named back-references to closed groups, one case in eight with 9..12 groups and two-digit back-references; sometimes an unrelated stored pattern of the same name as a named group earlier in the source; repeated bodies non-nullable), <= ~12 nodes; plus ambiguous splits around 12 separators that imitate printed bindings, decided by a back-reference; texts <= 14 ASCII bytes without \\r and \\f derived from the regex; a third of the cases compiled right after another source in the same process (one that fails after opening regex groups, or one with several groups). Oracle 1: Go regexp given the SAME source, evaluated position by position (spans and group texts) when the regex has no back-reference. Oracle 2: reference backtracker on the harness's own translation (always; the only oracle for back-references). Non-trivial = >= 1 match expected AND VM backtracked; distinct by (regex, text)."
	r.Assumptions = []string{
		"Go regexp (leftmost-first) is the conventional backtracking engine on the back-reference-free subset; for back-references the harness reference matcher is",
		"when a regex mixes named and numbered capturing groups only named back-references are generated (vore numbers only the unnamed groups, a conventional engine numbers all of them); group texts are compared by position of the opening parenthesis",
		"a back-reference follows the closing parenthesis of its group",
	}
	r.Exec(n, drv.ExecOpts{Batch: 250}, func(i int) *drv.Item {
		cs := c14Gen(r.Seed, i, ntext)
		c := wire.Case{Op: "run", Src: []byte(cs.src), Texts: cs.texts, StepBudget: 400000, Prelude: cs.prelude}
		if cs.prelude != nil {
			r.Count("cases_after_another_compilation", 1)
		}
		return &drv.Item{Case: c, Check: func(res *wire.Result) { c14Check(r, cs, &c, res) }}
	})
	// exhaustive small regexes: every sequence of up to three atoms from {a, ., \d, [ab], (a), b?, \n-free class,
	// \S} on every text over {a, b, newline, 1} up to length 4 - what neighbouring atoms do to each other
	{
		type atom struct {
			src  string
			node func(g *int) gen.Node
		}
		lit := func(c string) func(*int) gen.Node { return func(*int) gen.Node { return gen.Lit{S: c} } }
		atoms := []atom{
			{"a", lit("a")},
			{".", func(*int) gen.Node { return gen.Lit{S: "\n", Not: true} }},
			{"\\d", func(*int) gen.Node { return gen.Class{Kind: "digit"} }},
			{"[ab]", func(*int) gen.Node {
				return gen.In{Items: []gen.ListItem{{Kind: "lit", S: "a"}, {Kind: "lit", S: "b"}}}
			}},
			{"(a)", func(g *int) gen.Node {
				*g++
				return gen.Seq{Items: []gen.Node{gen.Capture{Name: fmt.Sprintf("_%d", *g), Body: gen.Seq{Items: []gen.Node{gen.Lit{S: "a"}}}}}}
			}},
			{"b?", func(*int) gen.Node { return gen.Loop{Min: 0, Max: 1, Body: gen.Lit{S: "b"}} }},
			{"[^a]", func(*int) gen.Node { return gen.In{Not: true, Items: []gen.ListItem{{Kind: "lit", S: "a"}}} }},
			{"\\S", func(*int) gen.Node { return gen.Class{Kind: "whitespace", Not: true} }},
		}
		var small []*c14Case
		texts := allTexts("ab\n1", 4)[1:]
		var build func(prefix []int)
		build = func(prefix []int) {
			if len(prefix) > 0 {
				g := 0
				src := ""
				seq := gen.Seq{}
				var names []string
				for _, k := range prefix {
					src += atoms[k].src
					before := g
					seq.Items = append(seq.Items, atoms[k].node(&g))
					if g > before {
						names = append(names, fmt.Sprintf("_%d", g))
					}
				}
				re := gen.Regex{Src: src, Tree: seq}
				p := &gen.Program{Commands: []gen.Command{{Amount: gen.Amount{Kind: "all"}, Body: []gen.Node{re}}}}
				rg := &gen.RegexGen{NGroups: g, Names: names}
				small = append(small, &c14Case{rg, re, p, gen.RenderProgram(p), texts, nil})
			}
			if len(prefix) == 3 {
				return
			}
			for k := range atoms {
				build(append(append([]int{}, prefix...), k))
			}
		}
		build(nil)
		r.Extra["exhaustive_small_regexes"] = len(small)
		r.Exec(len(small), drv.ExecOpts{Batch: 30}, func(i int) *drv.Item {
			cs := small[i]
			if quick(r) && (uint64(i)+r.Seed)%2 != 0 && i >= 72 {
				return nil
			}
			c := wire.Case{Op: "run", Src: []byte(cs.src), Texts: cs.texts, StepBudget: 400000}
			return &drv.Item{Case: c, Check: func(res *wire.Result) { c14Check(r, cs, &c, res) }}
		})
	}
	// two groups that can split the same text in several ways around a separator, and a back-reference that decides
	// which split is the match; separators that look like the notations programs print bindings in (Go's %v of a map,
	// JSON, key=value lists): a matcher must tell two binding sets apart by what they are, not by how they print
	{
		seps := []string{"} _2:{", "} b:{", "] _2:[", "map[", "\":\"", ", ", ":", "|", "=", "; ", "}{", " _1:", "\x00"}
		dot := gen.Lit{S: "\n", Not: true}
		esc := func(sep string) (string, []gen.Node) {
			src := ""
			var nodes []gen.Node
			for i := 0; i < len(sep); i++ {
				c := sep[i]
				if strings.IndexByte(".*+?|()[]{}^$-\\", c) >= 0 {
					src += "\\"
				}
				if c == 0 {
					src += "\\x00"
				} else {
					src += string([]byte{c})
				}
				nodes = append(nodes, gen.Lit{S: string([]byte{c})})
			}
			return src, nodes
		}
		var look []*c14Case
		for si, sep := range seps {
			if sep == "\x00" {
				continue // the literal syntax has no spelling for NUL inside a regex
			}
			ssrc, snodes := esc(sep)
			for _, named := range []bool{false, true} {
				n1, n2, o1, o2, b := "_1", "_2", "(", "(", "\\1"
				if named {
					n1, n2, o1, o2, b = "a", "b", "(?<a>", "(?<b>", "\\k<a>"
				}
				src := o1 + ".+?)" + ssrc + o2 + ".+)" + b + "$"
				items := []gen.Node{gen.Seq{Items: []gen.Node{gen.Capture{Name: n1, Body: gen.Seq{Items: []gen.Node{gen.Loop{Min: 1, Max: -1, Lazy: true, Body: dot}}}}}}}
				items = append(items, snodes...)
				items = append(items, gen.Seq{Items: []gen.Node{gen.Capture{Name: n2, Body: gen.Seq{Items: []gen.Node{gen.Loop{Min: 1, Max: -1, Body: dot}}}}}}, gen.BackRef{Name: n1}, gen.Anchor{Kind: "lineend"})
				re := gen.Regex{Src: src, Tree: gen.Seq{Items: items}}
				p := &gen.Program{Commands: []gen.Command{{Amount: gen.Amount{Kind: "all"}, Body: []gen.Node{re}}}}
				texts := [][]byte{[]byte("x" + sep + "y" + sep + "zx" + sep + "y"), []byte("x" + sep + "y" + sep + "x"), []byte("ab" + sep + sep + "ab" + sep), []byte("q" + sep + "q" + sep + "q" + sep + "q"), []byte("x" + sep + "y" + sep + "zx")}
				rg := &gen.RegexGen{NGroups: 2, Names: []string{n1, n2}, HasBackRef: true, Named: named}
				look = append(look, &c14Case{rg, re, p, gen.RenderProgram(p), texts, nil})
				_ = si
			}
		}
		r.Exec(len(look), drv.ExecOpts{Batch: 6}, func(i int) *drv.Item {
			cs := look[i]
			c := wire.Case{Op: "run", Src: []byte(cs.src), Texts: cs.texts, StepBudget: 2_000_000}
			return &drv.Item{Case: c, Check: func(res *wire.Result) {
				c14Check(r, cs, &c, res)
				r.Count("separator_lookalike_cases", 1)
			}}
		})
	}
	c14EveryByte(r)
	c14GroupNames(r)
	c14AnchorOperands(r)
	c14LeadingStar(r)
	c14Bounds(r)
	c14BigCounts(r)
	if r.NViolations() == 0 {
		expensiveFloor(r)
		for _, k := range []string{"go_regexp_compared", "backref_cases", "group_texts_compared", "named_group_cases", "named_backref_cases", "two_digit_backref_cases", "named_backref_cases_with_same_named_stored_pattern"} {
			if r.Counter(k) == 0 {
				r.Inconclusive("coverage floor: " + k + " = 0")
			}
		}
	}
}

func c14Check(r *drv.Run, cs *c14Case, c *wire.Case, res *wire.Result) {
	if crashOrGuard(r, res, c, cs.src, false) {
		return
	}
	cr := res.Compile
	if cr != nil && cr.Panic == nil && cr.Budget == "" && !cr.OK {
		// a regex of the subset was rejected
		sig := "rejected:other"
		if gen.CaptureUnderUnrolledLoop(cs.re.Tree, false) {
			sig = "rejected:capturing-group-under-min1-quantifier"
		}
		r.Count("rejected", 1)
		r.Violate(&drv.Violation{Sig: sig, Err: cr.Err, Src: cs.src, Case: c})
		return
	}
	if compileTrouble(r, res, c, cs.src, true) {
		return
	}
	cache := map[int]*regexp.Regexp{}
	if cs.rg.HasBackRef {
		r.Count("backref_cases", 1)
	}
	if cs.rg.ManyGroups && cs.rg.NGroups >= 10 {
		r.Count("two_digit_backref_cases", 1)
	}
	if len(cs.prog.Globals) > 0 && cs.rg.HasBackRef {
		r.Count("named_backref_cases_with_same_named_stored_pattern", 1)
	}
	if cs.rg.Mixed && cs.rg.NGroups > 1 {
		r.Count("mixed_named_and_numbered_cases", 1)
	}
	if (cs.rg.Named || cs.rg.Mixed) && cs.rg.NGroups > 0 {
		r.Count("named_group_cases", 1)
		if cs.rg.HasBackRef {
			r.Count("named_backref_cases", 1)
		}
	}
	for ti, text := range cs.texts {
		if ti >= len(res.Runs) {
			break
		}
		run := &res.Runs[ti]
		r.Eval(1)
		r.Count("runs_total", 1)
		if runTrouble(r, run, c, cs.src, text, false) {
			continue
		}
		mergeKinds(r, run)
		m := ref.New(cs.prog, string(text), ref.CodeLike, 400000)
		exp := m.Scan(cs.prog.Commands[0].Body)
		if m.GaveUp {
			r.Count("reference_gave_up", 1)
			continue
		}
		// oracle self-check and primary arbiter on the back-reference-free part
		if !cs.rg.HasBackRef && rx.TextOK(string(text)) {
			gm, err := goScan(cs.re.Src, cs.rg.Names, string(text), cache)
			if err != nil {
				r.Count("go_regexp_rejected_source", 1)
			} else {
				r.Count("go_regexp_compared", 1)
				same := len(gm) == len(exp)
				if same {
					for k := range gm {
						if gm[k].S != exp[k].S || gm[k].E != exp[k].E || !sameVars(gm[k].Groups, exp[k].Vars) {
							same = false
						}
					}
				}
				if !same {
					r.Inconclusive(fmt.Sprintf("oracle disagreement on /%s/ text %q: reference %s vs Go regexp %v", cs.re.Src, text, fmtExp(exp), gm))
					continue
				}
			}
		}
		okSpans := len(run.Matches) == len(exp)
		if okSpans {
			for k := range exp {
				if run.Matches[k].S != exp[k].S || run.Matches[k].E != exp[k].E {
					okSpans = false
				}
			}
		}
		if !okSpans {
			r.Violate(&drv.Violation{Sig: "spans-differ", Src: cs.src, Text: string(text), Case: c,
				Detail: map[string]any{"expected": fmtExp(exp), "observed": fmtGot(run.Matches)}})
			continue
		}
		okGroups := true
		for k := range exp {
			if !sameVars(flatVars(run.Matches[k].Vars), exp[k].Vars) {
				okGroups = false
			}
			if len(exp[k].Vars) > 0 {
				r.Count("group_texts_compared", 1)
			}
		}
		if !okGroups {
			r.Violate(&drv.Violation{Sig: "group-text-differs", Src: cs.src, Text: string(text), Case: c,
				Detail: map[string]any{"expected": fmtExp(exp), "observed": fmtGot(run.Matches)}})
			continue
		}
		if len(exp) > 0 && run.Backtracks > 0 {
			r.Nontrivial(cs.src + "\x00" + string(text))
		}
	}
	r.Sample(map[string]any{"regex": cs.re.Src, "text": string(cs.texts[0])})
}
