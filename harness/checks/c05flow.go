package checks

import (
	"fmt"

	"verifharness/drv"
	"verifharness/proc"
	"verifharness/wire"
)

// c05Flow: control flow of a transform, exhaustively for small shapes. One counting loop (four iterations) whose body
// leaves a letter in a trace string at every position, around one jump - continue, break or return - that sits one,
// two or three `if` levels deep, in the then- or the else-branch of each level, under conditions that are true in
// some iterations and false in others, with and without statements behind the inner `if` inside each enclosing
// branch. The replacement is the trace: it shows exactly which statements ran. Expected from the reference
// interpreter of the process language.
func c05Flow(r *drv.Run) {
	iv := proc.EVar{Name: "i"}
	mark := func(c string) proc.Stmt {
		return proc.SSet{Name: "s", X: proc.EBin{Op: "+", L: proc.EVar{Name: "s"}, R: proc.EStr{V: c}}}
	}
	conds := []proc.Expr{
		proc.EBin{Op: "==", L: iv, R: proc.ENum{V: 2}},
		proc.EBin{Op: ">", L: iv, R: proc.ENum{V: 1}},
		proc.EBin{Op: "==", L: proc.EVar{Name: "match"}, R: proc.EStr{V: "b"}},
	}
	jumps := []proc.Stmt{proc.SContinue{}, proc.SBreak{}, proc.SReturn{X: proc.EBin{Op: "+", L: proc.EVar{Name: "s"}, R: proc.EStr{V: "!"}}}}
	type shape struct {
		label string
		body  []proc.Stmt
	}
	var shapes []shape
	// nest builds `if c then [pre] INNER [post] end` (or the same in the else-branch) around inner
	nest := func(c proc.Expr, inElse, pre, post bool, inner []proc.Stmt, tag string) []proc.Stmt {
		var br []proc.Stmt
		if pre {
			br = append(br, mark(tag))
		}
		br = append(br, inner...)
		if post {
			br = append(br, mark(tag+tag))
		}
		other := []proc.Stmt{mark("-" + tag)}
		if inElse {
			return []proc.Stmt{proc.SIf{Cond: c, Then: other, Else: br, HasElse: true}}
		}
		if post {
			return []proc.Stmt{proc.SIf{Cond: c, Then: br, Else: other, HasElse: true}}
		}
		return []proc.Stmt{proc.SIf{Cond: c, Then: br}}
	}
	for ji, j := range jumps {
		for depth := 1; depth <= 3; depth++ {
			// every assignment of (condition, branch, post statement) to the levels; pre statements on odd masks only
			n := 1
			for k := 0; k < depth; k++ {
				n *= len(conds) * 2 * 2
			}
			for code := 0; code < n; code++ {
				inner := []proc.Stmt{j}
				x := code
				lab := fmt.Sprintf("jump%d:depth%d:", ji, depth)
				for k := 0; k < depth; k++ {
					c := x % len(conds)
					x /= len(conds)
					inElse := x%2 == 1
					x /= 2
					post := x%2 == 1
					x /= 2
					inner = nest(conds[c], inElse, (code+k)%2 == 1, post, inner, string(rune('a'+k)))
					lab += fmt.Sprintf("c%d%v%v", c, inElse, post)
				}
				body := append([]proc.Stmt{mark("[")}, inner...)
				body = append(body, mark("]"))
				shapes = append(shapes, shape{lab, body})
			}
		}
	}
	if quick(r) {
		// all of depth 1 and 2, every third of depth 3 (chosen by seed)
		var keep []shape
		for i, sh := range shapes {
			d3 := len(sh.label) > 0 && sh.label[6:12] == "depth3"
			if !d3 || (uint64(i)+r.Seed)%3 == 0 {
				keep = append(keep, sh)
			}
		}
		shapes = keep
	}
	texts := [][]byte{[]byte("ab"), []byte("ba b")}
	r.Exec(len(shapes), drv.ExecOpts{Batch: 100}, func(i int) *drv.Item {
		sh := shapes[i]
		stmts := []proc.Stmt{
			proc.SSet{Name: "i", X: proc.ENum{V: 0}},
			proc.SSet{Name: "s", X: proc.EStr{V: ""}},
			proc.SLoop{Body: append([]proc.Stmt{
				proc.SSet{Name: "i", X: proc.EBin{Op: "+", L: iv, R: proc.ENum{V: 1}}},
				proc.SIf{Cond: proc.EBin{Op: ">", L: iv, R: proc.ENum{V: 4}}, Then: []proc.Stmt{proc.SBreak{}}},
			}, sh.body...)},
			proc.SReturn{X: proc.EBin{Op: "+", L: proc.EVar{Name: "s"}, R: proc.EStr{V: "."}}},
		}
		src := "set f to transform " + proc.RenderStmts(stmts, i%2 == 0) + " end\nreplace all letter with f"
		c := wire.Case{Op: "run", Src: []byte(src), Texts: texts, StepBudget: 100000}
		return &drv.Item{Case: c, Check: func(res *wire.Result) {
			if crashOrGuard(r, res, &c, src, false) {
				return
			}
			if res.Compile == nil || !res.Compile.OK {
				r.Inconclusive("control-flow transform rejected: " + src)
				return
			}
			for ti, text := range texts {
				if ti >= len(res.Runs) {
					break
				}
				run := &res.Runs[ti]
				r.Eval(1)
				if runTrouble(r, run, &c, src, text, false) {
					continue
				}
				for _, m := range run.Matches {
					in := &proc.Interp{Env: proc.Env{"match": proc.Str(string(m.Val))}}
					want := in.Run(stmts).AsString()
					if in.Undef || in.Spin {
						r.Inconclusive("reference interpreter gave up on " + src)
						return
					}
					if string(m.Repl) != want {
						r.Violate(&drv.Violation{Sig: "control-flow:" + sh.label[:5], Src: src, Text: string(text), Case: &c,
							Detail: map[string]any{"shape": sh.label, "match": string(m.Val), "expected_trace": want, "observed_trace": string(m.Repl)}})
						return
					}
					r.Count("control_flow_traces_compared", 1)
				}
			}
			r.Nontrivial("flow|" + sh.label)
		}}
	})
	if r.NViolations() == 0 && r.Counter("control_flow_traces_compared") == 0 {
		r.Inconclusive("coverage floor: control_flow_traces_compared = 0")
	}
}
