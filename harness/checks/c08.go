package checks

import (
	"fmt"
	"strings"

	"verifharness/drv"
	"verifharness/gen"
	"verifharness/wire"
)

func init() { Registry["C08"] = C08 }

var soupVocab = []string{
	"find", "replace", "with", "set", "to", "pattern", "matches", "transform", "function", "all", "skip", "take", "top", "last",
	"any", "whitespace", "digit", "upper", "lower", "letter", "line", "file", "word", "start", "end", "begin", "not", "at", "least",
	"most", "between", "and", "exactly", "maybe", "fewest", "named", "in", "or", "if", "then", "else", "debug", "return", "head",
	"tail", "loop", "continue", "break", "true", "false", "whole", "caseless",
	"(", ")", "{", "}", ",", "=", "==", "!=", "<", ">", "<=", ">=", "+", "-", "*", "/", "%", ":=", ":", "!", "--", "--(", ")--", "@/", "@",
	"'a'", "\"b\"", "'", "\"", "'\\", "'\\x", "'\\x4", "'\\x41'", "0", "1", "12", "x", "y1", "_", "@/a/", "@/(a/", "@/a)/", "@/[a/", "@/a{/", "@/a{1/", "@/a{1,/", "@/\\/", "@/(?/", "@/(?</", "@/\\k/", "@/\\k</", "@/(?=a)/", "@/(?!a)/", "@/(?<=a)/", "@/(?<!a)/", "@/[\\d]/", "\n", " ", "\t",
}

var hostileBytes = []byte("'\"\\@/-(){}=!<>:,+*%abfx019 \n\t\x00\x01\x7f\x80\xc3\xa9\xff_.[]^$?|")

var regexBodyBytes = []byte("ab1()[]{}|*+?.^$\\-,<>=!:kdDsSwWbB?0123 ")

// c08Sources builds the deterministic source list for (tier, seed).
func c08Sources(r *drv.Run) ([][]byte, map[string]int) {
	var out [][]byte
	counts := map[string]int{}
	seen := map[string]bool{}
	add := func(kind string, s string) {
		if seen[s] {
			return
		}
		seen[s] = true
		out = append(out, []byte(s))
		counts[kind]++
	}
	bases := append([]string{}, gen.Corpus...)
	bases = append(bases, gen.ExampleFiles(drv.RepoRoot)...)
	ngen := 150
	nsoup, nbytes, nregex := 12000, 12000, 8000
	if !quick(r) {
		ngen = 4000
		nsoup, nbytes, nregex = 400000, 400000, 250000
	}
	for i := 0; i < ngen; i++ {
		rng := gen.Derive(r.Seed, "C08gen", i)
		if i%4 == 3 {
			bases = append(bases, procProgramSource(rng, i))
		} else {
			bases = append(bases, gen.RenderProgram(gen.AnyProgram(rng, i)))
		}
	}
	for bi, b := range bases {
		add("valid", b)
		step := 1
		if len(b) > 120 {
			step = len(b)/120 + 1
		}
		if !quick(r) && len(b) <= 600 {
			step = 1
		}
		for k := 0; k < len(b); k += step {
			add("prefix", b[:k])
			add("suffix", b[k:])
		}
		toks := gen.Significant(gen.Tokenize(b))
		tstep := 1
		if len(toks) > 60 {
			tstep = len(toks)/60 + 1
		}
		for k := 0; k < len(toks); k += tstep {
			del := append(append([]gen.Tok{}, toks[:k]...), toks[k+1:]...)
			add("token-deletion", gen.JoinWith(del, " "))
			dup := append(append(append([]gen.Tok{}, toks[:k+1]...), toks[k]), toks[k+1:]...)
			add("token-duplication", gen.JoinWith(dup, " "))
			if k+1 < len(toks) {
				sw := append([]gen.Tok{}, toks...)
				sw[k], sw[k+1] = sw[k+1], sw[k]
				add("token-swap", gen.JoinWith(sw, " "))
			}
		}
		// token prefixes joined without trailing blank: the lexer's end-of-input states
		for k := 1; k <= len(toks) && k <= 80; k++ {
			add("token-prefix", gen.JoinWith(toks[:k], " "))
		}
		_ = bi
	}
	for i := 0; i < nsoup; i++ {
		rng := gen.Derive(r.Seed, "C08soup", i)
		n := 1 + rng.Intn(12)
		parts := make([]string, n)
		for k := range parts {
			parts[k] = soupVocab[rng.Intn(len(soupVocab))]
		}
		sep := " "
		if rng.Chance(1, 4) {
			sep = ""
		}
		prefix := ""
		switch rng.Intn(4) {
		case 0:
			prefix = "find all "
		case 1:
			prefix = "set f to transform "
		case 2:
			prefix = "set p to pattern 'a' begin "
		}
		add("token-soup", prefix+strings.Join(parts, sep))
	}
	for i := 0; i < nbytes; i++ {
		rng := gen.Derive(r.Seed, "C08bytes", i)
		n := 1 + rng.Intn(40)
		b := make([]byte, n)
		for k := range b {
			if rng.Chance(1, 6) {
				b[k] = byte(rng.Intn(256))
			} else {
				b[k] = hostileBytes[rng.Intn(len(hostileBytes))]
			}
		}
		s := string(b)
		if rng.Chance(1, 3) {
			s = "find all " + s
		}
		add("random-bytes", s)
	}
	// the lexer reads through a 4096-byte buffer: hostile tails pushed across a buffer boundary
	npad := 3000
	if !quick(r) {
		npad = 60000
	}
	base := len(out)
	for i := 0; i < npad && base > 0; i++ {
		rng := gen.Derive(r.Seed, "C08pad", i)
		tail := string(out[rng.Intn(base)])
		if len(tail) > 200 || len(tail) == 0 {
			continue
		}
		target := 4096*(1+rng.Intn(2)) - rng.Intn(len(tail)+1)
		var pad string
		switch rng.Intn(3) {
		case 0:
			pad = "--(" + strings.Repeat("c", max(0, target-6)) + ")--"
		case 1:
			pad = strings.Repeat(" ", target)
		default:
			pad = "find all '" + strings.Repeat("s", max(0, target-12)) + "' "
		}
		add("buffer-straddling", pad+tail)
	}
	// exhaustive: every pair of bytes after `\x` and after a backslash in a string literal, after a backslash in a
	// regex literal (escape decoding looks ahead and converts: all 65 536 continuations, not only printable ones)
	for b1 := 0; b1 < 256; b1++ {
		for b2 := 0; b2 < 256; b2++ {
			pair := string([]byte{byte(b1), byte(b2)})
			add("escape-continuation", "find all '\\x"+pair+"z'")
			add("escape-continuation", "find all \"\\x"+pair+"z\"")
			add("escape-continuation", "find all '\\"+pair+"z'")
			add("escape-continuation", "find all @/\\"+pair+"z/")
		}
	}
	// very long sources (2^16 .. 2^20 characters) of six shapes, each at four alignments: whatever the lexer keeps
	// per character (position history, token buffer) is bounded or trimmed somewhere
	lens := []int{1 << 16, 1 << 18, 1 << 19}
	if !quick(r) {
		lens = []int{1 << 16, 1 << 17, 1 << 18, 1 << 19, 1 << 20}
	}
	for _, n := range lens {
		for phase := 0; phase < 4; phase++ {
			lead := strings.Repeat(" ", phase)
			add("very-long", lead+"find all "+strings.Repeat("'a' ", n/4))
			add("very-long", lead+"find all 'a' --("+strings.Repeat("c", n)+")-- 'b'")
			add("very-long", lead+"find all 'a'"+strings.Repeat(" ", n)+"'b'")
			add("very-long", lead+"find all '"+strings.Repeat("s", n)+"' 'b'")
			add("very-long", lead+"find all in "+strings.Repeat("'a', ", n/5)+"'b'")
			add("very-long", lead+"find all 'a'\n"+strings.Repeat("-- x\n", n/5)+"'b'")
			add("very-long", lead+"find all "+strings.Repeat("digit letter any ", n/17)+"'b'")
			add("very-long", lead+"find all "+strings.Repeat("'a' ", n/4)+"'unterminated")
		}
		// exactly n characters, ending in a word / a string / a blank
		for _, tail := range []string{" any", " 'b'", " any "} {
			head := "find all 'a'"
			add("very-long", head+strings.Repeat(" ", n-len(head)-len(tail))+tail)
		}
	}
	// identifier-shaped words built from letters whose case mapping changes their UTF-8 length or their number of
	// characters (keyword lookup lower-cases words): every such letter, alone and among ASCII letters, for every
	// word length from 1 to 24 bytes, in the places an identifier or a keyword may stand
	for _, sp := range []string{"\u023a", "\u023e", "\u0130", "\u0131", "\u212a", "\u017f", "\u1e9e", "\u2126", "\u01c5", "\ufb01", "\u0149", "\u03a3", "\U00010400", "\U0001e900"} {
		for n := 1; n <= 24; n++ {
			w1 := strings.Repeat(sp, n)
			if len(w1) <= 30 {
				add("case-mapping-identifier", "find all "+w1)
				add("case-mapping-identifier", "find all 'a' = "+w1)
			}
			pad := strings.Repeat("k", n)
			add("case-mapping-identifier", "find all 'a' = "+pad+sp)
			add("case-mapping-identifier", "find all "+sp+pad)
			add("case-mapping-identifier", "set "+pad[:n/2]+sp+pad[n/2:]+" to pattern 'x'")
			add("case-mapping-identifier", "set f to transform return "+pad+sp+" end")
		}
	}
	// tokens of thousands of multi-byte characters in places where the parser stops at them and quotes them in its
	// message (byte length and character count differ by a factor of 2..4)
	for _, n := range []int{1000, 1366, 2047, 2048, 2049, 3000, 4095, 4096, 4097, 5000} {
		for _, ch := range []string{"\u00e9", "\u0436", "\u20ac", "\U0001F600"} {
			w := strings.Repeat(ch, n)
			add("long-multibyte-token", "find all 'a' = '"+w+"'")
			add("long-multibyte-token", "find all @/("+w+"/")
			add("long-multibyte-token", "find all "+w+" 'a' =")
			add("long-multibyte-token", "set "+w+" to")
			add("long-multibyte-token", "find all 'a' with '"+w+"'")
			add("long-multibyte-token", "find all 'a' '"+w)
			add("long-multibyte-token", "set f to transform return "+w+" + end")
		}
	}
	for i := 0; i < nregex; i++ {
		rng := gen.Derive(r.Seed, "C08regex", i)
		n := rng.Intn(14)
		b := make([]byte, n)
		for k := range b {
			b[k] = regexBodyBytes[rng.Intn(len(regexBodyBytes))]
		}
		s := "find all @/" + string(b)
		if !rng.Chance(1, 8) {
			s += "/"
		}
		add("regex-literal", s)
	}
	c08Openers(add)
	c08Counts(add)
	c08Types(add)
	c08Nesting(add)
	return out, counts
}

// procProgramSource renders a random transform/predicate program (statement soup that is
// usually, not always, well typed).
func procProgramSource(rng *gen.Rng, i int) string {
	pg := newProcGen(rng)
	transform := rng.Bool()
	stmts := pg.stmts(2, 1+rng.Intn(3), transform)
	if transform {
		return "set f to transform " + stmts + " end\nreplace all 'a' with f"
	}
	return "set p to pattern 'a' begin " + stmts + " end\nfind all p"
}

func C08(r *drv.Run) {
	r.BuildWorker()
	srcs, counts := c08Sources(r)
	r.Rule = "process code whose variables change type as a loop goes round (two and three names of different types exchanged through a helper, types depending on a branch, nested swapping loops; 24 sources in transforms and predicates): answered at once; sources: valid programs (hand corpus covering every production, repository examples, generated programs incl. process code) and, for each, every byte prefix and suffix, every one-token deletion/duplication/adjacent swap, every token prefix; random token soups; random bytes biased to lexer-significant characters; regex literals with arbitrary bodies, terminated and not; hostile tails pushed across a multiple of the lexer's 4096-byte read buffer by a long comment, blank run or string; sources of 2^16 .. 2^19 (thorough: 2^20) characters in eight shapes at four alignments and of exactly 2^k characters; identifier-shaped words of 1..24 bytes built from letters whose case mapping changes their length; tokens of 1 000..5 000 multi-byte characters where a parse error quotes them; plain groups and parenthesised process expressions nested 5 000 .. 400 000 deep; valid programs whose constructs nest 10 .. 500 levels deep (17 construct kinds: alternations nested left and right, groups, loops, captures, inline subroutines, regex groups and alternations, process expressions, if and loop statements); numbers of 10 to 31 digits (around 2^31, 2^32, 2^44, 2^53, 2^62, 2^63, 2^64) in twenty places that take a number without materialising it (named loops, maxima, amounts, process code); exhaustively every pair of bytes (all 65 536) after `\\x` in both quote styles, after a backslash in a string and after a backslash in a regex literal. A sample of all of these is also delivered through CompileFile - as a regular file, through a symbolic link, through a named pipe, plus /dev/null, a directory and a missing path - and must meet the same outcome as Compile on the same bytes (for the last three: program XOR printable error). Each Compile runs in a killable worker under a lexer-read budget (hook H2), a 30 CPU-second and 1.5 GiB guard; outcome classified: program XOR error, printable non-empty error, no panic, no nil hole anywhere in the AST (reflective walk) or bytecode. Every distinct source text counts once (the valid base programs are the control group that must be accepted)."
	r.Assumptions = []string{
		"bounded time/memory is decided as: lexer reads <= 64*(len+8)+4096 (hook count), <= 30 CPU-seconds and <= 1.5 GiB per Compile call",
		"a hole is a nil pointer or nil interface reachable from the returned AST, or nil bytecode",
	}
	for k, v := range counts {
		r.Count("sources_"+k, v)
	}
	r.Exec(len(srcs), drv.ExecOpts{Batch: 2000}, func(i int) *drv.Item {
		src := srcs[i]
		c := wire.Case{Op: "compile", Src: src}
		return &drv.Item{Case: c, Check: func(res *wire.Result) {
			r.Eval(1)
			s := string(src)
			if res.Died {
				if res.Guard == "wall" {
					r.Inconclusive("wall-clock watchdog fired")
					return
				}
				sig := "worker-died:" + classifyFatal(res.Stderr)
				if res.Guard != "" {
					sig = "guard-" + res.Guard
				}
				r.Violate(&drv.Violation{Sig: sig, Panic: firstLines(res.Stderr, 2), Src: s, Case: &c, Detail: map[string]any{"stderr": firstLines(res.Stderr, 10)}})
				return
			}
			if res.Panic != nil {
				r.Violate(&drv.Violation{Sig: "panic:" + res.Panic.Frame, Panic: res.Panic.Msg, Frame: res.Panic.Frame, Src: s, Case: &c})
				return
			}
			cr := res.Compile
			if cr == nil {
				r.Inconclusive("no compile record")
				return
			}
			r.Max("lexer_reads", cr.LexReads)
			if len(src) > 0 {
				r.Max("lexer_reads_per_100_source_bytes", cr.LexReads*100/len(src))
			}
			switch {
			case cr.Panic != nil:
				r.Violate(&drv.Violation{Sig: "compile-panic:" + cr.Panic.Frame, Panic: cr.Panic.Msg, Frame: cr.Panic.Frame, Src: s, Case: &c})
			case cr.Budget != "":
				r.Violate(&drv.Violation{Sig: "lexer-read-budget", Src: s, Case: &c, Detail: map[string]any{"budget": cr.Budget}})
			case cr.BothNil:
				r.Violate(&drv.Violation{Sig: "returned-nil-nil", Src: s, Case: &c})
			case cr.BothSet:
				r.Violate(&drv.Violation{Sig: "returned-program-and-error", Src: s, Case: &c, Err: cr.Err})
			case cr.ErrPanic != nil:
				r.Violate(&drv.Violation{Sig: "error-message-panics:" + cr.ErrPanic.Frame, Panic: cr.ErrPanic.Msg, Frame: cr.ErrPanic.Frame, Src: s, Case: &c})
			case !cr.OK && strings.TrimSpace(cr.Err) == "":
				r.Violate(&drv.Violation{Sig: "empty-error-message", Src: s, Case: &c, Detail: map[string]any{"err_type": cr.ErrType}})
			case cr.OK && len(cr.Holes) > 0:
				r.Violate(&drv.Violation{Sig: "ast-hole", Src: s, Case: &c, Detail: map[string]any{"holes": fmt.Sprint(cr.Holes)}})
			default:
				if cr.OK {
					r.Count("accepted", 1)
				} else {
					r.Count("rejected_with_error", 1)
					r.Count("err_"+cr.ErrType, 1)
				}
				r.Nontrivial(s)
			}
			if i%997 == 0 {
				r.Sample(map[string]any{"source": s, "accepted": cr.OK, "error": oneLineN(cr.Err, 120)})
			}
		}}
	})
	c08Delivery(r, srcs)
	if r.NViolations() == 0 {
		if r.Counter("delivered_through_fifo_and_agreed") == 0 || r.Counter("delivered_through_symlink_and_agreed") == 0 {
			r.Inconclusive("coverage floor: no source delivered through a named pipe / a symbolic link")
		}
		if r.Counter("accepted") == 0 || r.Counter("rejected_with_error") == 0 {
			r.Inconclusive("the workload did not produce both accepted and rejected sources")
		}
	}
}

func oneLineN(s string, n int) string {
	s = strings.ReplaceAll(s, "\n", "\\n")
	if len(s) > n {
		s = s[:n] + "..."
	}
	return s
}

// c08Delivery: the same bytes handed over through the file system. CompileFile must behave like Compile on them
// however they arrive; a path that cannot deliver bytes must end in a printable error (or the empty program), never
// in a panic, a hang or an error that cannot be printed.
func c08Delivery(r *drv.Run, srcs [][]byte) {
	var pick [][]byte
	for i, s := range gen.Corpus {
		if i%2 == 0 {
			pick = append(pick, []byte(s))
		}
	}
	rng := gen.Derive(r.Seed, "C08delivery", 0)
	n := 60
	if !quick(r) {
		n = 600
	}
	for k := 0; k < n && len(srcs) > 0; k++ {
		s := srcs[rng.Intn(len(srcs))]
		if len(s) < 20000 {
			pick = append(pick, s)
		}
	}
	kinds := []string{"file", "symlink", "fifo", "devnull", "dir", "missing"}
	type job struct {
		src  []byte
		kind string
	}
	var jobs []job
	for i, s := range pick {
		for ki, k := range kinds {
			if ki >= 3 && i%10 != 0 {
				continue
			}
			jobs = append(jobs, job{s, k})
		}
	}
	r.Exec(len(jobs), drv.ExecOpts{Batch: 60}, func(i int) *drv.Item {
		jb := jobs[i]
		c := wire.Case{Op: "compilefile", Src: jb.src, Mode: jb.kind}
		return &drv.Item{Case: c, Check: func(res *wire.Result) {
			r.Eval(1)
			s := string(jb.src)
			if crashOrGuard(r, res, &c, s, false) {
				return
			}
			if len(res.Compiles) != 2 {
				r.Inconclusive("compilefile: short result")
				return
			}
			f, m := &res.Compiles[0], &res.Compiles[1]
			bad := func(sig string, d map[string]any) {
				if d == nil {
					d = map[string]any{}
				}
				d["delivery"] = jb.kind
				r.Violate(&drv.Violation{Sig: "CompileFile:" + sig, Src: s, Case: &c, Detail: d})
			}
			switch {
			case f.Panic != nil:
				r.Violate(&drv.Violation{Sig: "CompileFile:panic:" + f.Panic.Frame, Panic: f.Panic.Msg, Frame: f.Panic.Frame, Src: s, Case: &c, Detail: map[string]any{"delivery": jb.kind}})
				return
			case f.Budget != "":
				bad("lexer-read-budget", map[string]any{"budget": f.Budget})
				return
			case f.BothNil:
				bad("returned-nil-nil", nil)
				return
			case f.BothSet:
				bad("returned-program-and-error", nil)
				return
			case f.ErrPanic != nil:
				r.Violate(&drv.Violation{Sig: "CompileFile:error-message-panics:" + f.ErrPanic.Frame, Panic: f.ErrPanic.Msg, Frame: f.ErrPanic.Frame, Src: s, Case: &c, Detail: map[string]any{"delivery": jb.kind}})
				return
			case !f.OK && strings.TrimSpace(f.Err) == "":
				bad("empty-error-message", nil)
				return
			case f.OK && len(f.Holes) > 0:
				bad("ast-hole", nil)
				return
			}
			switch jb.kind {
			case "file", "symlink", "fifo", "devnull":
				if m.Panic != nil || m.Budget != "" {
					return // Compile itself is in trouble on these bytes: the main family reports that
				}
				if f.OK != m.OK || (!f.OK && f.Err != m.Err) {
					bad("differs-from-Compile-on-the-same-bytes", map[string]any{"CompileFile_accepted": f.OK, "Compile_accepted": m.OK, "CompileFile_error": oneLineN(f.Err, 160), "Compile_error": oneLineN(m.Err, 160)})
					return
				}
				r.Count("delivered_through_"+jb.kind+"_and_agreed", 1)
			case "missing":
				if f.OK {
					bad("missing-file-accepted", nil)
					return
				}
				r.Count("missing_path_rejected_with_message", 1)
			case "dir":
				r.Count("directory_path_total", 1)
			}
			r.Nontrivial("delivery|" + jb.kind + "|" + s)
		}}
	})
}
