package checks

import (
	"fmt"
	"strings"

	"verifharness/drv"
	"verifharness/gen"
	"verifharness/proc"
	"verifharness/wire"
)

func init() { Registry["C12"] = C12 }

type c12Case struct {
	stmts     []proc.Stmt
	transform bool
	label     string
	runnable  bool   // terminating and single-typed: accepted code must run without evaluator panic
	shadow    string // predicate context: name of the pattern's capture ("" = cap)
	emptyPat  bool   // predicate context: the pattern matches the empty string (match == '', matchLength == 0)
	noPat     bool   // predicate context: the pattern in front of begin is the empty group, or nothing at all
	nest      int    // the definition is the inner command of this many `set mK to matches` commands
}

func c12Source(cs *c12Case, full bool) string {
	body := proc.RenderStmts(cs.stmts, full)
	// a definition written as the inner command of `set m to matches <command>` is a definition all the same
	nest := ""
	for k := 0; k < cs.nest; k++ {
		nest += fmt.Sprintf("set m%d to matches ", k)
	}
	if cs.transform {
		return nest + "set f to transform " + body + " end\nreplace all ('7' = cap) with f"
	}
	if cs.nest > 0 {
		return nest + "set p to pattern ('7' = cap) begin " + body + " end\nfind all p"
	}
	pat := "('7' = cap)"
	if cs.noPat {
		// a predicate behind a pattern that generates no instruction at all is a predicate all the same
		return "set p to pattern " + []string{"()", "(())", ""}[len(body)%3] + " begin " + body + " end\nfind all digit p"
	}
	if cs.emptyPat {
		// the predicate's pattern matches empty behind a consumed digit: match is the empty string, matchLength the NUMBER 0
		return "set p to pattern (maybe 'q') begin " + body + " end\nfind all digit p"
	}
	if cs.shadow != "" {
		// captures of the pattern are not visible to its predicate: naming one after a built-in or after a
		// variable of the code changes nothing
		pat = "('7' = " + cs.shadow + ")"
	}
	return "set p to pattern " + pat + " begin " + body + " end\nfind all p"
}

func c12TypeEnv() proc.TypeEnv {
	return proc.TypeEnv{"match": proc.TStr, "matchLength": proc.TNum}
}

func varClass(name string) proc.Type {
	switch name[0] {
	case 's':
		return proc.TStr
	case 'n', 'i':
		return proc.TNum
	case 'b':
		return proc.TBool
	}
	return proc.TStr
}

// singleTyped: every assignment gives its variable the one type its name stands for.
func singleTyped(ss []proc.Stmt, env proc.TypeEnv) bool {
	for _, s := range ss {
		switch x := s.(type) {
		case proc.SSet:
			t := proc.TypeOf(x.X, env)
			if t == proc.TErr || t != varClass(x.Name) {
				return false
			}
			env[x.Name] = t
		case proc.SIf:
			if !singleTyped(x.Then, env) || !singleTyped(x.Else, env) {
				return false
			}
		case proc.SLoop:
			if !singleTyped(x.Body, env) {
				return false
			}
		}
	}
	return true
}

func c12Check(r *drv.Run, cs *c12Case, src string, c *wire.Case, res *wire.Result) {
	if crashOrGuard(r, res, c, src, false) {
		return
	}
	cr := res.Compile
	if cr == nil {
		return
	}
	if cr.Panic != nil {
		r.Violate(&drv.Violation{Sig: "compile-panic:" + cr.Panic.Frame, Panic: cr.Panic.Msg, Frame: cr.Panic.Frame, Src: src, Case: c})
		return
	}
	if cr.Budget != "" {
		r.Inconclusive("compile budget")
		return
	}
	ctx := proc.Predicate
	if cs.transform {
		ctx = proc.Transform
	}
	want := proc.CheckStmts(cs.stmts, ctx, c12TypeEnv(), false)
	r.Eval(1)
	if !cr.OK && !strings.HasPrefix(cr.Err, "GenError") {
		// not a typing verdict at all (lexer/parser): the harness rendered something the grammar rejects
		r.Inconclusive("generated process code did not parse: " + oneLineN(cr.Err, 160) + " | " + src)
		return
	}
	if cr.OK != want {
		sig := "accepted-ill-typed:"
		if want {
			sig = "rejected-well-typed:"
		}
		r.Violate(&drv.Violation{Sig: sig + cs.label, Src: src, Err: cr.Err, Case: c,
			Detail: map[string]any{"documented_rules_say": map[bool]string{true: "accept", false: "reject"}[want], "compile_said": map[bool]string{true: "accept", false: "reject: " + oneLineN(cr.Err, 100)}[cr.OK]}})
		return
	}
	if want {
		r.Count("accepted", 1)
	} else {
		r.Count("rejected", 1)
	}
	r.Nontrivial(src)
	r.Count("ctx_"+cs.label, 1)
	if cr.OK && cs.runnable {
		for ti := range res.Runs {
			run := &res.Runs[ti]
			if run.Panic != nil {
				if strings.Contains(run.Panic.Msg, "integer divide by zero") {
					r.Count("division_by_zero_seen_(K1,_C09)", 1)
					continue
				}
				r.Violate(&drv.Violation{Sig: "accepted-code-panics:" + run.Panic.Frame, Panic: run.Panic.Msg, Frame: run.Panic.Frame, Src: src, Text: "7a", Case: c})
				continue
			}
			if run.Budget == "" {
				r.Count("accepted_programs_run", 1)
			}
		}
	}
}

// c12Structures enumerates statement skeletons for the break/continue and return rules.
func c12Structures() [][]proc.Stmt {
	leafs := []proc.Stmt{proc.SBreak{}, proc.SContinue{}, proc.SReturn{X: proc.EStr{V: "x"}}, proc.SReturn{X: proc.EBool{V: true}},
		proc.SReturn{X: proc.ENum{V: 1}}, proc.SDebug{X: proc.ENum{V: 1}}, proc.SSet{Name: "s1", X: proc.EStr{V: "a"}}}
	var level0 [][]proc.Stmt
	for _, l := range leafs {
		level0 = append(level0, []proc.Stmt{l})
	}
	wrapAll := func(in [][]proc.Stmt) [][]proc.Stmt {
		var out [][]proc.Stmt
		for _, b := range in {
			out = append(out, []proc.Stmt{proc.SLoop{Body: b}})
			out = append(out, []proc.Stmt{proc.SIf{Cond: proc.EBool{V: true}, Then: b}})
			out = append(out, []proc.Stmt{proc.SIf{Cond: proc.EBool{V: false}, Then: []proc.Stmt{proc.SDebug{X: proc.ENum{V: 0}}}, Else: b, HasElse: true}})
			out = append(out, []proc.Stmt{proc.SIf{Cond: proc.ENum{V: 1}, Then: b}})
			// something nested first, then the statement at the outer level
			out = append(out, append([]proc.Stmt{proc.SLoop{Body: []proc.Stmt{proc.SBreak{}}}}, b...))
			out = append(out, append([]proc.Stmt{proc.SIf{Cond: proc.EBool{V: true}, Then: []proc.Stmt{proc.SDebug{X: proc.ENum{V: 0}}}}}, b...))
		}
		return out
	}
	l1 := wrapAll(level0)
	l2 := wrapAll(l1)
	l3 := wrapAll(l2)
	var all [][]proc.Stmt
	all = append(all, level0...)
	all = append(all, l1...)
	all = append(all, l2...)
	all = append(all, l3...)
	return all
}

func C12(r *drv.Run) {
	r.BuildWorker()
	nrand := 30000
	if !quick(r) {
		nrand = 600000
	}
	nl := len(c11Leaves()) + 1 // + matchNumber
	r.Rule = fmt.Sprintf("two more statement contexts: the definition written as the inner command of one or two `set m to matches` commands; verdicts given while other goroutines compile (eighteen goroutines compiling five ill-typed and three well-typed sources whose verdict hangs on where a loop or branch ends, next to six compiling transforms with loop bodies of 6 000 statements): each equals the verdict of the source alone; names the PATTERN binds read by transforms that never assign them (a capture, a capture only some matches bind, a named loop - a map, not a text -, a named loop holding a capture or inside a subroutine, no binding at all) through twelve kinds of string operation: accepted, no run-time failure, and the value the reference interpreter computes; exhaustive: all %d expressions of depth <= 1 (3 unary x %d leaves + 13 binary x %d x %d leaves, well and ill typed)", 3*nl+13*nl*nl, nl, nl, nl) + " in nine statement contexts (transform return, predicate return, if condition, set, debug, predicate return under a pattern whose capture is named after a built-in or a variable of the code, predicate return and debug under a pattern that matched the empty string: match is the empty string and matchLength the number 0; predicate return behind the empty group or behind no pattern at all); all statement skeletons of nesting depth <= 3 built from loop / if / if-else / ill-typed if around break, continue, return string|number|bool, debug, set, including a statement placed after a nested loop or if (compile only); seeded random statement lists (set, if/else, loop with break/continue, return, debug) over random expression trees of depth <= 2, in predicate and transform context, every variable initialised once with the type its name stands for; pairs of functions in one source where the second reads names only the first assigned (no checker state may leak from one function into the next); and, run: two transforms in ONE replacement where the first assigns a name a string / number / boolean and the second applies every operator that is well typed for an unassigned (string) name to it - each function is typed on its own, so it must also run on its own. Long definitions: one transform or predicate of 10 .. 12 000 (thorough 30 000) flat statements in four shapes (lookup table, assignments, debug lines, + chains), with and without one ill-typed statement at the very end. Oracle: type checker transcribed from the documented tables decides accept/reject; accepted single-typed terminating programs are run and must not raise an evaluator panic. Distinct by source text; non-trivial = verdicts agreed on a distinct program (both accepted and rejected programs are required)."
	r.Assumptions = []string{
		"typing of variables: latest assignment in program order, unassigned names are strings (what the documentation's inference amounts to for single-typed variables)",
		"integer division by zero at run time is not an undefined *typing* operation (known finding K1 under C09) and is ignored here",
	}
	leaves := c11Leaves()
	// matchNumber: for the checker an undeclared name (a string), at run time a number - every operation the
	// checker lets through on it must still be defined when it runs (transform contexts bind it)
	leaves = append(leaves, proc.EVar{Name: "matchNumber"})
	var exprs []proc.Expr
	for _, op := range unOps {
		for _, a := range leaves {
			exprs = append(exprs, proc.EUn{Op: op, X: a})
		}
	}
	for _, op := range binOps {
		for _, a := range leaves {
			for _, b := range leaves {
				exprs = append(exprs, proc.EBin{Op: op, L: a, R: b})
			}
		}
	}
	inits := []proc.Stmt{
		proc.SSet{Name: "s1", X: proc.EStr{V: "abc"}}, proc.SSet{Name: "n1", X: proc.ENum{V: 7}}, proc.SSet{Name: "b1", X: proc.EBool{V: true}},
		proc.SSet{Name: "s2", X: proc.EStr{V: ""}}, proc.SSet{Name: "n2", X: proc.ENum{V: 0}},
	}
	ctxs := []string{"transform-return", "predicate-return", "if-condition", "set", "debug", "predicate-return-shadowed", "predicate-return-on-empty-match", "debug-on-empty-match", "predicate-return-behind-no-pattern", "transform-return-nested-in-set-to-matches", "predicate-return-nested-twice-in-set-to-matches"}
	r.Extra["exhaustive_expressions"] = len(exprs)
	r.Exec(len(exprs)*len(ctxs), drv.ExecOpts{Batch: 1500}, func(i int) *drv.Item {
		e := exprs[i/len(ctxs)]
		ctx := ctxs[i%len(ctxs)]
		cs := &c12Case{label: ctx, runnable: true}
		ss := append([]proc.Stmt{}, inits...)
		switch ctx {
		case "transform-return":
			cs.transform = true
			ss = append(ss, proc.SReturn{X: e})
		case "predicate-return":
			ss = append(ss, proc.SReturn{X: e})
		case "predicate-return-shadowed":
			cs.shadow = []string{"matchLength", "match", "n1", "b1"}[(i/len(ctxs))%4]
			ss = append(ss, proc.SReturn{X: e})
		case "predicate-return-on-empty-match":
			cs.emptyPat = true
			ss = append(ss, proc.SReturn{X: e})
		case "predicate-return-behind-no-pattern":
			cs.noPat = true
			ss = append(ss, proc.SReturn{X: e})
		case "transform-return-nested-in-set-to-matches":
			cs.transform, cs.nest = true, 1
			ss = append(ss, proc.SReturn{X: e})
		case "predicate-return-nested-twice-in-set-to-matches":
			cs.nest = 2
			ss = append(ss, proc.SReturn{X: e})
		case "debug-on-empty-match":
			// (a predicate must return a boolean; the expression of any type is evaluated by a debug statement)
			cs.emptyPat = true
			ss = append(ss, proc.SDebug{X: e}, proc.SReturn{X: proc.EBool{V: true}})
		case "if-condition":
			cs.transform = true
			ss = append(ss, proc.SIf{Cond: e, Then: []proc.Stmt{proc.SReturn{X: proc.EStr{V: "t"}}}}, proc.SReturn{X: proc.EStr{V: "f"}})
		case "set":
			cs.transform = true
			ss = append(ss, proc.SSet{Name: "v9", X: e}, proc.SReturn{X: proc.EStr{V: "x"}})
		case "debug":
			ss = append(ss, proc.SDebug{X: e}, proc.SReturn{X: proc.EBool{V: true}})
		}
		cs.stmts = ss
		src := c12Source(cs, false)
		c := wire.Case{Op: "run", Src: []byte(src), Texts: [][]byte{[]byte("7a")}, StepBudget: 100000}
		return &drv.Item{Case: c, Check: func(res *wire.Result) {
			c12Check(r, cs, src, &c, res)
			if i%9973 == 0 {
				r.Sample(map[string]any{"program": src})
			}
		}}
	})
	structs := c12Structures()
	r.Extra["exhaustive_statement_skeletons"] = len(structs) * 2
	r.Exec(len(structs)*2, drv.ExecOpts{Batch: 1500}, func(i int) *drv.Item {
		cs := &c12Case{stmts: structs[i/2], transform: i%2 == 0, label: "skeleton", runnable: false}
		src := c12Source(cs, false)
		c := wire.Case{Op: "compile", Src: []byte(src)}
		return &drv.Item{Case: c, Check: func(res *wire.Result) {
			c12Check(r, cs, src, &c, res)
			if i%2999 == 0 {
				r.Sample(map[string]any{"program": src})
			}
		}}
	})
	r.Exec(nrand, drv.ExecOpts{Batch: 1000}, func(i int) *drv.Item {
		rng := gen.Derive(r.Seed, "C12", i)
		pg := newProcGen(rng)
		transform := i%2 == 0
		body := pg.stmtList(2, 1+rng.Intn(3), transform, false, rng.Chance(1, 3))
		ss := pg.withInits(body)
		cs := &c12Case{stmts: ss, transform: transform, label: "random-statements"}
		if !transform && rng.Chance(1, 3) {
			cs.shadow = []string{"matchLength", "match", "n1", "s1", "b1"}[rng.Intn(5)]
		}
		cs.runnable = singleTyped(ss, c12TypeEnv())
		src := c12Source(cs, rng.Bool())
		c := wire.Case{Op: "run", Src: []byte(src), Texts: [][]byte{[]byte("7a")}, StepBudget: 100000}
		return &drv.Item{Case: c, Check: func(res *wire.Result) {
			c12Check(r, cs, src, &c, res)
			if i%3001 == 0 {
				r.Sample(map[string]any{"program": src})
			}
		}}
	})
	// two functions in one source: the second reads names the first one assigned (and never assigns them
	// itself). Each function is typed on its own: nothing the checker learnt in one may leak into the next
	// (variable types, "inside a loop", predicate/transform context).
	npair := nrand / 6
	r.Exec(npair, drv.ExecOpts{Batch: 1000}, func(i int) *drv.Item {
		rng := gen.Derive(r.Seed, "C12pair", i)
		pg := newProcGen(rng)
		t1, t2 := rng.Bool(), rng.Bool()
		a := pg.withInits(pg.stmtList(2, 1+rng.Intn(3), t1, false, true))
		// the second function uses the same variable names, uninitialised (they are strings there)
		pg2 := newProcGen(rng)
		pg2.strVar, pg2.numVar, pg2.boolVar = pg.strVar, pg.numVar, pg.boolVar
		b := pg2.stmtList(2, 1+rng.Intn(3), t2, false, rng.Bool())
		if rng.Chance(1, 4) {
			b = append(b, proc.SBreak{})
		}
		render := func(ss []proc.Stmt, transform bool, name string) string {
			body := proc.RenderStmts(ss, false)
			if transform {
				return "set " + name + " to transform " + body + " end\n"
			}
			return "set " + name + " to pattern 'a' begin " + body + " end\n"
		}
		src := render(a, t1, "fa") + render(b, t2, "fb") + "find all 'a'"
		ctxOf := func(tr bool) proc.Context {
			if tr {
				return proc.Transform
			}
			return proc.Predicate
		}
		want := proc.CheckStmts(a, ctxOf(t1), c12TypeEnv(), false) && proc.CheckStmts(b, ctxOf(t2), c12TypeEnv(), false)
		c := wire.Case{Op: "compile", Src: []byte(src)}
		return &drv.Item{Case: c, Check: func(res *wire.Result) {
			if crashOrGuard(r, res, &c, src, false) {
				return
			}
			cr := res.Compile
			if cr == nil || cr.Budget != "" {
				return
			}
			if cr.Panic != nil {
				r.Violate(&drv.Violation{Sig: "compile-panic:" + cr.Panic.Frame, Panic: cr.Panic.Msg, Frame: cr.Panic.Frame, Src: src, Case: &c})
				return
			}
			r.Eval(1)
			if !cr.OK && !strings.HasPrefix(cr.Err, "GenError") {
				r.Inconclusive("generated process code did not parse: " + oneLineN(cr.Err, 160) + " | " + src)
				return
			}
			if cr.OK != want {
				sig := "accepted-ill-typed:"
				if want {
					sig = "rejected-well-typed:"
				}
				r.Violate(&drv.Violation{Sig: sig + "two-functions", Src: src, Err: cr.Err, Case: &c,
					Detail: map[string]any{"documented_rules_say": map[bool]string{true: "accept", false: "reject"}[want], "compile_said": map[bool]string{true: "accept", false: "reject: " + oneLineN(cr.Err, 100)}[cr.OK]}})
				return
			}
			r.Nontrivial(src)
			r.Count("ctx_two-functions", 1)
			if want {
				r.Count("accepted", 1)
			} else {
				r.Count("rejected", 1)
			}
		}}
	})
	c12Isolation(r)
	c12Long(r)
	c12Bound(r)
	c12Concurrent(r)
	if r.NViolations() == 0 {
		if r.Counter("isolation_programs_run") == 0 {
			r.Inconclusive("coverage floor: no two-transform replacement was run")
		}
		if r.Counter("accepted") == 0 || r.Counter("rejected") == 0 || r.Counter("accepted_programs_run") == 0 {
			r.Inconclusive(fmt.Sprintf("coverage floor: accepted=%d rejected=%d run=%d", r.Counter("accepted"), r.Counter("rejected"), r.Counter("accepted_programs_run")))
		}
	}
}

// c12Isolation: `replace ... with fa fb`. fa assigns v9 (string, number or boolean); fb never assigns it, so for the
// checker v9 is a string there and every expression accepted under that reading must run - and evaluate - under
// that reading, whatever fa did for the same match.
func c12Isolation(r *drv.Run) {
	v := proc.EVar{Name: "v9"}
	small := []proc.Expr{proc.EStr{V: "x"}, proc.EStr{V: "3"}, proc.ENum{V: 2}, proc.EBool{V: true}, v}
	var exprs []proc.Expr
	for _, op := range unOps {
		exprs = append(exprs, proc.EUn{Op: op, X: v})
	}
	for _, op := range binOps {
		for _, o := range small {
			exprs = append(exprs, proc.EBin{Op: op, L: v, R: o}, proc.EBin{Op: op, L: o, R: v})
		}
	}
	assigned := []proc.Expr{proc.EStr{V: "abc"}, proc.ENum{V: 7}, proc.EBool{V: true}, proc.EBool{V: false}, proc.ENum{V: 0}}
	tenv := c12TypeEnv()
	type cse struct {
		src  string
		want string
	}
	var cases []cse
	for _, a := range assigned {
		for _, e := range exprs {
			t := proc.TypeOf(e, tenv)
			if t == proc.TErr {
				continue
			}
			val, ok := proc.Eval(e, proc.Env{"match": proc.Str("a"), "matchLength": proc.Num(1)})
			if !ok {
				continue // division by zero and the like
			}
			es := proc.Render(e, false)
			body := "return " + es
			want := val.AsString()
			if t == proc.TBool {
				body = "if " + es + " then return 'T' else return 'F' end"
				want = map[bool]string{true: "T", false: "F"}[val.B]
			}
			src := "set fa to transform set v9 to " + proc.Render(a, false) + " return '<' end\nset fb to transform " + body + " end\nreplace all 'a' with fa fb '>'"
			cases = append(cases, cse{src, "<" + want + ">"})
		}
	}
	r.Exec(len(cases), drv.ExecOpts{Batch: 200}, func(i int) *drv.Item {
		cs := cases[i]
		c := wire.Case{Op: "run", Src: []byte(cs.src), Texts: [][]byte{[]byte("a-a")}, StepBudget: 100000}
		return &drv.Item{Case: c, Check: func(res *wire.Result) {
			if crashOrGuard(r, res, &c, cs.src, false) {
				return
			}
			cr := res.Compile
			r.Eval(1)
			if cr == nil || cr.Panic != nil || !cr.OK {
				msg := ""
				if cr != nil {
					msg = cr.Err
				}
				r.Violate(&drv.Violation{Sig: "rejected-well-typed:two-transforms-one-replacement", Src: cs.src, Err: msg, Case: &c})
				return
			}
			if len(res.Runs) < 1 {
				return
			}
			run := &res.Runs[0]
			if run.Panic != nil {
				r.Violate(&drv.Violation{Sig: "accepted-code-panics:" + run.Panic.Frame, Panic: run.Panic.Msg, Frame: run.Panic.Frame, Src: cs.src, Text: "a-a", Case: &c})
				return
			}
			if run.Budget != "" {
				return
			}
			for _, m := range run.Matches {
				if string(m.Repl) != cs.want {
					r.Violate(&drv.Violation{Sig: "transform-evaluated-in-a-foreign-environment", Src: cs.src, Text: "a-a", Case: &c,
						Detail: map[string]any{"expected_replacement": cs.want, "observed": string(m.Repl)}})
					return
				}
			}
			if len(run.Matches) == 2 {
				r.Count("isolation_programs_run", 1)
				r.Nontrivial(cs.src)
			}
		}}
	})
}
