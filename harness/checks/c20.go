package checks

import (
	"encoding/json"
	"fmt"
	"os"
	"path/filepath"
	"sort"
	"strings"
	"sync"

	"verifharness/drv"
	"verifharness/gen"
	"verifharness/wire"
)

func init() { Registry["C20"] = C20 }

// refSegMatch: '*' stands for any run of characters (also none) within one path segment.
func refSegMatch(pat, name string) bool {
	if pat == "" {
		return name == ""
	}
	if pat[0] == '*' {
		for k := 0; k <= len(name); k++ {
			if refSegMatch(pat[1:], name[k:]) {
				return true
			}
		}
		return false
	}
	if name == "" || pat[0] != name[0] {
		return false
	}
	return refSegMatch(pat[1:], name[1:])
}

type refNode struct {
	name string
	dir  bool
	link bool // a symbolic link to a sibling (directory or regular file)
	kids []*refNode
}

// refGlob walks the reference tree: all segments but the last select directories, the last selects regular files.
// A link to a directory that the LAST segment matches is a directory: never listed (opt stays empty; kept for
// the callers' signature).
func refGlob(root *refNode, segs []string, prefix string, opt map[string]bool) []string {
	// a doubled separator is one separator (an empty segment that is not the last one is no segment)
	for len(segs) > 1 && segs[0] == "" {
		segs = segs[1:]
	}
	var out []string
	if len(segs) == 1 {
		for _, k := range root.kids {
			if !refSegMatch(segs[0], k.name) {
				continue
			}
			if !k.dir {
				out = append(out, prefix+"/"+k.name)
			}
		}
		return out
	}
	for _, k := range root.kids {
		if k.dir && refSegMatch(segs[0], k.name) {
			out = append(out, refGlob(k, segs[1:], prefix+"/"+k.name, opt)...)
		}
	}
	return out
}

func cleanSorted(list []string) ([]string, bool) {
	seen := map[string]bool{}
	dup := false
	var out []string
	for _, p := range list {
		c := filepath.Clean(p)
		if seen[c] {
			dup = true
		}
		seen[c] = true
		out = append(out, c)
	}
	sort.Strings(out)
	return out, dup
}

func allStrings(alpha string, maxLen int) []string {
	var out []string
	prev := []string{""}
	for l := 1; l <= maxLen; l++ {
		var cur []string
		for _, p := range prev {
			for i := 0; i < len(alpha); i++ {
				cur = append(cur, p+string(alpha[i]))
			}
		}
		out = append(out, cur...)
		prev = cur
	}
	return out
}

func buildTree(r *gen.Rng, base string, depth int, node *refNode) {
	names := []string{"a", "b", "ab", "ba", "a.b", "aa", "b.txt", "a.txt", "ab.txt.txt", ".a", "abxb", "a?b", "[a]", "a+b", "a b", "b.TXT", "{a,b}", "a\\b"}
	used := map[string]bool{}
	n := 2 + r.Intn(5)
	for i := 0; i < n; i++ {
		nm := names[r.Intn(len(names))]
		if used[nm] {
			continue
		}
		used[nm] = true
		p := filepath.Join(base, nm)
		if depth > 0 && r.Chance(2, 5) {
			os.MkdirAll(p, 0o755)
			k := &refNode{name: nm, dir: true}
			node.kids = append(node.kids, k)
			buildTree(r, p, depth-1, k)
		} else {
			// a regular file is a regular file whatever its permission bits say
			os.WriteFile(p, []byte("x"), 0o644)
			mode := []os.FileMode{0o644, 0o644, 0o600, 0o000, 0o200, 0o111, 0o444, 0o755}[r.Intn(8)]
			if os.Geteuid() == 0 || mode&0o400 != 0 {
				// (without root an unreadable file could be listed but not searched by the CLI part of the check)
				os.Chmod(p, mode)
			}
			node.kids = append(node.kids, &refNode{name: nm})
		}
	}
	// symbolic links to siblings: a linked directory is a directory to every segment but the last,
	// a linked regular file is a regular file
	linkNames := []string{"lnk", "ab.l", "a.txt.l", "bxb", "l b"}
	for _, k := range append([]*refNode{}, node.kids...) {
		if !r.Chance(1, 4) {
			continue
		}
		ln := linkNames[r.Intn(len(linkNames))]
		if used[ln] {
			continue
		}
		used[ln] = true
		if os.Symlink(k.name, filepath.Join(base, ln)) != nil {
			continue
		}
		node.kids = append(node.kids, &refNode{name: ln, dir: k.dir, link: true, kids: k.kids})
	}
	if r.Chance(1, 5) && !used["dangling.txt"] {
		// leads nowhere: not a regular file, in no list (and in the harness's record of the tree not at all)
		os.Symlink("no-such-target", filepath.Join(base, "dangling.txt"))
	}
}

func randSeg(r *gen.Rng) string {
	pieces := []string{"a", "b", "ab", ".", "txt", "x", "*", "*", "*", "?", "[a]", "+", " ", "{a,b}", "TXT"}
	n := 1 + r.Intn(4)
	s := ""
	for i := 0; i < n; i++ {
		s += pieces[r.Intn(len(pieces))]
	}
	return s
}

func C20(r *drv.Run) {
	r.BuildWorker()
	ntrees, npat := 40, 60
	plen := 4
	if !quick(r) {
		ntrees, npat = 400, 150
		plen = 5
	}
	r.Rule = fmt.Sprintf("exhaustive: every pattern of length <= %d over {a,b,.,*} with at most 3 stars x a directory holding every name of length <= 4 over {a,b,.} (118 files) and 3 sub-directories with matching names; generated trees of depth <= 3 (names such as a.txt.txt, abxb, .a, and names containing ? [ ] + { } blank backslash, which only '*' may treat specially) with relative and absolute multi-segment patterns, the trees also holding symbolic links to sibling directories and files and regular files with unusual permission bits (000, 200, 111). The selection is also observed end to end: the built command line tool run inside some of the trees with `find top 1 any` (every file holds one byte), alone, with -profile naming a file OUTSIDE the tree that is called like a file inside it, with -replace-mode plus a JSON output file, and with an absolute pattern into a sibling directory whose name begins like the working directory's; the set of file names in its JSON output must be the same set. Every parsed pattern is asked twice (and once from another directory in between): same answer. A working directory reached through a link and back (a/l/.. with l pointing elsewhere; decoys at the textually cleaned place; entries that are links to a file and to a directory): six patterns. Characters that are separators, escapes or wildcards elsewhere (backslash ? [ ] { } ! ^ ~ : ; , percent dollar hash ampersand blank tab quotes | + ( ) =) inside the PATTERN: a directory holding names with each of them and sub-directories called like what stands in front of the character, eleven patterns per character, relative and absolute; ten patterns with doubled, tripled and quadrupled separators behind literal segments (every selected file listed once). Crowded and deep directories: one directory holding 255..4 097 (thorough ..20 011) entries, counts on both sides of 256, 1 024, 2 048, 4 096, files and sub-directories mixed, among them names with the bytes 0xFF, 0xFE, 0x80, 0x7F, 0x01 and a letter in Latin-1 and in UTF-8, asked with wildcard and literal last and middle segments (also with two more segments behind a wildcard that matches thousands of plain files), while the worker may hold 128 file descriptors, and a chain of twelve (in one tree 70, in another 130) directory levels asked literally and wildcard by wildcard (s* per level in the deep ones); floor: a list of more than 2 048 files compared. Oracle: reference glob (segment-wise, backtracking '*') over the harness's own record of the tree; result sets compared after filepath.Clean; duplicates and listed directories are violations. Non-trivial = pattern containing '*' that selects a non-empty proper subset; distinct by (tree, pattern).", plen)
	r.Assumptions = []string{
		"excluded as the property says: directory segments made only of stars, '.' and '..' segments",
		"a doubled separator counts as one (as in any path); a trailing separator leaves an empty LAST segment, which matches only the empty name, i.e. no file",
		"symbolic links in the trees point to an existing sibling (directory or regular file): a linked directory is a directory (traversed by directory segments, never listed as a file), a linked regular file is a regular file; dangling links (never to be listed) are present in some trees; no special files",
	}
	// flat exhaustive directory
	flat := filepath.Join(r.WorkDir, "c20", "flat")
	os.MkdirAll(flat, 0o755)
	root := &refNode{dir: true}
	for _, nm := range allStrings("ab.", 4) {
		if nm == "." || nm == ".." {
			continue
		}
		os.WriteFile(filepath.Join(flat, nm), []byte("x"), 0o644)
		root.kids = append(root.kids, &refNode{name: nm})
	}
	for _, d := range []string{"aab.", "b.ab", "abab"} { // directories whose names match many patterns; they already exist as files? no: use 5-char names
		dn := d + "d"
		os.MkdirAll(filepath.Join(flat, dn), 0o755)
		os.WriteFile(filepath.Join(flat, dn, "inner"), []byte("x"), 0o644)
		root.kids = append(root.kids, &refNode{name: dn, dir: true, kids: []*refNode{{name: "inner"}}})
	}
	var pats []string
	for _, p := range allStrings("ab.*", plen) {
		if strings.Count(p, "*") > 3 || p == "." || p == ".." {
			continue
		}
		pats = append(pats, p)
	}
	r.Extra["exhaustive_patterns"] = len(pats)
	r.Extra["exhaustive_files"] = len(root.kids)
	r.Exhaustive = true
	check := func(tree *refNode, base string, pattern string, cwd string, sample bool) func(res *wire.Result) {
		return func(res *wire.Result) {
			r.Eval(1)
			c := &wire.Case{Op: "glob", Pattern: pattern, Dir: cwd}
			if res.Died || res.Panic != nil {
				msg, frame := firstLines(res.Stderr, 3), ""
				if res.Panic != nil {
					msg, frame = res.Panic.Msg, res.Panic.Frame
				}
				r.Violate(&drv.Violation{Sig: "glob-panicked:" + frame, Panic: msg, Frame: frame, Case: c, Detail: map[string]any{"pattern": pattern}})
				return
			}
			if res.Mismatch != "" {
				r.Violate(&drv.Violation{Sig: "parsed-pattern-answers-differently-when-asked-again", Case: c, Detail: map[string]any{"pattern": pattern, "what": res.Mismatch}})
				return
			}
			rel := pattern
			if strings.HasPrefix(pattern, "/") {
				rel = strings.TrimPrefix(pattern, base+"/")
			}
			opt := map[string]bool{}
			want := refGlob(tree, strings.Split(rel, "/"), base, opt)
			wantC, _ := cleanSorted(want)
			gotC, dup := cleanSorted(res.Files)
			if len(opt) > 0 {
				kept := gotC[:0]
				for _, g := range gotC {
					if !opt[g] {
						kept = append(kept, g)
					}
				}
				gotC = kept
			}
			if dup {
				r.Violate(&drv.Violation{Sig: "duplicate-entries", Case: c, Detail: map[string]any{"pattern": pattern, "observed": fmt.Sprint(trimAll(gotC, base))}})
				return
			}
			if strings.Join(gotC, "\n") != strings.Join(wantC, "\n") {
				missing, extra := setDiff(wantC, gotC)
				kind := "missing"
				if len(missing) == 0 {
					kind = "extra"
				}
				r.Violate(&drv.Violation{Sig: "file-list-differs:" + kind, Case: c,
					Detail: map[string]any{"pattern": pattern, "missing": fmt.Sprint(trimAll(missing, base)), "extra": fmt.Sprint(trimAll(extra, base)), "expected_count": len(wantC), "observed_count": len(gotC)}})
				return
			}
			r.Count("patterns_verified", 1)
			if strings.Contains(pattern, "*") && len(wantC) > 0 {
				r.Nontrivial(base + "|" + pattern)
				r.Count("wildcard_patterns_selecting_files", 1)
			}
			if strings.Count(pattern, "/") > 0 {
				r.Count("multi_segment_patterns", 1)
			}
			if strings.HasPrefix(pattern, "/") {
				r.Count("absolute_patterns", 1)
			}
			if strings.Contains(pattern, "*") && throughLink(tree, strings.Split(rel, "/")) {
				r.Count("wildcard_patterns_selecting_through_links", 1)
			}
			if sample {
				r.Sample(map[string]any{"pattern": pattern, "selected": len(wantC), "first": trimAll(wantC, base)[:min(3, len(wantC))]})
			}
		}
	}
	r.Exec(len(pats), drv.ExecOpts{Batch: 100}, func(i int) *drv.Item {
		return &drv.Item{Case: wire.Case{Op: "glob", Pattern: pats[i], Dir: flat}, Check: check(root, flat, pats[i], flat, i%211 == 0)}
	})
	// generated trees
	type tcase struct {
		tree *refNode
		base string
		pats []string
	}
	var tcs []tcase
	for t := 0; t < ntrees; t++ {
		rng := gen.Derive(r.Seed, "C20tree", t)
		base := filepath.Join(r.WorkDir, "c20", fmt.Sprintf("t%d", t))
		os.MkdirAll(base, 0o755)
		tree := &refNode{dir: true}
		buildTree(rng, base, 2, tree)
		tc := tcase{tree: tree, base: base}
		for k := 0; k < npat; k++ {
			nseg := 1 + rng.Intn(3)
			var segs []string
			okp := true
			for s := 0; s < nseg; s++ {
				sg := randSeg(rng)
				if s < nseg-1 && strings.Trim(sg, "*") == "" {
					okp = false
				}
				if sg == "." || sg == ".." {
					okp = false
				}
				segs = append(segs, sg)
			}
			if !okp {
				continue
			}
			p := strings.Join(segs, "/")
			switch rng.Intn(12) {
			case 0:
				// a trailing separator leaves an empty last segment, which no file name matches: nothing is selected
				p += "/"
			case 1:
				// a doubled separator in the middle is one separator
				if nseg > 1 {
					p = strings.Replace(p, "/", "//", 1)
				}
			}
			if rng.Chance(1, 4) {
				p = base + "/" + p
			}
			tc.pats = append(tc.pats, p)
		}
		tcs = append(tcs, tc)
	}
	type flatPat struct {
		tc  int
		pat string
	}
	var fps []flatPat
	for ti, tc := range tcs {
		for _, p := range tc.pats {
			fps = append(fps, flatPat{ti, p})
		}
	}
	r.Exec(len(fps), drv.ExecOpts{Batch: 150}, func(i int) *drv.Item {
		fp := fps[i]
		tc := tcs[fp.tc]
		return &drv.Item{Case: wire.Case{Op: "glob", Pattern: fp.pat, Dir: tc.base}, Check: check(tc.tree, tc.base, fp.pat, tc.base, i%499 == 0)}
	})
	// crowded and deep directories: entry counts on both sides of 256, 1024, 2048, 4096 (files and sub-directories mixed)
	// and a chain of twelve directory levels
	{
		sizes := []int{255, 256, 257, 1023, 1024, 1025, 2047, 2048, 2049, 4097}
		if !quick(r) {
			sizes = append(sizes, 8193, 20011)
		}
		var cps []flatPat
		var ctcs []tcase
		for _, n := range sizes {
			base := filepath.Join(r.WorkDir, "c20", fmt.Sprintf("crowd%d", n))
			tree := &refNode{dir: true}
			big := &refNode{name: "big", dir: true}
			os.MkdirAll(filepath.Join(base, "big"), 0o755)
			lastDir := ""
			for i := 0; i < n; i++ {
				switch {
				case i%5 == 4:
					nm := fmt.Sprintf("d%05d", i)
					os.MkdirAll(filepath.Join(base, "big", nm, "sub"), 0o755)
					os.WriteFile(filepath.Join(base, "big", nm, "x.txt"), []byte("x"), 0o644)
					os.WriteFile(filepath.Join(base, "big", nm, "sub", "y.txt"), []byte("x"), 0o644)
					big.kids = append(big.kids, &refNode{name: nm, dir: true, kids: []*refNode{{name: "x.txt"}, {name: "sub", dir: true, kids: []*refNode{{name: "y.txt"}}}}})
					lastDir = nm
				case i%7 == 0:
					nm := fmt.Sprintf("f%05d.dat", i)
					os.WriteFile(filepath.Join(base, "big", nm), []byte("x"), 0o644)
					big.kids = append(big.kids, &refNode{name: nm})
				default:
					nm := fmt.Sprintf("f%05d.txt", i)
					os.WriteFile(filepath.Join(base, "big", nm), []byte("x"), 0o644)
					big.kids = append(big.kids, &refNode{name: nm})
				}
			}
			// names with bytes at the ends of the byte range (0xFF, 0xFE, 0x80, 0x7F, 0x01) and a Latin-1 / UTF-8 letter,
			// as files and as a sub-directory, in the same crowded directory
			for _, nm := range []string{"a\xff1.log", "a\xff2.log", "a\xfe.log", "\xffz", "\xff", "a\x80.log", "a\x7f.log", "a\x01.log", "a\xc3\xa9.log", "a\xe9.log", "zz\xff\xff.log"} {
				if os.WriteFile(filepath.Join(base, "big", nm), []byte("x"), 0o644) == nil {
					big.kids = append(big.kids, &refNode{name: nm})
				}
			}
			if os.MkdirAll(filepath.Join(base, "big", "d\xffir"), 0o755) == nil {
				os.WriteFile(filepath.Join(base, "big", "d\xffir", "x.txt"), []byte("x"), 0o644)
				big.kids = append(big.kids, &refNode{name: "d\xffir", dir: true, kids: []*refNode{{name: "x.txt"}}})
			}
			tree.kids = append(tree.kids, big)
			deep := &refNode{name: "deep", dir: true}
			tree.kids = append(tree.kids, deep)
			cur, curPath := deep, filepath.Join(base, "deep")
			lit, stars := "deep", "deep"
			levels := 12
			switch n {
			case 255:
				levels = 70 // (well past 40 levels below the root of the file system)
			case 1023:
				levels = 130
			}
			for l := 1; l <= levels; l++ {
				nm := fmt.Sprintf("s%d", l)
				k := &refNode{name: nm, dir: true}
				cur.kids = append(cur.kids, k)
				cur, curPath = k, filepath.Join(curPath, nm)
				lit += "/" + nm
				if levels > 12 {
					// (a directory segment made only of stars also applies the rest of the pattern to the same directory -
					// the property excludes such segments, and seventy of them are 2^70 ways)
					stars += "/s*"
				} else {
					stars += "/*"
				}
			}
			os.MkdirAll(curPath, 0o755)
			os.WriteFile(filepath.Join(curPath, "leaf.txt"), []byte("x"), 0o644)
			cur.kids = append(cur.kids, &refNode{name: "leaf.txt"})
			ctcs = append(ctcs, tcase{tree: tree, base: base})
			for _, pat := range []string{"big/*.txt", "big/f*", "big/*", "big/*/x.txt", "big/d0*/x.txt", "big/f00001.txt", "big/" + lastDir + "/x.txt", "*/*/x.txt", "big/*9.txt",
				// a wildcard directory segment with TWO more segments behind it: every plain file it matches is asked for a
				// sub-directory (and is none) before the real sub-directories are reached
				"big/*/sub/*.txt", "*/*/sub/y.txt", "big/*/s*/y*",
				"big/a\xff*.log", "big/\xff*", "big/d\xff*/x.txt", "big/a\xfe*", "big/a\xc3\xa9*", "big/a\xe9.log", "big/a\x80*", "big/a\x7f*", "big/a\x01*", "big/zz\xff\xff*", "big/a\xff1.log", "big/*\xff*",
				lit + "/*.txt", stars + "/leaf.txt", lit + "/leaf.txt", stars + "/*"} {
				cps = append(cps, flatPat{len(ctcs) - 1, pat})
			}
		}
		r.Exec(len(cps), drv.ExecOpts{Batch: 13}, func(i int) *drv.Item {
			fp := cps[i]
			tc := ctcs[fp.tc]
			return &drv.Item{Case: wire.Case{Op: "glob", Pattern: fp.pat, PatternB: []byte(fp.pat), Dir: tc.base, FdLimit: 128}, Check: func(res *wire.Result) {
				if res.FilesB != nil {
					// names as bytes (JSON would replace bytes that are no UTF-8)
					res.Files = res.Files[:0]
					for _, f := range res.FilesB {
						res.Files = append(res.Files, string(f))
					}
				}
				before := r.NViolations()
				check(tc.tree, tc.base, fp.pat, tc.base, i%29 == 0)(res)
				if r.NViolations() == before && len(res.Files) > 2048 {
					r.Count("lists_of_more_than_2048_files", 1)
				}
			}}
		})
		for _, tc := range ctcs {
			os.RemoveAll(tc.base)
		}
		if r.NViolations() == 0 && r.Counter("lists_of_more_than_2048_files") == 0 {
			r.Inconclusive("coverage floor: no list of more than 2048 files was compared")
		}
	}
	c20Special(r, check)
	// a working directory reached THROUGH A LINK AND BACK (a/l/.. where l points to a directory elsewhere): the place it
	// denotes is the parent of the link's target, not what is left after striking out "l/.." - entries there that are
	// links themselves are judged where they are
	{
		base := filepath.Join(r.WorkDir, "c20", "backlink")
		os.MkdirAll(filepath.Join(base, "a"), 0o755)
		os.MkdirAll(filepath.Join(base, "b", "c"), 0o755)
		os.Symlink("../b/c", filepath.Join(base, "a", "l"))
		os.WriteFile(filepath.Join(base, "b", "target.txt"), []byte("x"), 0o644)
		os.Symlink("target.txt", filepath.Join(base, "b", "ln.txt"))
		os.Symlink("c", filepath.Join(base, "b", "d.txt"))
		os.WriteFile(filepath.Join(base, "b", "c", "inner.txt"), []byte("x"), 0o644)
		// decoys at the place a textual clean-up of the working directory would name
		os.WriteFile(filepath.Join(base, "a", "d.txt"), []byte("x"), 0o644)
		os.WriteFile(filepath.Join(base, "a", "only-here.txt"), []byte("x"), 0o644)
		cwd := filepath.Join(base, "a", "l") + "/.."
		cases := []struct {
			pat  string
			want []string
		}{
			{"*.txt", []string{"ln.txt", "target.txt"}},
			{"l*", []string{"ln.txt"}},
			{"d*", nil},
			{"c/*.txt", []string{"inner.txt"}},
			{"*/inner.txt", []string{"inner.txt", "inner.txt"}},
			{"only*", nil},
		}
		r.Exec(len(cases), drv.ExecOpts{Batch: 3}, func(i int) *drv.Item {
			cs := cases[i]
			c := wire.Case{Op: "glob", Pattern: cs.pat, Dir: cwd}
			return &drv.Item{Case: c, Check: func(res *wire.Result) {
				r.Eval(1)
				if res.Died || res.Panic != nil {
					msg, frame := firstLines(res.Stderr, 3), ""
					if res.Panic != nil {
						msg, frame = res.Panic.Msg, res.Panic.Frame
					}
					r.Violate(&drv.Violation{Sig: "glob-panicked:" + frame, Panic: msg, Frame: frame, Case: &c, Detail: map[string]any{"pattern": cs.pat, "working_directory": cwd}})
					return
				}
				var got []string
				for _, f := range res.Files {
					got = append(got, filepath.Base(f))
				}
				sort.Strings(got)
				want := append([]string{}, cs.want...)
				sort.Strings(want)
				if fmt.Sprint(got) != fmt.Sprint(want) {
					r.Violate(&drv.Violation{Sig: "file-list-differs:working-directory-through-a-link-and-back", Case: &c,
						Detail: map[string]any{"pattern": cs.pat, "working_directory": cwd, "expected_names": fmt.Sprint(want), "observed": fmt.Sprint(res.Files)}})
					return
				}
				r.Count("patterns_from_a_directory_reached_through_a_link_and_back", 1)
			}}
		})
		os.RemoveAll(base)
		if r.NViolations() == 0 && r.Counter("patterns_from_a_directory_reached_through_a_link_and_back") == 0 {
			r.Inconclusive("coverage floor: patterns_from_a_directory_reached_through_a_link_and_back = 0")
		}
	}
	// the same selection observed end to end: the command line tool run inside the tree with the pattern, alone and
	// next to flags that have nothing to do with file selection
	{
		r.BuildCLI()
		ncli := 8
		if !quick(r) {
			ncli = 60
		}
		type job struct {
			tc    tcase
			pat   string
			extra []string
			label string
			cwd   string // "" = the tree's own directory
		}
		var jobs []job
		for ti := 0; ti < len(tcs) && ti < ncli; ti++ {
			tc := tcs[ti]
			rng := gen.Derive(r.Seed, "C20cli", ti)
			// a CPU profile written OUTSIDE the tree, named like a file inside it
			profDir := filepath.Join(r.WorkDir, "c20", fmt.Sprintf("prof%d", ti))
			os.MkdirAll(profDir, 0o755)
			profName := "cpu.prof"
			if files := refGlob(tc.tree, []string{"*"}, "", map[string]bool{}); len(files) > 0 {
				profName = filepath.Base(files[rng.Intn(len(files))])
			}
			pats := append([]string{"*", "*b*", "a*/*"}, tc.pats[:min(len(tc.pats), 6)]...)
			for _, p := range pats {
				if strings.HasPrefix(p, "/") {
					continue
				}
				jobs = append(jobs, job{tc, p, nil, "plain", ""},
					job{tc, p, []string{"-profile", filepath.Join(profDir, profName)}, "with -profile", ""},
					job{tc, p, []string{"-replace-mode", "NOTHING", "-formatted-json-file", filepath.Join(profDir, "out.json")}, "with -replace-mode and a JSON file", ""})
			}
		}
		// an absolute pattern into ANOTHER tree whose directory name merely begins like the working directory's
		// (cwd .../t1, pattern .../t10/..): string prefixes are not path prefixes
		for ti := 1; ti < len(tcs) && ti < ncli; ti++ {
			for tj := range tcs {
				if tj != ti && strings.HasPrefix(tcs[tj].base, tcs[ti].base) {
					other := tcs[tj]
					for _, p := range append([]string{"*"}, other.pats[:min(len(other.pats), 3)]...) {
						if !strings.HasPrefix(p, "/") {
							jobs = append(jobs, job{other, other.base + "/" + p, nil, "absolute pattern into a sibling directory", tcs[ti].base})
						}
					}
					break
				}
			}
		}
		var wg sync.WaitGroup
		sem := make(chan struct{}, 8)
		for _, jb := range jobs {
			wg.Add(1)
			sem <- struct{}{}
			go func(jb job) {
				defer wg.Done()
				defer func() { <-sem }()
				args := append([]string{"-com", "find top 1 any", "-files", jb.pat, "-json"}, jb.extra...)
				cwd := jb.tc.base
				rel := jb.pat
				if jb.cwd != "" {
					cwd = jb.cwd
					rel = strings.TrimPrefix(jb.pat, jb.tc.base+"/")
				}
				code, stdout, stderr := runCLI(r.CLIBin, cwd, args)
				r.Eval(1)
				opt := map[string]bool{}
				want := refGlob(jb.tc.tree, strings.Split(rel, "/"), jb.tc.base, opt)
				wantC, _ := cleanSorted(want)
				viol := func(sig string, d map[string]any) {
					d["pattern"], d["flags"], d["args"] = jb.pat, jb.label, fmt.Sprint(args)
					r.Violate(&drv.Violation{Sig: "cli:" + sig, Detail: d})
				}
				if code != 0 {
					viol("exit-status", map[string]any{"exit": code, "stderr": oneLineN(stderr, 300)})
					return
				}
				seen := map[string]bool{}
				var got []string
				if !strings.HasPrefix(strings.TrimSpace(stdout), "No files to search") && !strings.HasPrefix(strings.TrimSpace(stdout), "There were no matches") {
					var doc []map[string]any
					if err := json.Unmarshal([]byte(stdout), &doc); err != nil {
						viol("stdout-is-not-json", map[string]any{"stdout": oneLineN(stdout, 300)})
						return
					}
					for _, m := range doc {
						f, _ := m["filename"].(string)
						f = filepath.Clean(f)
						under := false
						for o := range opt {
							if f == o || strings.HasPrefix(f, o+"/") {
								under = true
							}
						}
						if !under && !seen[f] {
							seen[f] = true
							got = append(got, f)
						}
					}
				}
				sort.Strings(got)
				if strings.Join(got, "\n") != strings.Join(wantC, "\n") {
					missing, extra := setDiff(wantC, got)
					viol("searched-files-differ", map[string]any{"missing": fmt.Sprint(trimAll(missing, jb.tc.base)), "extra": fmt.Sprint(trimAll(extra, jb.tc.base))})
					return
				}
				r.Count("cli_selections_verified", 1)
				if jb.cwd != "" && len(wantC) > 0 {
					r.Count("cli_selections_verified_in_a_sibling_directory", 1)
				}
				if len(jb.extra) > 0 && len(wantC) > 0 {
					r.Count("cli_selections_verified_next_to_other_flags", 1)
				}
				if strings.Contains(jb.pat, "*") && len(wantC) > 0 {
					r.Nontrivial("cli|" + jb.tc.base + "|" + jb.pat + "|" + jb.label)
				}
			}(jb)
		}
		wg.Wait()
	}
	if r.NViolations() == 0 {
		if r.Counter("cli_selections_verified_next_to_other_flags") == 0 {
			r.Inconclusive("coverage floor: cli_selections_verified_next_to_other_flags = 0")
		}
		for _, k := range []string{"wildcard_patterns_selecting_files", "multi_segment_patterns", "absolute_patterns", "wildcard_patterns_selecting_through_links"} {
			if r.Counter(k) == 0 {
				r.Inconclusive("coverage floor: " + k + " = 0")
			}
		}
	}
}

// throughLink: some selected file is itself a link or lies below a linked directory.
func throughLink(root *refNode, segs []string) bool {
	for _, k := range root.kids {
		if !refSegMatch(segs[0], k.name) {
			continue
		}
		if len(segs) == 1 {
			if !k.dir && k.link {
				return true
			}
			continue
		}
		if k.dir && (k.link && len(refGlob(k, segs[1:], "", map[string]bool{})) > 0 || throughLink(k, segs[1:])) {
			return true
		}
	}
	return false
}

func trimAll(list []string, base string) []string {
	out := make([]string, len(list))
	for i, p := range list {
		out[i] = strings.TrimPrefix(p, base+"/")
	}
	if len(out) > 12 {
		out = append(out[:12], "...")
	}
	return out
}

func setDiff(want, got []string) (missing, extra []string) {
	w := map[string]bool{}
	g := map[string]bool{}
	for _, x := range want {
		w[x] = true
	}
	for _, x := range got {
		g[x] = true
	}
	for _, x := range want {
		if !g[x] {
			missing = append(missing, x)
		}
	}
	for _, x := range got {
		if !w[x] {
			extra = append(extra, x)
		}
	}
	return
}
