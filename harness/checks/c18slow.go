package checks

import (
	"bytes"
	"encoding/json"
	"fmt"
	"os"
	"path/filepath"
	"sync"

	"verifharness/drv"
)

// c18Slow: invocations that RUN FOR A WHILE - one file of 16 MiB (thorough: 64 MiB), about ten (forty) seconds of
// search - under -json, -formatted-json and -no-output at the same time: standard output is the one JSON document (two
// matches, at byte 1 000 and at the very end) or nothing at all, however long the search took. The time is not
// judged, it is only made to pass.
func c18Slow(r *drv.Run) {
	if r.CLIBin == "" {
		return
	}
	size := 16 << 20
	if !quick(r) {
		size = 64 << 20
	}
	dir := filepath.Join(r.WorkDir, "c18slow")
	os.MkdirAll(dir, 0o755)
	defer os.RemoveAll(dir)
	line := []byte("the quick brown fox jumps over the lazy dog 0123456789\n")
	data := bytes.Repeat(line, size/len(line))
	data = append(append(append([]byte{}, data[:1000]...), []byte("needle ")...), data[1000:]...)
	data = append(data, []byte(" needle\n")...)
	os.WriteFile(filepath.Join(dir, "big.txt"), data, 0o644)
	type outcome struct {
		flag, what string
	}
	flags := []string{"-json", "-formatted-json", "-no-output"}
	res := make([]outcome, len(flags))
	var wg sync.WaitGroup
	for i, fl := range flags {
		wg.Add(1)
		go func(i int, fl string) {
			defer wg.Done()
			code, stdout, stderr := runCLI(r.CLIBin, dir, []string{"-com", "find all 'needle'", "-files", "big.txt", fl})
			res[i].flag = fl
			switch {
			case code != 0:
				res[i].what = fmt.Sprintf("exit status %d: %s", code, oneLineN(stderr, 160))
			case fl == "-no-output":
				if stdout != "" {
					res[i].what = fmt.Sprintf("standard output holds %q under -no-output", oneLineN(stdout, 160))
				}
			default:
				var doc []map[string]any
				if err := json.Unmarshal([]byte(stdout), &doc); err != nil {
					res[i].what = fmt.Sprintf("standard output is not one JSON document (%v): begins %q", err, oneLineN(stdout, 120))
				} else if len(doc) != 2 {
					res[i].what = fmt.Sprintf("%d matches in the document, expected 2", len(doc))
				} else {
					off, _ := doc[1]["offset"].(map[string]any)
					if e, _ := off["end"].(float64); int(e) != len(data)-1 {
						res[i].what = fmt.Sprintf("the second match ends at %d, expected %d", int(e), len(data)-1)
					}
				}
			}
		}(i, fl)
	}
	wg.Wait()
	for _, o := range res {
		r.Eval(1)
		if o.what != "" {
			r.Violate(&drv.Violation{Sig: "long-running-invocation:" + o.flag, Src: "find all 'needle'", Detail: map[string]any{"file_bytes": len(data), "flag": o.flag, "difference": o.what}})
		} else {
			r.Count("long_running_invocations_verified", 1)
		}
	}
	r.Max("bytes_searched_by_one_long_running_invocation", len(data))
}
