package checks

import (
	"bytes"
	"fmt"
	"strings"

	"verifharness/drv"
	"verifharness/wire"
)

// c13Deep: a self-referencing subroutine driven k levels deep by the input (one attempt, anchored at the start of the
// file), written as an inline subroutine and as a stored pattern: both match the whole input a^k b, whatever k is.
// Quick: k = 700 and a chain of 10 051 inline subroutines each standing for the one before it; thorough: k = 4 100
// and chains of 4 101 and 16 501
// (the VM copies its call stack on every step: quadratic cost, about 4 s for the chain).
func c13Deep(r *drv.Run) {
	ks := []int{700}
	chains := []int{700, 10050}
	if !quick(r) {
		ks = append(ks, 4100)
		chains = append(chains, 4100, 16500)
	}
	srcs := []string{
		"find all file start {'b' or ('a' s)} = s",
		"set p to pattern {'b' or ('a' s)} = s\nfind all file start p",
		"set p to pattern {'b' or ('a' s)} = s\nfind all file start p\nfind all file start {'b' or ('a' t)} = t",
	}
	type job struct {
		src   string
		k     int
		chain bool
	}
	var jobs []job
	for _, k := range ks {
		for _, s := range srcs {
			jobs = append(jobs, job{s, k, false})
		}
	}
	// a CHAIN of n+1 inline subroutines, each standing for the one before it ({'a'} = s0 {s0} = s1 ...), declared in an
	// alternative that fails at once; the other alternative calls the last one: n+1 live call frames for one byte
	for _, n := range chains {
		var sb strings.Builder
		sb.WriteString("find all ('zzz' {'a'} = s0")
		for k := 1; k <= n; k++ {
			fmt.Fprintf(&sb, " {s%d} = s%d", k-1, k)
		}
		fmt.Fprintf(&sb, ") or (s%d)", n)
		jobs = append(jobs, job{sb.String(), n, true})
	}
	r.Exec(len(jobs), drv.ExecOpts{Batch: 1, WallSecs: 1800}, func(i int) *drv.Item {
		jb := jobs[i]
		text := append(bytes.Repeat([]byte("a"), jb.k), 'b')
		if jb.chain {
			text = []byte("a")
		}
		c := wire.Case{Op: "run", Src: []byte(jb.src), Texts: [][]byte{text}, StepBudget: 50_000_000}
		return &drv.Item{Case: c, Check: func(res *wire.Result) {
			if crashOrGuard(r, res, &c, jb.src, false) {
				return
			}
			if compileTrouble(r, res, &c, jb.src, false) {
				return
			}
			if len(res.Runs) < 1 {
				return
			}
			run := &res.Runs[0]
			r.Eval(1)
			if runTrouble(r, run, &c, jb.src, []byte(fmt.Sprintf("a^%d b", jb.k)), false) {
				return
			}
			ncmd := 1
			if !jb.chain && i%3 == 2 {
				ncmd = 2
			}
			end := jb.k + 1
			if jb.chain {
				end = 1
			}
			ok := len(run.Matches) == ncmd
			for _, m := range run.Matches {
				if m.S != 0 || m.E != end {
					ok = false
				}
			}
			if !ok {
				r.Violate(&drv.Violation{Sig: "deep-recursion:named-pattern-does-not-match-what-its-body-matches", Src: oneLineN(jb.src, 200), Text: fmt.Sprintf("depth %d", jb.k), Case: &c,
					Detail: map[string]any{"depth": jb.k, "expected": fmt.Sprintf("%d match(es) [0,%d)", ncmd, end), "observed": fmtGotN(run.Matches), "max_call_depth": run.MaxCall}})
				return
			}
			r.Count("deep_recursion_runs_verified", 1)
			r.Max("deepest_recursion_verified", jb.k)
			r.Nontrivial(fmt.Sprintf("deeprec|%d|%d", i, jb.k))
		}}
	})
	if r.NViolations() == 0 && r.Counter("deep_recursion_runs_verified") == 0 {
		r.Inconclusive("coverage floor: deep_recursion_runs_verified = 0")
	}
}
