package checks

import (
	"bytes"
	"fmt"
	"os"
	"os/exec"
	"path/filepath"
	"sort"
	"strings"

	"verifharness/drv"
	"verifharness/fsmon"
	"verifharness/gen"
	"verifharness/wire"
)

func init() { Registry["C06"] = C06 }

var c06Commands = []struct {
	src     string
	replace bool
}{
	{"replace all 'ab' with 'X'", true}, // shorter
	// `set .. to matches <command>` is a DEFINITION: whatever command it names, no file is touched in any mode
	{"set m to matches replace all 'ab' with 'X'", false},
	{"set m to matches replace all 'a' with 'bb'\nset k to matches find all 'b'\nfind all 'ab'", false},
	{"set p to pattern 'a'\nset m to matches replace all p with 'Q'\nset f to transform return 'z' end", false},
	{"replace all 'ab' with '<<' value '>>' matchNumber", true}, // longer
	{"replace all 'ab' with ''", true},                          // empty replacement
	{"replace all 'zzzzzz' with 'never'", true},                 // zero matches
	{"replace all at least 1 'a' with '[' value ']'", true},     // adjacent / variable length
	{"replace top 2 'b' with 'B'", true},                        // only some matches
	{"replace last 1 letter with '!'", true},                    // match near EOF
	{"replace all file start any with 'S'", true},               // match at offset 0
	{"replace all any file end with 'E'", true},                 // match at EOF
	{"replace all (digit = d) with d d", true},                  // captures
	{"set f to transform return matchLength end\nreplace all at least 1 letter with f", true},
	{"replace all 'a' with 'b'\nreplace all 'b' with 'c'", true},  // two commands on the same files
	{"replace all 'ab' with 'ab'", true},                          // replacement identical to the match
	{"replace all (at least 1 digit) = d with d", true},           // identical through a capture
	{"replace all caseless 'ab' with 'ab'", true},                 // identical for some matches only
	{"replace all 'b' with 'b' 'b'", true},                        // identical prefix, then longer
	{"replace all 'ab' with neverBoundName", true},                // a with-list that yields no value at all: the match is deleted
	{"replace all 'a' or ('b' = v) with v", true},                 // bound for some matches only
	{"replace all at least 1 ('b' = v) named grp with grp", true}, // a map-valued name contributes nothing
	{"replace all 'b' (maybe (digit = d)) with d", true},          // capture inside a skipped optional
	{"replace all at least 1 'b' with 'XX'", true},                // runs of 1, 2, 3: longer, same, shorter - changes that can sum to zero
	{"find all 'ab'", false},
	{"find all at least 1 letter", false},
}

func c06Content(rng *gen.Rng, size int) []byte {
	alpha := []byte("abab ab\nb a1 2aAB\r\nbaAb")
	b := make([]byte, size)
	for i := range b {
		b[i] = alpha[rng.Intn(len(alpha))]
	}
	return b
}

// splice computes the text the property prescribes from the matches of the in-memory run.
func splice(orig []byte, ms []wire.Match) ([]byte, bool) {
	var out []byte
	last := 0
	for _, m := range ms {
		if m.S < last || m.E > len(orig) {
			return nil, false
		}
		out = append(out, orig[last:m.S]...)
		out = append(out, m.Repl...)
		last = m.E
	}
	out = append(out, orig[last:]...)
	return out, true
}

type c06Layout struct {
	dir      string
	names    []string
	contents map[string][]byte
	stale    map[string][]byte
	before   fsmon.Snapshot
	arg      map[string]string // name -> the spelling handed to RunFiles when it is not dir/name
}

// c06LinkLayout: the searched file is named through a symbolic link to a directory elsewhere followed by `..`
// (base/link/../a.txt is store/a.txt); a decoy of the same size sits where a lexical clean-up of the name would
// look (base/a.txt). Everything - reading, splicing, writing - must happen at the place the name denotes.
func c06LinkLayout(r *drv.Run, i int, rng *gen.Rng) *c06Layout {
	l := &c06Layout{dir: filepath.Join(r.WorkDir, "c06", fmt.Sprint(i)), contents: map[string][]byte{}, stale: map[string][]byte{}, arg: map[string]string{}}
	os.MkdirAll(filepath.Join(l.dir, "store", "deep"), 0o755)
	os.MkdirAll(filepath.Join(l.dir, "base"), 0o755)
	os.Symlink("../store/deep", filepath.Join(l.dir, "base", "link"))
	sz := []int{7, 40, 200, 4097}[rng.Intn(4)]
	real, decoy := c06Content(rng, sz), c06Content(rng, sz)
	os.WriteFile(filepath.Join(l.dir, "store", "a.txt"), real, 0o644)
	os.WriteFile(filepath.Join(l.dir, "base", "a.txt"), decoy, 0o644)
	name := "store/a.txt"
	l.names = []string{name}
	l.contents[name] = real
	l.arg[name] = filepath.Join(l.dir, "base", "link") + "/../a.txt"
	os.WriteFile(filepath.Join(l.dir, "bystander.dat"), []byte("do not touch"), 0o600)
	l.before = fsmon.Take(l.dir)
	return l
}

func c06Setup(r *drv.Run, i int, rng *gen.Rng) *c06Layout {
	l := &c06Layout{dir: filepath.Join(r.WorkDir, "c06", fmt.Sprint(i)), contents: map[string][]byte{}, stale: map[string][]byte{}}
	os.MkdirAll(l.dir, 0o755)
	sizes := []int{0, 1, 7, 40, 200, 4095, 4096, 4097, 8191, 8193, 10000}
	nfiles := 1 + rng.Intn(2)
	for k := 0; k < nfiles; k++ {
		sz := sizes[rng.Intn(len(sizes))]
		if rng.Chance(1, 2) {
			sz = sizes[rng.Intn(5)]
		}
		name := fmt.Sprintf("in%d.txt", k)
		if k == 1 && rng.Chance(1, 2) {
			// a searched file whose own name ends in .vored (output of an earlier run picked up by a glob):
			// NEW must create <name>.vored next to it and leave it alone
			name = "in1.txt.vored"
		}
		b := c06Content(rng, sz)
		l.names = append(l.names, name)
		l.contents[name] = b
		os.WriteFile(filepath.Join(l.dir, name), b, 0o644)
		if rng.Chance(1, 2) {
			// a stale .vored from an earlier run, longer than anything the new output can be
			st := bytes.Repeat([]byte("STALE-"), (sz*3+60)/6)
			l.stale[name+".vored"] = st
			os.WriteFile(filepath.Join(l.dir, name+".vored"), st, 0o644)
		}
	}
	// a bystander that nothing may touch
	os.WriteFile(filepath.Join(l.dir, "bystander.dat"), []byte("do not touch"), 0o600)
	// ... and bystanders called like the backup, temporary and swap files tools keep next to a file they rewrite:
	// the user's own, not the engine's
	for _, name := range l.names {
		for _, bn := range []string{name + ".bak", name + "~", name + ".tmp", name + ".orig", name + ".new", name + ".old", "." + name + ".swp", "#" + name + "#", name + ".vored.tmp", name + ".vored~", name + ".vored.bak"} {
			os.WriteFile(filepath.Join(l.dir, bn), []byte("the user's own "+bn), 0o644)
		}
	}
	os.MkdirAll(filepath.Join(l.dir, "subdir"), 0o755)
	os.WriteFile(filepath.Join(l.dir, "subdir", "deep.txt"), []byte("abab"), 0o644)
	l.before = fsmon.Take(l.dir)
	return l
}

// c06BigLayout: one large file whose unmatched stretches (before the first match, between matches, after the
// last one) have lengths at and next to powers of two well beyond the 4096-byte window: copy loops that work
// in blocks show their boundary arithmetic only there.
func c06BigLayout(r *drv.Run, i int, rng *gen.Rng) *c06Layout {
	l := &c06Layout{dir: filepath.Join(r.WorkDir, "c06", fmt.Sprint(i)), contents: map[string][]byte{}, stale: map[string][]byte{}}
	os.MkdirAll(l.dir, 0o755)
	gaps := []int{16384, 32768, 65536, 131072}
	filler := []byte("xyz \nq")
	var b []byte
	nm := 2 * (1 + rng.Intn(2))
	for k := 0; k <= nm; k++ {
		g := gaps[rng.Intn(len(gaps))] + rng.Intn(3) - 1
		if rng.Chance(1, 2) {
			g = gaps[rng.Intn(len(gaps))] // exact multiples half of the time
		}
		if k == 0 && i%8 == 5 {
			g = 1 << 20 // a file beyond a mebibyte now and then
		}
		if k == nm && rng.Chance(1, 4) {
			g = 0 // match at EOF
		}
		for j := 0; j < g; j++ {
			b = append(b, filler[rng.Intn(len(filler))])
		}
		if k < nm {
			b = append(b, 'a', 'b')
			if k%2 == 1 {
				b = append(b, 'b', 'b') // "abbb": for the b-run command the changes in length then sum to zero
			}
		}
	}
	name := "in0.txt"
	l.names = []string{name}
	l.contents[name] = b
	os.WriteFile(filepath.Join(l.dir, name), b, 0o644)
	if rng.Chance(1, 2) {
		st := bytes.Repeat([]byte("STALE-"), len(b)/4)
		l.stale[name+".vored"] = st
		os.WriteFile(filepath.Join(l.dir, name+".vored"), st, 0o644)
	}
	os.WriteFile(filepath.Join(l.dir, "bystander.dat"), []byte("do not touch"), 0o600)
	l.before = fsmon.Take(l.dir)
	return l
}

func C06(r *drv.Run) {
	r.BuildWorker()
	if os.Getenv("VERIF_FAMILY") == "giant" {
		// debugging aid: the giant-file family alone (never set by a registered command)
		c06Giant(r)
		return
	}
	n := 500
	ncli := 0
	if !quick(r) {
		n = 9000
		ncli = 250
	}
	r.Rule = fmt.Sprint("RunFiles on scratch directories: ", len(c06Commands), " commands") + " (replacement shorter / longer / empty / identical to the matched text, a with-list of names that are unbound for all or some matches or map-valued (no value: the match is deleted), zero matches, adjacent matches, match at offset 0 and at EOF, captures, a transform, two commands over the same files, find commands) x 1..2 files of sizes 0, 1, 7, 40, 200, 4095..4097, 8191, 8193, 10 000 x {NOTHING, NEW, OVERWRITE}, plus large files (up to ~400 KB) whose unmatched stretches before, between and after 1..3 matches are exactly 16384 / 32768 / 65536 / 131072 bytes or one byte off, and files named through a symbolic link to a directory elsewhere followed by `..` (a decoy of the same size sits at the lexically cleaned place), with stale longer .vored files and bystander files present. Oracle: directory snapshot (type, size, mode, SHA-256, inode) before/after must differ by exactly the change set the mode allows, and the written text must equal the splice of the original bytes with the replacements of the in-memory run at its spans; every file the library opens for writing (hook H5) must be in the allowed set. Sessions: 3..6 steps in ONE worker process over the same two paths - a file is rewritten between steps (often with different bytes of the SAME size), then one or two literal replace commands run in a random mode; the expected content of every file after every step comes from a harness-side model (sequential ReplaceAll for OVERWRITE, last command on the unchanged source for NEW), so nothing remembered from an earlier call or command may leak into a later one. Directory arguments with unusual names (ending in one or two backslashes, with a blank, named like a file; plain, with a trailing and a doubled slash), each with decoy files in the parent directory named like a wrong join of directory and entry name: only the files inside the directory change. Several names of one file: a directory argument whose entries include hard links and symbolic links to a sibling (and a list naming one file twice), literal replace commands in every mode - the entries are handled in name order and the second name of a file finds what the first one left (harness-side model). Failing calls: a replace whose transform divides by zero on a match of the second (or first, or only) file - after the call every file is either untouched or holds exactly the splice of a file whose replacements all exist; the file whose replacement could not be computed, and its stale .vored, are untouched (the panic itself is known finding K1 and not judged here). Thorough tier additionally drives the built CLI under strace and checks every path opened for writing/creating/truncating, renamed, unlinked or truncated. Non-trivial = a replace run with >= 1 match in mode NEW or OVERWRITE whose output was verified; distinct by (command, layout, mode). Next to every searched file stand bystanders called like backup, temporary and swap files of it (.bak ~ .tmp .orig .new .old .swp #..# .vored.tmp .vored~ .vored.bak): nothing may touch them. The command line tool with -replace-mode given twice (every ordered pair of NOTHING, NEW, OVERWRITE and the empty value): the mode given last is in force, judged by what is on disk afterwards. Thorough tier: one unmatched stretch of 2^30 + 14 000 bytes (more than one read(2) returns) behind the only match of `replace top 1` in a sparse file, modes NEW and OVERWRITE, output compared with the input in 4 MiB pieces."
	r.Assumptions = []string{
		"the spans and replacements spliced are those of Run on the same bytes (C01/C05/C07 judge those)",
		"with two replace commands in one source each command rewrites from the file as the previous command left it (OVERWRITE) or from the unchanged source (NEW): the expected text is computed accordingly",
	}
	modes := []string{"NOTHING", "NEW", "OVERWRITE"}
	nbig := 24
	if !quick(r) {
		nbig = 240
	}
	bigCmds := []int{0, 4, 6, 15, 23}
	nlink := 16
	r.Exec(n+nbig+nlink, drv.ExecOpts{Batch: 25}, func(i int) *drv.Item {
		rng := gen.Derive(r.Seed, "C06", i)
		cmd := c06Commands[i%len(c06Commands)]
		mode := modes[(i/len(c06Commands))%3]
		var l *c06Layout
		if i >= n+nbig {
			cmd = c06Commands[bigCmds[(i-n-nbig)%len(bigCmds)]]
			mode = modes[1+((i-n-nbig)/len(bigCmds))%2]
			l = c06LinkLayout(r, i, rng)
			r.Count("layouts_named_through_link_and_dotdot", 1)
		} else if i >= n {
			cmd = c06Commands[bigCmds[(i-n)%len(bigCmds)]]
			mode = modes[1+((i-n)/len(bigCmds))%2]
			if (i-n)%11 == 10 {
				mode = "NOTHING"
			}
			l = c06BigLayout(r, i, rng)
		} else {
			l = c06Setup(r, i, rng)
		}
		var paths []string
		var texts [][]byte
		for _, nm := range l.names {
			if a, ok := l.arg[nm]; ok {
				paths = append(paths, a)
			} else {
				paths = append(paths, filepath.Join(l.dir, nm))
			}
			texts = append(texts, l.contents[nm])
		}
		c := wire.Case{Op: "runfiles", Src: []byte(cmd.src), Files: paths, Mode: mode, Texts: texts, StepBudget: 20_000_000}
		return &drv.Item{Case: c, Check: func(res *wire.Result) {
			defer os.RemoveAll(l.dir)
			c06Check(r, l, cmd.src, cmd.replace, mode, &c, res, i)
		}}
	})
	c06Failing(r)
	c06Aliases(r)
	// the mode as the command line tool takes it: -replace-mode given twice (what the run leaves on disk)
	r.BuildCLI()
	c18RepeatedMode(r)
	if !quick(r) {
		c06Giant(r)
	}
	c06DirNames(r)
	c06Sessions(r, n/5)
	if ncli > 0 {
		c06CLI(r, ncli)
	}
	if r.NViolations() == 0 {
		for _, k := range []string{"verified_NEW", "verified_OVERWRITE", "verified_NOTHING", "verified_find", "stale_vored_replaced", "write_opens_checked", "session_steps_verified", "session_same_size_rewrites", "session_multi_command_overwrite_steps", "verified_large_file_outputs", "failed_calls_whose_files_were_inspected"} {
			if r.Counter(k) == 0 {
				r.Inconclusive("coverage floor: " + k + " = 0")
			}
		}
	}
}

// expectedOutputs computes, per file, what NEW must leave in <file>.vored and OVERWRITE in <file>.
func c06Expected(l *c06Layout, src string, mode string, res *wire.Result) (map[string][]byte, bool) {
	// res.Runs[0] is the RunFiles call; res.Runs[1+k] is Run(contents of file k) of the whole program.
	out := map[string][]byte{}
	ncmd := strings.Count(src, "replace ")
	for k, nm := range l.names {
		run := &res.Runs[1+k]
		if run.Panic != nil || run.Budget != "" {
			return nil, false
		}
		orig := l.contents[nm]
		if ncmd <= 1 {
			sp, ok := splice(orig, run.Matches)
			if !ok {
				return nil, false
			}
			out[nm] = sp
			continue
		}
		// several replace commands over the same file: which text each command starts from depends on
		// the mode (OVERWRITE chains, NEW restarts from the source); only the touched-file set is judged
		return nil, false
	}
	return out, true
}

func c06Check(r *drv.Run, l *c06Layout, src string, replace bool, mode string, c *wire.Case, res *wire.Result, i int) {
	if crashOrGuard(r, res, c, src, false) {
		return
	}
	if res.Compile == nil || !res.Compile.OK {
		r.Inconclusive("fixed program rejected: " + src)
		return
	}
	if len(res.Runs) != 1+len(l.names) {
		r.Inconclusive("short result")
		return
	}
	fr := &res.Runs[0]
	r.Eval(1)
	if fr.Panic != nil {
		r.Violate(&drv.Violation{Sig: "runfiles-panic:" + fr.Panic.Frame, Panic: fr.Panic.Msg, Frame: fr.Panic.Frame, Src: src, Case: c, Detail: map[string]any{"mode": mode}})
		return
	}
	if fr.Budget != "" {
		r.Count("skipped_expensive", 1)
		return
	}
	after := fsmon.Take(l.dir)
	diff := fsmon.Diff(l.before, after)
	allowed := map[string]bool{}
	if replace {
		for _, nm := range l.names {
			switch mode {
			case "NEW":
				allowed[nm+".vored"] = true
			case "OVERWRITE":
				allowed[nm] = true
			}
		}
	}
	for _, ch := range diff {
		if !allowed[ch.Path] {
			r.Violate(&drv.Violation{Sig: "touched-a-file-the-mode-does-not-allow:" + mode, Src: src, Case: c,
				Detail: map[string]any{"change": ch.String(), "all_changes": fmt.Sprint(diff), "mode": mode}})
			return
		}
	}
	// write-open log from inside the library
	for _, w := range fr.WriteOpens {
		// the place the opened name denotes (links resolved by the file system, not lexically)
		if k := strings.LastIndexByte(w, '/'); k > 0 {
			// (filepath.Dir would clean the name lexically first)
			if d, err := filepath.EvalSymlinks(w[:k]); err == nil {
				w = d + "/" + w[k+1:]
			}
		}
		rel, _ := filepath.Rel(l.dir, w)
		r.Count("write_opens_checked", 1)
		if !allowed[rel] {
			r.Violate(&drv.Violation{Sig: "opened-for-writing-outside-allowed-set:" + mode, Src: src, Case: c, Detail: map[string]any{"path": rel, "mode": mode}})
			return
		}
	}
	if !replace {
		r.Count("verified_find", 1)
		return
	}
	if mode == "NOTHING" {
		r.Count("verified_NOTHING", 1)
		return
	}
	exp, ok := c06Expected(l, src, mode, res)
	if !ok {
		r.Count("content_not_judged", 1)
		return
	}
	nmatches := 0
	for k := range l.names {
		nmatches += len(res.Runs[1+k].Matches)
	}
	for _, nm := range l.names {
		target := nm
		if mode == "NEW" {
			target = nm + ".vored"
			// source must be byte-identical
			cur, _ := os.ReadFile(filepath.Join(l.dir, nm))
			if !bytes.Equal(cur, l.contents[nm]) {
				r.Violate(&drv.Violation{Sig: "NEW-changed-the-searched-file", Src: src, Case: c, Detail: map[string]any{"file": nm}})
				return
			}
		}
		got, err := os.ReadFile(filepath.Join(l.dir, target))
		if err != nil {
			r.Violate(&drv.Violation{Sig: "output-file-missing:" + mode, Src: src, Case: c, Detail: map[string]any{"file": target}})
			return
		}
		if !bytes.Equal(got, exp[nm]) {
			d := firstDiff(got, exp[nm])
			r.Violate(&drv.Violation{Sig: "output-is-not-the-splice:" + mode, Src: src, Case: c,
				Detail: map[string]any{"file": target, "source_size": len(l.contents[nm]), "expected_size": len(exp[nm]), "observed_size": len(got), "first_difference": d}})
			return
		}
		if _, wasStale := l.stale[target]; wasStale {
			r.Count("stale_vored_replaced", 1)
		}
	}
	r.Count("verified_"+mode, 1)
	for _, nm := range l.names {
		if len(l.contents[nm]) > 16000 {
			r.Count("verified_large_file_outputs", 1)
		}
	}
	if nmatches > 0 {
		r.Nontrivial(fmt.Sprintf("%s|%s|%d", src, mode, i))
	}
	if i%61 == 0 {
		sizes := []int{}
		for _, nm := range l.names {
			sizes = append(sizes, len(l.contents[nm]))
		}
		r.Sample(map[string]any{"program": src, "mode": mode, "file_sizes": sizes, "matches": nmatches})
	}
}

func firstDiff(a, b []byte) string {
	n := min(len(a), len(b))
	for i := 0; i < n; i++ {
		if a[i] != b[i] {
			lo := max(0, i-8)
			return fmt.Sprintf("at byte %d: observed %q expected %q", i, a[lo:min(len(a), i+8)], b[lo:min(len(b), i+8)])
		}
	}
	return fmt.Sprintf("lengths differ: observed %d expected %d", len(a), len(b))
}

// c06CLI drives the built command line tool under strace: transient writes a snapshot cannot see.
func c06CLI(r *drv.Run, n int) {
	r.BuildCLI()
	if _, err := exec.LookPath("strace"); err != nil {
		r.Inconclusive("strace not available")
		return
	}
	modes := []string{"NOTHING", "NEW", "OVERWRITE", ""}
	for i := 0; i < n && !r.Aborted(); i++ {
		rng := gen.Derive(r.Seed, "C06cli", i)
		cmd := c06Commands[i%len(c06Commands)]
		if strings.Count(cmd.src, "replace ") > 1 {
			continue
		}
		mode := modes[(i/len(c06Commands))%4]
		l := c06Setup(r, 100000+i, rng)
		args := []string{"-com", cmd.src, "-files", "in*.txt", "-no-output"}
		if mode != "" {
			args = append(args, "-replace-mode", mode)
		}
		logp := filepath.Join(r.WorkDir, fmt.Sprintf("strace-%d.log", i))
		full := append([]string{"-f", "-o", logp, "-e", "trace=openat,creat,rename,renameat,renameat2,unlink,unlinkat,truncate,mkdir,mkdirat,rmdir,chmod,fchmodat", r.CLIBin}, args...)
		c := exec.Command("strace", full...)
		c.Dir = l.dir
		var outb bytes.Buffer
		c.Stdout, c.Stderr = &outb, &outb
		err := c.Run()
		r.Eval(1)
		eff := mode
		if eff == "" {
			eff = "NEW"
		}
		allowed := map[string]bool{}
		if cmd.replace {
			for _, nm := range l.names {
				if eff == "NEW" {
					allowed[nm+".vored"] = true
				} else if eff == "OVERWRITE" {
					allowed[nm] = true
				}
			}
		}
		if err != nil {
			r.Violate(&drv.Violation{Sig: "cli-failed-under-strace", Src: cmd.src, Detail: map[string]any{"args": fmt.Sprint(args), "output": oneLineN(outb.String(), 300)}})
			os.RemoveAll(l.dir)
			continue
		}
		ws, _ := fsmon.Writes(logp)
		var outside []string
		for _, w := range ws {
			p := fsmon.PathOf(w)
			if !filepath.IsAbs(p) {
				p = filepath.Join(l.dir, p)
			}
			rel, e := filepath.Rel(l.dir, p)
			if e != nil || strings.HasPrefix(rel, "..") {
				if strings.HasPrefix(p, "/dev/") || strings.HasPrefix(p, "/proc/") || strings.HasPrefix(p, "/sys/") {
					continue
				}
				outside = append(outside, w)
				continue
			}
			r.Count("strace_write_events", 1)
			if !allowed[rel] {
				outside = append(outside, w)
			}
		}
		if len(outside) > 0 {
			sort.Strings(outside)
			r.Violate(&drv.Violation{Sig: "cli-wrote-outside-allowed-set:" + eff, Src: cmd.src, Detail: map[string]any{"events": fmt.Sprint(outside), "mode": eff}})
		} else {
			after := fsmon.Take(l.dir)
			bad := false
			for _, ch := range fsmon.Diff(l.before, after) {
				if !allowed[ch.Path] {
					bad = true
					r.Violate(&drv.Violation{Sig: "cli-touched-a-file-the-mode-does-not-allow:" + eff, Src: cmd.src, Detail: map[string]any{"change": ch.String()}})
				}
			}
			if !bad {
				r.Count("cli_strace_runs_verified", 1)
				r.Nontrivial(fmt.Sprintf("cli|%s|%s|%d", cmd.src, eff, i))
			}
		}
		os.Remove(logp)
		os.RemoveAll(l.dir)
	}
}

// ---- sessions: several calls and commands over the same paths in one process ---------------------

type litCmd struct{ from, to string }

var c06Words = []string{"cat", "dog", "mat", "rug", "ab", "ba", "xy", "a", "bb"}

func c06Sessions(r *drv.Run, n int) {
	if n < 40 {
		n = 40
	}
	r.Exec(n, drv.ExecOpts{Batch: 10}, func(i int) *drv.Item {
		rng := gen.Derive(r.Seed, "C06session", i)
		dir := filepath.Join(r.WorkDir, "c06s", fmt.Sprint(i))
		os.MkdirAll(dir, 0o755)
		names := []string{"one.txt", "two.txt"}
		model := map[string][]byte{}
		mkContent := func(size int) []byte {
			var b []byte
			for len(b) < size {
				b = append(b, c06Words[rng.Intn(len(c06Words))]...)
				b = append(b, " \n"[rng.Intn(2)])
			}
			return b[:size]
		}
		sizes := map[string]int{"one.txt": []int{23, 60, 4100}[rng.Intn(3)], "two.txt": []int{0, 17, 200}[rng.Intn(3)]}
		nsteps := 3 + rng.Intn(4)
		var steps []wire.Step
		var expect []map[string][]byte
		sameSize, multiOver := 0, 0
		for k := 0; k < nsteps; k++ {
			st := wire.Step{}
			// rewrite files: always in the first step, later with probability 1/2, mostly keeping the size
			if k == 0 || rng.Bool() {
				st.Write = map[string][]byte{}
				for _, nm := range names {
					if k == 0 || rng.Bool() {
						if k > 0 && rng.Chance(1, 4) {
							sizes[nm] = sizes[nm] + 5
						} else if k > 0 {
							sameSize++
						}
						c := mkContent(sizes[nm])
						st.Write[nm] = c
						model[nm] = c
					}
				}
			}
			ncmd := 1 + rng.Intn(2)
			var cmds []litCmd
			src := ""
			for q := 0; q < ncmd; q++ {
				f := c06Words[rng.Intn(len(c06Words))]
				t := c06Words[rng.Intn(len(c06Words))]
				if rng.Chance(1, 2) {
					// same length: the file keeps its size
					for len(t) != len(f) {
						t = c06Words[rng.Intn(len(c06Words))]
					}
				}
				cmds = append(cmds, litCmd{f, t})
				src += "replace all " + gen.Quote(f) + " with " + gen.Quote(t) + "\n"
			}
			st.Src = []byte(src)
			st.Files = names[:1+rng.Intn(2)]
			st.Mode = []string{"OVERWRITE", "OVERWRITE", "NEW", "NOTHING"}[rng.Intn(4)]
			for _, nm := range st.Files {
				switch st.Mode {
				case "OVERWRITE":
					cur := model[nm]
					for _, c := range cmds {
						cur = bytes.ReplaceAll(cur, []byte(c.from), []byte(c.to))
					}
					model[nm] = cur
					if ncmd > 1 {
						multiOver++
					}
				case "NEW":
					last := cmds[len(cmds)-1]
					model[nm+".vored"] = bytes.ReplaceAll(model[nm], []byte(last.from), []byte(last.to))
				}
			}
			snap := map[string][]byte{}
			for kname, v := range model {
				snap[kname] = v
			}
			steps = append(steps, st)
			expect = append(expect, snap)
		}
		c := wire.Case{Op: "session", Dir: dir, Steps: steps}
		return &drv.Item{Case: c, Check: func(res *wire.Result) {
			defer os.RemoveAll(dir)
			r.Eval(1)
			if res.Died || res.Panic != nil {
				msg, frame := firstLines(res.Stderr, 3), ""
				if res.Panic != nil {
					msg, frame = res.Panic.Msg, res.Panic.Frame
				}
				r.Violate(&drv.Violation{Sig: "session-crashed:" + frame, Panic: msg, Frame: frame, Case: &c})
				return
			}
			if len(res.StepResults) != len(steps) {
				r.Inconclusive("session: short result")
				return
			}
			for k, sr := range res.StepResults {
				if sr.CompileErr != "" {
					r.Inconclusive("session program rejected: " + sr.CompileErr)
					return
				}
				if sr.Panic != nil {
					r.Violate(&drv.Violation{Sig: "runfiles-panic:" + sr.Panic.Frame, Panic: sr.Panic.Msg, Frame: sr.Panic.Frame, Src: string(steps[k].Src), Case: &c, Detail: map[string]any{"step": k, "mode": steps[k].Mode}})
					return
				}
				for name, want := range expect[k] {
					got, ok := sr.Contents[name]
					if !ok || !bytes.Equal(got, want) {
						r.Violate(&drv.Violation{Sig: "session-file-content-wrong:" + steps[k].Mode, Src: string(steps[k].Src), Case: &c,
							Detail: map[string]any{"step": k, "of": len(steps), "file": name, "mode": steps[k].Mode, "expected": oneLineN(string(want), 120), "observed": oneLineN(string(got), 120), "first_difference": firstDiff(got, want)}})
						return
					}
				}
				for name := range sr.Contents {
					if _, ok := expect[k][name]; !ok {
						r.Violate(&drv.Violation{Sig: "session-unexpected-file", Src: string(steps[k].Src), Case: &c, Detail: map[string]any{"step": k, "file": name}})
						return
					}
				}
				r.Count("session_steps_verified", 1)
			}
			r.Count("session_same_size_rewrites", sameSize)
			r.Count("session_multi_command_overwrite_steps", multiOver)
			r.Nontrivial(fmt.Sprintf("session|%d", i))
			if i%17 == 0 {
				r.Sample(map[string]any{"session_steps": len(steps), "first_program": string(steps[0].Src), "first_mode": steps[0].Mode})
			}
		}}
	})
}

// c06Failing: a call that fails while computing a replacement writes nothing that is not a complete splice.
func c06Failing(r *drv.Run) {
	src := "set t1 to transform return 100 / (match - 0) end\nreplace all at least 1 digit with '<' t1 '>'"
	good := []byte("a 5 b 2\nlast 10")
	goodOut := []byte("a <20> b <50>\nlast <10>")
	bad := [][]byte{[]byte("x 4 y 0 z 5\n"), []byte("0"), []byte("7 7 7 7 0"), append(bytes.Repeat([]byte("q 1 "), 1200), '0')}
	type job struct {
		order int // 0: good, bad   1: bad, good   2: bad alone
		bad   int
		mode  string
		stale bool
	}
	var jobs []job
	for order := 0; order < 3; order++ {
		for b := range bad {
			for _, mode := range []string{"NEW", "OVERWRITE", "NOTHING"} {
				for _, st := range []bool{false, true} {
					jobs = append(jobs, job{order, b, mode, st})
				}
			}
		}
	}
	r.Exec(len(jobs), drv.ExecOpts{Batch: 6}, func(i int) *drv.Item {
		jb := jobs[i]
		dir := filepath.Join(r.WorkDir, "c06fail", fmt.Sprint(i))
		os.MkdirAll(dir, 0o755)
		os.WriteFile(filepath.Join(dir, "good.txt"), good, 0o644)
		os.WriteFile(filepath.Join(dir, "bad.txt"), bad[jb.bad], 0o644)
		os.WriteFile(filepath.Join(dir, "bystander.dat"), []byte("do not touch"), 0o600)
		if jb.stale {
			os.WriteFile(filepath.Join(dir, "good.txt.vored"), bytes.Repeat([]byte("STALE-"), 40), 0o644)
			os.WriteFile(filepath.Join(dir, "bad.txt.vored"), bytes.Repeat([]byte("STALE-"), 900), 0o644)
		}
		before := fsmon.Take(dir)
		files := [][]string{{"good.txt", "bad.txt"}, {"bad.txt", "good.txt"}, {"bad.txt"}}[jb.order]
		var paths []string
		for _, f := range files {
			paths = append(paths, filepath.Join(dir, f))
		}
		c := wire.Case{Op: "runfiles", Src: []byte(src), Files: paths, Mode: jb.mode, StepBudget: 20_000_000}
		return &drv.Item{Case: c, Check: func(res *wire.Result) {
			defer os.RemoveAll(dir)
			if res.Died || res.Guard != "" {
				crashOrGuard(r, res, &c, src, false)
				return
			}
			if res.Compile == nil || !res.Compile.OK || len(res.Runs) < 1 {
				r.Inconclusive("fixed program rejected: " + src)
				return
			}
			fr := &res.Runs[0]
			r.Eval(1)
			if fr.Panic == nil {
				r.Inconclusive("the failing transform did not fail (known finding K1 gone?): adjust c06Failing")
				return
			}
			if !strings.Contains(fr.Panic.Msg, "divide by zero") {
				r.Violate(&drv.Violation{Sig: "runfiles-panic:" + fr.Panic.Frame, Panic: fr.Panic.Msg, Frame: fr.Panic.Frame, Src: src, Case: &c, Detail: map[string]any{"mode": jb.mode}})
				return
			}
			diff := fsmon.Diff(before, fsmon.Take(dir))
			for _, ch := range diff {
				okc := false
				switch {
				case jb.mode == "NEW" && ch.Path == "good.txt.vored", jb.mode == "OVERWRITE" && ch.Path == "good.txt":
					got, _ := os.ReadFile(filepath.Join(dir, ch.Path))
					okc = bytes.Equal(got, goodOut)
				}
				if !okc {
					got, _ := os.ReadFile(filepath.Join(dir, ch.Path))
					r.Violate(&drv.Violation{Sig: "failed-call-left-a-file-that-is-neither-untouched-nor-a-splice:" + jb.mode, Src: src, Case: &c,
						Detail: map[string]any{"change": ch.String(), "all_changes": fmt.Sprint(diff), "mode": jb.mode, "files": files, "content_now": oneLineN(string(got), 80)}})
					return
				}
			}
			r.Count("failed_calls_whose_files_were_inspected", 1)
		}}
	})
}
