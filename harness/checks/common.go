// Package checks holds one deciding procedure per property.
package checks

import (
	"fmt"
	"sort"
	"strings"

	"verifharness/drv"
	"verifharness/gen"
	"verifharness/ref"
	"verifharness/wire"
)

type Func func(r *drv.Run)

var Registry = map[string]Func{}

func quick(r *drv.Run) bool { return r.Tier != "thorough" }

// TextAlphaFor builds the input alphabet: the pattern alphabet plus a newline, a blank, a
// digit, an upper-case letter, an underscore and one byte >= 0x80.
func TextAlphaFor(alpha string) []byte {
	out := []byte(alpha)
	out = append(out, '\n', ' ', '1', 'A', '_', 0xC3, '%')
	if len(alpha) > 0 && alpha[0] >= 'a' && alpha[0] <= 'z' {
		out = append(out, alpha[0]-32)
	}
	return out
}

// TextAlphaBoundary adds the bytes just inside and just outside every class and range boundary
// (digits, upper, lower, the word class, whitespace) so that off-by-one class limits are visible.
func TextAlphaBoundary(alpha string) []byte {
	out := []byte(alpha)
	out = append(out, []byte("09/:AZ@[az`{_ \t\n\r\x0b")...)
	// bytes that text tools like to treat specially: NUL, form feed, DEL, and the three bytes of a byte-order mark
	out = append(out, 0x00, 0x0c, 0x7f, 0xEF, 0xBB, 0xBF)
	for i := 0; i < len(alpha); i++ {
		out = append(out, alpha[i]+1, alpha[i]-1)
		if alpha[i] >= 'a' && alpha[i] <= 'z' {
			out = append(out, alpha[i]-32)
		}
	}
	return out
}

func spansOf(ms []wire.Match) [][2]int {
	out := make([][2]int, len(ms))
	for i, m := range ms {
		out[i] = [2]int{m.S, m.E}
	}
	return out
}

func refSpans(sp []ref.Span) [][2]int {
	out := make([][2]int, len(sp))
	for i, s := range sp {
		out[i] = [2]int{s.S, s.E}
	}
	return out
}

func sameSpans(a, b [][2]int) bool {
	if len(a) != len(b) {
		return false
	}
	for i := range a {
		if a[i] != b[i] {
			return false
		}
	}
	return true
}

func fmtSpans(a [][2]int) string {
	parts := make([]string, len(a))
	for i, s := range a {
		parts[i] = fmt.Sprintf("[%d,%d)", s[0], s[1])
	}
	return "{" + strings.Join(parts, " ") + "}"
}

// flatVars extracts the flat string variables of a match.
func flatVars(v *wire.Var) map[string]string {
	out := map[string]string{}
	if v == nil || !v.IsMap {
		return out
	}
	for k, e := range v.Map {
		if e != nil && !e.IsMap {
			out[k] = string(e.Str)
		} else {
			out[k] = "<map>"
		}
	}
	return out
}

func sameVars(a, b map[string]string) bool {
	if len(a) != len(b) {
		return false
	}
	for k, v := range a {
		if w, ok := b[k]; !ok || w != v {
			return false
		}
	}
	return true
}

func fmtVars(m map[string]string) string {
	ks := make([]string, 0, len(m))
	for k := range m {
		ks = append(ks, k)
	}
	sort.Strings(ks)
	parts := make([]string, len(ks))
	for i, k := range ks {
		parts[i] = fmt.Sprintf("%s=%q", k, m[k])
	}
	return "{" + strings.Join(parts, " ") + "}"
}

// crashViolation turns a dead worker / panic / budget trip into a violation or an inconclusive.
// Returns true when the result is unusable for further checking.
func crashOrGuard(r *drv.Run, res *wire.Result, c *wire.Case, src string, strict bool) bool {
	if res.Died {
		if res.Guard == "wall" {
			r.Inconclusive("wall-clock watchdog fired")
			return true
		}
		if res.Guard != "" && !strict {
			r.GuardSkip("guard " + res.Guard + " tripped on: " + oneLineN(src, 70))
			return true
		}
		sig := "worker-died"
		if res.Guard != "" {
			sig = "guard-" + res.Guard
		}
		msg := firstLines(res.Stderr, 3)
		r.Violate(&drv.Violation{Sig: sig + ":" + classifyFatal(res.Stderr), Panic: msg, Src: src, Case: c,
			Detail: map[string]any{"stderr": firstLines(res.Stderr, 12)}})
		return true
	}
	if res.Panic != nil {
		r.Violate(&drv.Violation{Sig: "panic:" + res.Panic.Frame, Panic: res.Panic.Msg, Frame: res.Panic.Frame, Src: src, Case: c})
		return true
	}
	return false
}

func classifyFatal(stderr string) string {
	for _, l := range strings.Split(stderr, "\n") {
		if strings.HasPrefix(l, "fatal error:") || strings.HasPrefix(l, "panic:") || strings.HasPrefix(l, "runtime:") {
			if len(l) > 80 {
				l = l[:80]
			}
			return l
		}
	}
	return "unknown"
}

func firstLines(s string, n int) string {
	ls := strings.Split(s, "\n")
	if len(ls) > n {
		ls = ls[:n]
	}
	return strings.Join(ls, "\n")
}

// compileTrouble handles a compile phase that did not yield a program for a generated,
// supposedly valid source. Returns true when there is nothing to run.
func compileTrouble(r *drv.Run, res *wire.Result, c *wire.Case, src string, rejectIsViolation bool) bool {
	cr := res.Compile
	if cr == nil {
		return true
	}
	if cr.Panic != nil {
		r.Violate(&drv.Violation{Sig: "compile-panic:" + cr.Panic.Frame, Panic: cr.Panic.Msg, Frame: cr.Panic.Frame, Src: src, Case: c})
		return true
	}
	if cr.Budget != "" {
		r.Inconclusive("compile budget " + cr.Budget)
		return true
	}
	if !cr.OK {
		r.Count("rejected_by_compile", 1)
		if rejectIsViolation {
			r.Violate(&drv.Violation{Sig: "program-rejected", Err: cr.Err, Src: src, Case: c,
				Detail: map[string]any{"note": "a program inside the property's scope was rejected by Compile"}})
		} else {
			// outside what the property states: never a violation, but the run observed nothing for this case
			r.Inconclusive("generated program rejected by Compile: " + cr.Err + " | " + src)
		}
		return true
	}
	return false
}

// runTrouble classifies a failed run. strict: budget/guard trips are violations (C09/C10).
// stuck reports a run the step monitor ended because one instruction was executed over and over with
// unchanged stack depths: no progress, whatever the step budget (a violation of C10 wherever it is seen).
func stuck(run *wire.Run) bool { return strings.HasPrefix(run.Budget, "stuck") }

func runTrouble(r *drv.Run, run *wire.Run, c *wire.Case, src string, text []byte, strict bool) bool {
	if run.Panic != nil {
		r.Violate(&drv.Violation{Sig: "run-panic:" + run.Panic.Frame, Panic: run.Panic.Msg, Frame: run.Panic.Frame, Src: src, Text: string(text), Case: c})
		return true
	}
	if stuck(run) {
		// never a matter of cost: the run would not have returned at all
		r.Violate(&drv.Violation{Sig: "no-progress-spin", Src: src, Text: string(text), Case: c, Detail: map[string]any{"monitor": run.Budget}})
		return true
	}
	if run.Budget != "" {
		if strict {
			r.Violate(&drv.Violation{Sig: "step-budget", Src: src, Text: string(text), Case: c, Detail: map[string]any{"budget": run.Budget}})
		} else {
			// legitimate backtracking can be exponential: an over-budget case is skipped, not judged
			r.Count("skipped_expensive", 1)
		}
		return true
	}
	return false
}

func mergeKinds(r *drv.Run, run *wire.Run) {
	for k, n := range run.Kinds {
		r.Count("inst_"+k, n)
	}
	r.Max("steps", run.Steps)
	r.Max("backtrack_depth", run.MaxBT)
	r.Max("call_depth", run.MaxCall)
	r.Max("loop_depth", run.MaxLoop)
	r.Count("vm_steps", run.Steps)
	r.Count("vm_backtracks", run.Backtracks)
}

func allBodies(p *gen.Program) []gen.Node {
	var out []gen.Node
	for _, g := range p.Globals {
		out = append(out, g.Body...)
	}
	for _, c := range p.Commands {
		out = append(out, c.Body...)
	}
	return out
}

func globalsMap(p *gen.Program) map[string][]gen.Node {
	m := map[string][]gen.Node{}
	for _, g := range p.Globals {
		m[g.Name] = g.Body
	}
	return m
}

// maxLenFor caps the input length by how deeply optional loops nest (legitimate
// backtracking is exponential in it).
func maxLenFor(p *gen.Program, base int) int {
	d := gen.LoopDepth(allBodies(p), globalsMap(p))
	switch {
	case d <= 1:
		return base
	case d == 2:
		return min(base, 10)
	case d == 3:
		return min(base, 8)
	}
	return min(base, 6)
}

// expectedSpans evaluates the reference under every admissible policy.
func expectedScans(p *gen.Program, body []gen.Node, text string, budget int) (alts [][]ref.Span, gaveUp bool) {
	pols := []ref.Policy{ref.CodeLike}
	if ref.HasWordAnchor(allBodies(p)) {
		pols = append(pols, ref.Conventional)
	}
	for _, pol := range pols {
		m := ref.New(p, text, pol, budget)
		sp := m.Scan(body)
		if m.GaveUp {
			return nil, true
		}
		alts = append(alts, sp)
	}
	return alts, false
}

// expensiveFloor makes a run in which too many cases were skipped for cost inconclusive.
func expensiveFloor(r *drv.Run) {
	if r.Counter("skipped_expensive")*50 > r.Counter("runs_total")+50 {
		r.Inconclusive(fmt.Sprintf("too many cases skipped for exceeding the step budget: %d", r.Counter("skipped_expensive")))
	}
}

// ---- nested variable comparison (named loops) ------------------------------------------

// normWire turns reported variables into nested Go values, dropping iteration maps that hold
// nothing (vore opens an empty map for an iteration before it knows whether it will run).
func normWire(v *wire.Var) any {
	if v == nil {
		return map[string]any{}
	}
	if !v.IsMap {
		return string(v.Str)
	}
	m := map[string]any{}
	for k, e := range v.Map {
		n := normWire(e)
		if mm, ok := n.(map[string]any); ok && len(mm) == 0 {
			continue
		}
		m[k] = n
	}
	return m
}

func normRefVal(v ref.Val) any {
	if !v.IsMap {
		return v.S
	}
	m := map[string]any{}
	for k, e := range v.M {
		n := normRefVal(e)
		if mm, ok := n.(map[string]any); ok && len(mm) == 0 {
			continue
		}
		m[k] = n
	}
	return m
}

func normRefTree(t map[string]ref.Val) any {
	return normRefVal(ref.Val{IsMap: true, M: t})
}

func fmtNested(v any) string {
	switch x := v.(type) {
	case string:
		return fmt.Sprintf("%q", x)
	case map[string]any:
		ks := make([]string, 0, len(x))
		for k := range x {
			ks = append(ks, k)
		}
		sort.Strings(ks)
		parts := make([]string, len(ks))
		for i, k := range ks {
			parts[i] = k + ":" + fmtNested(x[k])
		}
		return "{" + strings.Join(parts, " ") + "}"
	}
	return "?"
}
