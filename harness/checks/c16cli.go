package checks

import (
	"bytes"
	"encoding/json"
	"fmt"
	"os"
	"path/filepath"
	"strings"
	"sync"

	"verifharness/drv"
	"verifharness/gen"
)

// c16CLI: the same literals handed to the command line tool as a -com argument and as a -src file. What a literal
// denotes does not depend on the road the program text takes. The searched file holds the denoted bytes, a separator,
// and near misses; the tool's JSON must list exactly the occurrences of the denoted bytes.
func c16CLI(r *drv.Run, cases []c16Case) {
	r.BuildCLI()
	if r.CLIBin == "" {
		return
	}
	var pick []c16Case
	rng := gen.Derive(r.Seed, "C16cli", 0)
	nOther := 500
	if !quick(r) {
		nOther = 6000
	}
	for _, cs := range cases {
		if strings.HasPrefix(cs.label, "pair:") && strings.Contains(cs.lit, "\\") && (cs.bytes[0] == '\\' || strings.IndexByte("ntxrabfv'\"\\", cs.bytes[1]) >= 0 && cs.bytes[0] < 0x20) {
			pick = append(pick, cs)
		}
	}
	nBackslash := len(pick)
	for k := 0; k < nOther; k++ {
		cs := cases[rng.Intn(len(cases))]
		if strings.HasPrefix(cs.lit, "in ") || strings.HasPrefix(cs.lit, "(") {
			continue
		}
		pick = append(pick, cs)
	}
	r.Extra["cli_literals"] = fmt.Sprintf("%d literals holding a backslash pair + %d seed-chosen others", nBackslash, len(pick)-nBackslash)
	var wg sync.WaitGroup
	sem := make(chan struct{}, 12)
	for i, cs := range pick {
		if r.NViolations() > 20 {
			break
		}
		wg.Add(1)
		sem <- struct{}{}
		go func(i int, cs c16Case) {
			defer wg.Done()
			defer func() { <-sem }()
			dir := filepath.Join(r.WorkDir, "c16cli", fmt.Sprint(i))
			os.MkdirAll(dir, 0o755)
			defer os.RemoveAll(dir)
			b := []byte(cs.bytes)
			content := append([]byte{}, b...)
			content = append(content, " | "...)
			for pos := range b {
				t := append([]byte{}, b...)
				t[pos] ^= 0x01
				if t[pos] == 0 {
					t[pos] = 0x02
				}
				content = append(content, t...)
				content = append(content, " | "...)
			}
			content = append(content, b...)
			os.WriteFile(filepath.Join(dir, "in.txt"), content, 0o644)
			src := "find all " + cs.lit
			var args []string
			road := "-com"
			if i%3 == 2 {
				road = "-src"
				os.WriteFile(filepath.Join(dir, "prog.vore"), []byte(src), 0o644)
				args = []string{"-src", "prog.vore", "-files", "in.txt", "-json"}
			} else {
				args = []string{"-com", src, "-files", "in.txt", "-json"}
			}
			code, stdout, stderr := runCLI(r.CLIBin, dir, args)
			r.Eval(1)
			var want [][2]int
			for p := 0; p+len(b) <= len(content); {
				if bytes.Equal(content[p:p+len(b)], b) {
					want = append(want, [2]int{p, p + len(b)})
					p += len(b)
				} else {
					p++
				}
			}
			viol := func(sig string, detail map[string]any) {
				detail["road"] = road
				detail["literal"] = cs.lit
				detail["denotes"] = fmt.Sprintf("%q", cs.bytes)
				detail["file"] = fmt.Sprintf("%q", content)
				r.Violate(&drv.Violation{Sig: "cli:" + sig, Src: src, Text: string(content), Detail: detail})
			}
			if code != 0 {
				viol("tool-failed-on-a-literal-the-library-accepts", map[string]any{"exit": code, "stderr": oneLineN(stderr, 200)})
				return
			}
			var doc []map[string]any
			if err := json.Unmarshal([]byte(stdout), &doc); err != nil {
				viol("stdout-is-not-json", map[string]any{"stdout": oneLineN(stdout, 200)})
				return
			}
			var got [][2]int
			for _, o := range doc {
				if off, ok := o["offset"].(map[string]any); ok {
					s, _ := off["start"].(float64)
					e, _ := off["end"].(float64)
					got = append(got, [2]int{int(s), int(e)})
				}
			}
			if fmt.Sprint(got) != fmt.Sprint(want) {
				viol("does-not-match-its-bytes", map[string]any{"expected_spans": fmt.Sprint(want), "observed_spans": fmt.Sprint(got)})
				return
			}
			r.Count("literals_verified_through_the_command_line_tool", 1)
			if road == "-com" && strings.Contains(cs.lit, "\\") {
				r.Count("escaped_literals_verified_as_com_argument", 1)
			}
			r.Nontrivial("cli|" + road + "|" + cs.lit)
		}(i, cs)
	}
	wg.Wait()
	if r.NViolations() == 0 && (r.Counter("escaped_literals_verified_as_com_argument") == 0 || r.Counter("literals_verified_through_the_command_line_tool") < int64(len(pick)/2)) {
		r.Inconclusive(fmt.Sprintf("coverage floor: %d of %d literals verified through the command line tool", r.Counter("literals_verified_through_the_command_line_tool"), len(pick)))
	}
}
