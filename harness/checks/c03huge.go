package checks

import (
	"fmt"

	"verifharness/drv"
	"verifharness/wire"
)

// c03Huge (thorough tier): positions that no longer fit 32 bits. Two texts of 2^31 + 16 bytes - one single line, and
// nothing but line feeds - taken whole by `find all whole file` (one step of the VM; about half a minute and 10 GiB
// each, which is why only whole-file matches reach that far: a scan to a match behind 2^31 bytes would take hours).
// Every reported match is judged inside the worker against the text alone.
func c03Huge(r *drv.Run) {
	type job struct {
		label string
		unit  string
		count uint64
		tail  string
	}
	jobs := []job{
		{"one-line-of-2^31+16-bytes", "a", 1<<31 + 16, ""},
		{"2^31+16-line-feeds", "\n", 1<<31 + 16, ""},
	}
	r.Exec(len(jobs), drv.ExecOpts{Batch: 1, WallSecs: 3600, Env: []string{"VW_RSS_LIMIT_MB=30000", "VW_CPU_LIMIT_S=1800"}}, func(i int) *drv.Item {
		jb := jobs[i]
		src := "find all whole file"
		c := wire.Case{Op: "hugerun", Src: []byte(src), Texts: [][]byte{[]byte(jb.unit), []byte(jb.tail)}, Seed: jb.count}
		return &drv.Item{Case: c, Check: func(res *wire.Result) {
			if res.Died && (res.Guard == "heap" || res.Guard == "cpu" || res.Guard == "wall") {
				r.Count("huge_texts_stopped_by_a_resource_guard", 1)
				return // the machine, not the property
			}
			if crashOrGuard(r, res, &c, src, false) {
				return
			}
			r.Eval(1)
			if res.Mismatch != "" {
				r.Violate(&drv.Violation{Sig: "position-beyond-2^31", Src: src, Case: &c, Detail: map[string]any{"text": jb.label, "difference": res.Mismatch}})
				return
			}
			if res.Counters["matches"] != 1 {
				r.Violate(&drv.Violation{Sig: "position-beyond-2^31", Src: src, Case: &c, Detail: map[string]any{"text": jb.label, "difference": fmt.Sprintf("%d matches, expected 1", res.Counters["matches"])}})
				return
			}
			r.Count("texts_beyond_2^31_bytes_verified", 1)
			r.Count("match_ends_in_columns_beyond_2^31", res.Counters["columns_beyond_2^31"])
			r.Count("match_ends_on_lines_beyond_2^31", res.Counters["lines_beyond_2^31"])
			r.Nontrivial("huge|" + jb.label)
		}}
	})
}
