package checks

import (
	"bufio"
	"fmt"
	"os"
	"path/filepath"
	"regexp"
	"sort"
	"strings"
	"sync"

	"verifharness/drv"
	"verifharness/gen"
	"verifharness/wire"
)

func init() {
	Registry["C19"] = C19
	// sources whose VERDICT (not only their result) must not depend on what other goroutines compile at the time: a
	// break / continue behind a finished loop is rejected; next to them a transform whose loop body has 6 000
	// statements keeps other compilations inside a loop body for a long while
	c19VictimIdx = len(c19Pool)
	c19Pool = append(c19Pool,
		"set f to transform set i to 0 loop set i to i + 1 if i > 2 then break end end break return i end\nreplace all 'a' with f",
		"set f to transform set i to 0 loop set i to i + 1 if i > 2 then break end end if i > 1 then continue end return i end\nreplace all 'a' with f",
		"set p to pattern 'a' begin loop break end break return true end\nfind all p")
	// a transform that writes ever larger numbers as text (match numbers times seven over thousands of matches)
	c19CountingIdx = len(c19Pool)
	c19Pool = append(c19Pool, "set f to transform return '' + matchNumber * 7 end\nreplace all letter with f")
	c19BigLoopIdx = len(c19Pool)
	c19Pool = append(c19Pool, "set f to transform set n to 0 loop set n to n + 1 if n > 3 then break end "+strings.Repeat("set m to n + 1 ", 6000)+"end return n end\nreplace all 'a' with f")
}

var c19VictimIdx, c19CountingIdx, c19BigLoopIdx int

var c19Pool = []string{
	"find all @/((a)b)\\1\\2/",
	"find all @/(a|b)(c)\\2\\1/",
	"find all @/(?<x>a+)(b)\\k<x>/",
	"find all at least 1 'a' fewest (at most 2 'b') between 1 and 3 digit",
	"set p to pattern 'a' or 'b'\nfind all 'x' p\nfind all 'y' p p",
	"set p to pattern {'a' maybe q 'b'} = q 'd'\nfind all p\nfind all 'z' p",
	"set d3 to pattern (at least 1 digit) begin return match % 3 == 0 end\nfind all 'x' d3",
	"set f to transform return match + matchLength end\nreplace all at least 1 letter with '<' f '>'",
	"find all ('a' = x 'b') or ('a' 'c') x",
	"find all {'(' at least 0 (s or letter) ')'} = s",
	"find all in 'a' to 'c', digit not in 'x', whitespace",
	"find all @/(a)(b)(c)(d)\\4\\3\\2\\1/",
	"find all at least 1 ((letter = c) maybe digit) named items",
	"find all 'x' at least 0 digit",
	// statements with an effect outside the result: debug prints
	"set f to transform debug 'T:' + match debug matchLength return match + '!' end\nreplace all at least 1 letter with f",
	"set p to pattern at least 1 digit begin debug 'P:' + match return matchLength < 3 end\nfind all p",
	// process code that ends without a return (3, 5, 6 and 7 top-level statements; the default result applies)
	"set f to transform set a to match set b to a + '1' set c to b + a end\nreplace all at least 1 letter with '[' f ']'",
	"set f to transform set a to match set b to a + '1' set c to b + a set d to c + '2' if d == 'x' then return 'X' end end\nreplace all at least 1 digit with f",
	"set f to transform set a to 1 set b to a + 1 set c to b + a set d to c + 2 set e to d * 2 set g to e - 1 end\nreplace all 'a' with f '.'",
	"set f to transform set a to 1 set b to a + 1 set c to b + a set d to c + 2 set e to d * 2 set g to e - 1 set h to g + matchLength end\nreplace all 'b' with f f",
	"set p to pattern at least 1 digit begin set a to match set b to a + 1 set c to b end\nfind all p",
	// a linear replace command (for texts beyond a mebibyte: what a replace command builds for NOTHING mode is its own)
	"replace all 'a' with 'bb'",
	// compilations that FAIL (in the lexer, the parser, the regex sub-parser, the generator, the type checker) run
	// concurrently with the others: an error path must leave nothing shared behind either
	"find all 'unterminated",
	"find all 'a' $ 'b'",
	"find all --( never closed",
	"find all @/(x)(y)(z/",
	"find all 'q' @/a|/",
	"find all @/[ab/",
	"find all\n\n  @/(a|/",
	"find all @/x\\/",
	"find all at least 'a'",
	"find all @/(a)(b)\\3/",
	"set p to pattern 'a' or 'b' begin return 1 end\nfind all p",
	// long enough for the lexing phases of two compilations to overlap for a while
	"find all 'a' " + strings.Repeat("-- a comment line that the lexer has to read through\nmaybe 'b' at least 0 digit ", 10) + "'c'",
	"find all " + strings.Repeat("(in 'a' to 'c', 'x') ", 15),
	// literals spelled with hex escapes (what the lexer does with an escape happens outside every lock)
	"find all '\\x61\\x62\\x41\\x42\\x31' or \"\\x78\\x79\\x7A\" '\\x32'",
	"find all \"\\x62\\x61\\x42\\x41\\x32\" or '\\x7a\\x79\\x78' '\\x31'",
}

var c19Texts = []string{"ababa abab", "acca bccb", "aaba ab", "ab12 aab123 b7", "xaxbyaybb", "aabbdzaabbd", "x12 x13 x9", "hello wor1d", "abab aca", "(a(b)) ()", "a1 c2 x ", "abcddcba",
	// long enough for loops to pass 64, 128 and 256 iterations in one attempt
	strings.Repeat("a", 70) + "b12 " + strings.Repeat("a", 130) + "bb7", "(" + strings.Repeat("ab", 36) + ") x" + strings.Repeat("1", 260) + " x12", strings.Repeat("ab", 20) + "xa" + strings.Repeat("b", 70) + "ya" + strings.Repeat("ab", 34)}

// c19LongText: beyond the reader's 4096-byte window three times over, with a match now and then (for calls that search
// a FILE holding it; only the linear programs below are run on it)
var c19LongText = strings.Repeat("lorem ipsum 77 dolor x12 sit amet, consectetur x9 adipiscing\n", 220)

// programs of the pool that are linear in the input: index into c19Pool
var c19LinearProgs = []int{13, 10}

var raceHead = regexp.MustCompile(`^\s+(\S+)\(.*\)$`)

// parseRaceLogs returns the number of reports and a de-duplicated list keyed by the pair of
// outermost repository frames of the two conflicting accesses.
func parseRaceLogs(dir string) (int, map[string]int, string) {
	files, _ := filepath.Glob(filepath.Join(dir, "race.*"))
	total := 0
	keys := map[string]int{}
	first := ""
	for _, f := range files {
		fh, err := os.Open(f)
		if err != nil {
			continue
		}
		sc := bufio.NewScanner(fh)
		sc.Buffer(make([]byte, 1<<20), 1<<26)
		var block []string
		flush := func() {
			if len(block) == 0 {
				return
			}
			total++
			// collect the first repo function of each access stack
			var frames []string
			inStack := false
			got := false
			for i, l := range block {
				if strings.HasPrefix(l, "Read at") || strings.HasPrefix(l, "Write at") || strings.HasPrefix(l, "Previous read at") || strings.HasPrefix(l, "Previous write at") {
					inStack = true
					got = false
					continue
				}
				if strings.TrimSpace(l) == "" {
					inStack = false
					continue
				}
				if inStack && !got && i+1 < len(block) && strings.Contains(block[i+1], drv.RepoRoot+"/") {
					fn := strings.TrimSpace(l)
					if k := strings.Index(fn, "("); k > 0 {
						fn = fn[:k]
					}
					frames = append(frames, fn)
					got = true
				}
			}
			sort.Strings(frames)
			keys[strings.Join(frames, " <-> ")]++
			if first == "" {
				first = strings.Join(block[:min(len(block), 30)], "\n")
			}
			block = nil
		}
		for sc.Scan() {
			l := sc.Text()
			if strings.HasPrefix(l, "WARNING: DATA RACE") {
				flush()
				block = []string{l}
				continue
			}
			if strings.HasPrefix(l, "==================") {
				flush()
				continue
			}
			if block != nil {
				block = append(block, l)
			}
		}
		flush()
		fh.Close()
	}
	return total, keys, first
}

func C19(r *drv.Run) {
	r.BuildWorker()
	r.BuildRaceWorker()
	rounds := 120
	if !quick(r) {
		rounds = 3000
	}
	r.Rule = "rounds of 8..32 goroutines issuing Compile (sources with and without regex groups, with loops, with relocated global patterns, sources that fail in the lexer / parser / regex sub-parser / generator / type checker, sources of about a kilobyte), Compile+Run, Run on shared pre-compiled programs and Run followed by Json()/FormattedJson() of the result list, on short texts and on texts long enough for loops to pass 64, 128 and 256 iterations in one attempt, all released from one barrier, in a -race build of the worker; yield hooks (H2 every lexer read, H3 parser/generator sites, H1 every VM step) armed in half of the rounds. Plus compile storms: 16 goroutines each compiling a few tiny sources two hundred times over without yields (9 600 compilations per storm), every repetition compared. In every third round a third of the calls are RunFiles calls of two linear programs over ONE file of 13 KB (three reader windows) and one small file, so that several goroutines search the same file at the same time. Every thirtieth round adds four goroutines that run a linear replace command (three of them compiling it themselves) on two different texts of more than a mebibyte with thousands of matches. Every Run call files a label of its own under each match it got back (the exported variable map of a match belongs to the caller): afterwards its matches carry that label and no other, and no later call sees it. In the same rounds four goroutines compile and run a transform that writes ever larger numbers (7, 14 .. 70 000) as text over a 13 KB input. Every thirtieth round has six goroutines compiling a transform whose loop body holds 6 000 statements while eighteen others compile, twenty times each, three sources that must be rejected (break or continue behind a finished loop): the verdict of a compilation is its own. Every thirtieth round has sixteen goroutines rewriting their own files (mode NEW, six calls each) while eight others search file NAMES (RunFiles with its third argument set) 120 times each: every output file equals the one the call writes alone. Every thirtieth round is a crowd of 96 goroutines, each rewriting its own copy of a 13 KB file in replace mode NEW (reader and writer open at the same time): all of them return. One round in ten runs next to one more compilation that waits for its source on a named pipe; the source is delivered when every other call has returned - a call that alone returns at once must not wait for it (the writer gives up after 20 s, which is the violation). Oracle 1: the Go race detector (GORACE halt_on_error=0, log files parsed, reports de-duplicated by the pair of outermost repository frames): any report is a violation. Oracle 2: every concurrent call's result digest (canonical bytecode with loop ids normalised; all match fields; the rendered JSON texts) equals the digest of the same call executed alone in a fresh sequential worker. Oracle 3: canonical bytecode of the shared programs unchanged by the round. Non-trivial = a call whose [call,return] interval overlapped another call's on the shared monotonic clock; distinct by (round, call index)."
	r.Assumptions = []string{
		"the race detector only sees races on schedules that occur; yields and repetition raise the odds, not to certainty",
		"the harness's own monitor state is atomic in concurrent mode; the step and lexer counters are switched off there",
	}
	srcs := make([][]byte, len(c19Pool))
	for i, s := range c19Pool {
		srcs[i] = []byte(s)
	}
	texts := make([][]byte, len(c19Texts))
	for i, s := range c19Texts {
		texts[i] = []byte(s)
	}
	longIdx := len(texts)
	texts = append(texts, []byte(c19LongText))
	// two different texts of a mebibyte and more, searched by a linear replace command from several goroutines at once
	hugeIdx := len(texts)
	texts = append(texts, []byte(strings.Repeat("y", 1<<20)+strings.Repeat("xa", 2000)), []byte(strings.Repeat("z", 1<<20+500)+strings.Repeat("a.", 1500)))
	replIdx := -1
	for pi, p := range c19Pool {
		if p == "replace all 'a' with 'bb'" {
			replIdx = pi
		}
	}
	type key struct {
		kind string
		p, t int
	}
	seq := map[key]string{}
	var mu sync.Mutex
	var keys []key
	for p := range c19Pool {
		keys = append(keys, key{"compile", p, 0})
		for t := range texts {
			if t >= longIdx || p >= c19VictimIdx {
				continue
			}
			keys = append(keys, key{"compile+run", p, t}, key{"run", p, t}, key{"run+json", p, t})
		}
	}
	for _, p := range c19LinearProgs {
		keys = append(keys, key{"runfiles", p, longIdx}, key{"runfiles", p, 3}, key{"run", p, longIdx})
	}
	keys = append(keys, key{"runfiles-new", replIdx, longIdx}, key{"runfiles-names", 13, 3}, key{"compile+run", c19CountingIdx, longIdx})
	keys = append(keys, key{"compile+run", replIdx, hugeIdx}, key{"compile+run", replIdx, hugeIdx + 1}, key{"run", replIdx, hugeIdx})
	// sequential reference digests, one fresh (non-race) worker process per call
	r.Exec(len(keys), drv.ExecOpts{Batch: 8}, func(i int) *drv.Item {
		k := keys[i]
		c := wire.Case{Op: "hist", Srcs: srcs, Texts: texts, Calls: []wire.Call{{Kind: k.kind, Prog: k.p, Text: k.t}}}
		return &drv.Item{Case: c, Check: func(res *wire.Result) {
			if res.Died || res.Panic != nil || len(res.Calls) != 1 || res.Calls[0].Panic != "" {
				r.Inconclusive("sequential reference call failed: " + c19Pool[k.p])
				return
			}
			mu.Lock()
			seq[k] = res.Calls[0].Digest
			mu.Unlock()
		}}
	})
	raceDir := filepath.Join(r.WorkDir, "racelogs")
	os.MkdirAll(raceDir, 0o755)
	env := []string{"GORACE=halt_on_error=0 log_path=" + filepath.Join(raceDir, "race")}
	r.Exec(rounds, drv.ExecOpts{Batch: 10, Race: true, Env: env}, func(i int) *drv.Item {
		rng := gen.Derive(r.Seed, "C19", i)
		g := []int{8, 16, 32}[rng.Intn(3)]
		ncalls := g * (2 + rng.Intn(3))
		calls := make([]wire.Call, ncalls)
		// few shared programs per round
		shared := []int{rng.Intn(c19VictimIdx), rng.Intn(c19VictimIdx), rng.Intn(c19VictimIdx)} // (the sources behind c19VictimIdx have rounds of their own)
		for j := range calls {
			kinds := []string{"compile", "compile", "compile+run", "run", "run", "run+json"}
			p := shared[rng.Intn(3)]
			if rng.Chance(1, 4) {
				p = rng.Intn(c19VictimIdx)
			}
			calls[j] = wire.Call{Kind: kinds[rng.Intn(len(kinds))], Prog: p, Text: rng.Intn(longIdx), G: j % g}
			if calls[j].Kind == "compile" {
				calls[j].Text = 0
			}
			if i%3 == 1 && rng.Chance(1, 3) {
				// several goroutines search the SAME file (three reader windows long) at the same time, next to the rest
				calls[j] = wire.Call{Kind: "runfiles", Prog: c19LinearProgs[rng.Intn(len(c19LinearProgs))], Text: []int{longIdx, longIdx, 3}[rng.Intn(3)], G: j % g}
			}
		}
		if i%30 == 19 {
			// a CROWD: 96 goroutines, each rewriting its own copy of a 13 KB file (replace mode NEW: the reader of the
			// searched file and the writer of the output are both open for a while) - all of them return
			g = 96
			calls = nil
			for q := 0; q < g; q++ {
				calls = append(calls, wire.Call{Kind: "runfiles-new", Prog: replIdx, Text: longIdx, G: q, Own: q + 1})
			}
			r.Count("crowd_rounds_of_96_file_rewriting_goroutines", 1)
		}
		if i%30 == 9 {
			// sixteen goroutines rewrite their own files (six calls each) while eight others search file NAMES (forty
			// calls per call record): what one call is asked to do is that call's business alone
			g = 24
			calls = nil
			for q := 0; q < 16; q++ {
				for k := 0; k < 6; k++ {
					calls = append(calls, wire.Call{Kind: "runfiles-new", Prog: replIdx, Text: longIdx, G: q, Own: q + 1})
				}
			}
			for q := 16; q < 24; q++ {
				for k := 0; k < 3; k++ {
					calls = append(calls, wire.Call{Kind: "runfiles-names", Prog: 13, Text: 3, G: q, Own: q + 1})
				}
			}
			r.Count("rounds_of_file_rewriting_next_to_file_name_searching", 1)
		}
		if i%30 == 14 {
			// six goroutines compile a transform whose loop body has 6 000 statements while eighteen others compile,
			// twenty times each, sources that must be REJECTED (break / continue behind a finished loop)
			g = 24
			calls = nil
			for q := 0; q < 6; q++ {
				for k := 0; k < 3; k++ {
					calls = append(calls, wire.Call{Kind: "compile", Prog: c19BigLoopIdx, G: q})
				}
			}
			for q := 6; q < 24; q++ {
				for k := 0; k < 20; k++ {
					calls = append(calls, wire.Call{Kind: "compile", Prog: c19VictimIdx + (q+k)%3, G: q})
				}
			}
			// ... and four more goroutines each compile and run a transform that writes the numbers 7, 14 .. 70 000 as text
			// over the 13 KB text (numbers no call of this process has written before)
			for q := 0; q < 4; q++ {
				calls = append(calls, wire.Call{Kind: "compile+run", Prog: c19CountingIdx, Text: longIdx, G: q})
			}
			r.Count("rounds_of_rejected_sources_compiled_next_to_a_long_loop_body", 1)
		}
		if i%30 == 4 {
			// four goroutines run a linear replace command (three of them compile it themselves) on the two mebibyte texts at the same time
			for q := 0; q < 4; q++ {
				calls = append(calls, wire.Call{Kind: []string{"compile+run", "compile+run", "compile+run", "run"}[q], Prog: replIdx, Text: hugeIdx + q%2, G: q})
			}
		}
		c := wire.Case{Op: "conc", Srcs: srcs, Texts: texts, Calls: calls, Goroutines: g, Yield: i%2 == 0}
		if i%10 == 7 {
			// one more compilation waits for its source on a named pipe while the round runs
			c.Mode = "slow-input"
		}
		return &drv.Item{Case: c, Check: func(res *wire.Result) {
			r.Eval(len(res.Calls))
			if strings.HasPrefix(res.Mismatch, "slow-input:") {
				r.Violate(&drv.Violation{Sig: "calls-wait-for-a-compilation-that-waits-for-its-input", Case: &c, Detail: map[string]any{"what": res.Mismatch, "goroutines": g, "calls": len(calls)}})
				return
			}
			r.Count("rounds_next_to_a_compilation_waiting_for_input", res.Counters["slow_input_compilations"])
			if res.Died && (res.Guard == "cpu" || res.Guard == "heap") {
				// the worker's resource guards, not the library: a round of up to 160 calls in the race build can
				// exceed them on the long texts; the round is not judged
				r.Count("rounds_stopped_by_resource_guard", 1)
				return
			}
			if res.Died && res.Guard == "blocked" {
				// no CPU used for 40 s while calls were outstanding: they wait for each other
				r.Violate(&drv.Violation{Sig: "concurrent-calls-never-return", Panic: firstLines(res.Stderr, 4), Case: &c, Detail: map[string]any{"goroutines": g, "calls": len(calls), "first_call": fmt.Sprint(calls[0])}})
				return
			}
			if res.Died || res.Panic != nil {
				r.Violate(&drv.Violation{Sig: "concurrent-round-crashed:" + classifyFatal(res.Stderr), Panic: firstLines(res.Stderr, 4), Case: &c, Detail: map[string]any{"guard": res.Guard, "goroutines": g, "calls": len(calls)}})
				return
			}
			if res.Mismatch != "" {
				r.Violate(&drv.Violation{Sig: "shared-bytecode-mutated", Case: &c, Detail: map[string]any{"what": res.Mismatch}})
				return
			}
			r.Count("yields_taken", res.Counters["yields"])
			r.Count("rounds", 1)
			r.Max("goroutines", g)
			// overlap analysis on the shared monotonic clock
			type iv struct{ t0, t1 int64 }
			ivs := make([]iv, len(res.Calls))
			for j, cl := range res.Calls {
				ivs[j] = iv{cl.T0, cl.T1}
			}
			for j, cl := range res.Calls {
				r.Count("concurrent_calls", 1)
				k := key{cl.Kind, cl.Prog, cl.Text}
				want, ok := seq[k]
				if !ok {
					continue
				}
				if cl.Kind == "runfiles" {
					r.Count("concurrent_searches_of_one_file", 1)
				}
				if cl.Text >= hugeIdx {
					r.Count("concurrent_replace_runs_on_mebibyte_texts", 1)
				}
				if cl.Panic != "" || cl.Digest != want {
					r.Violate(&drv.Violation{Sig: "concurrent-call-differs-from-sequential:" + cl.Kind, Src: c19Pool[cl.Prog], Text: oneLineN(string(texts[cl.Text]), 80), Case: &c,
						Detail: map[string]any{"goroutines": g, "yield_hooks": c.Yield, "sequential_digest": want, "concurrent_digest": cl.Digest, "panic": cl.Panic}})
					continue
				}
				overl := false
				for q := range ivs {
					if q != j && res.Calls[q].G != cl.G && ivs[q].t0 < ivs[j].t1 && ivs[j].t0 < ivs[q].t1 {
						overl = true
						break
					}
				}
				if overl {
					r.Count("calls_overlapping_another", 1)
					r.Nontrivial(fmt.Sprintf("round%d/%d", i, j))
				}
			}
			if i%40 == 0 {
				r.Sample(map[string]any{"goroutines": g, "calls": len(calls), "yield_hooks": c.Yield, "first_calls": fmt.Sprint(calls[:4])})
			}
		}}
	})
	// compile storms: 16 goroutines, each compiling the same few tiny sources two hundred times over, no yields - very
	// many compilations begin and end within the same microsecond
	tiny := [][]byte{[]byte("find all 'a'"), []byte("find all 'b'"), []byte("find all 'ab' 'c'"), []byte("find all @/(a)b/"), []byte("find all 'a' $")}
	tinySeq := map[int]string{}
	r.Exec(len(tiny), drv.ExecOpts{Batch: 8}, func(i int) *drv.Item {
		c := wire.Case{Op: "hist", Srcs: tiny, Texts: texts[:1], Calls: []wire.Call{{Kind: "compile", Prog: i}}}
		return &drv.Item{Case: c, Check: func(res *wire.Result) {
			if res.Died || res.Panic != nil || len(res.Calls) != 1 {
				r.Inconclusive("sequential reference call failed (tiny source)")
				return
			}
			mu.Lock()
			tinySeq[i] = res.Calls[0].Digest
			mu.Unlock()
		}}
	})
	storms := 6
	if !quick(r) {
		storms = 120
	}
	r.Exec(storms, drv.ExecOpts{Batch: 2, Race: true, Env: env}, func(i int) *drv.Item {
		rng := gen.Derive(r.Seed, "C19storm", i)
		var calls []wire.Call
		for g := 0; g < 16; g++ {
			for k := 0; k < 3; k++ {
				calls = append(calls, wire.Call{Kind: "compile", Prog: rng.Intn(len(tiny)), G: g})
			}
		}
		c := wire.Case{Op: "conc", Srcs: tiny, Texts: texts[:1], Calls: calls, Goroutines: 16, Rounds: 200}
		return &drv.Item{Case: c, Check: func(res *wire.Result) {
			r.Eval(len(res.Calls))
			if res.Died && (res.Guard == "cpu" || res.Guard == "heap") {
				r.Count("rounds_stopped_by_resource_guard", 1)
				return
			}
			if res.Died || res.Panic != nil {
				r.Violate(&drv.Violation{Sig: "compile-storm-crashed:" + classifyFatal(res.Stderr), Panic: firstLines(res.Stderr, 4), Case: &c})
				return
			}
			for _, cl := range res.Calls {
				if cl.Panic != "" || cl.Digest != tinySeq[cl.Prog] {
					r.Violate(&drv.Violation{Sig: "concurrent-call-differs-from-sequential:compile-storm", Src: string(tiny[cl.Prog]), Case: &c,
						Detail: map[string]any{"sequential_digest": tinySeq[cl.Prog], "concurrent_digest": cl.Digest, "what": cl.Panic}})
					return
				}
			}
			r.Count("compile_storm_compilations", len(res.Calls)*200)
			r.Nontrivial(fmt.Sprintf("storm%d", i))
		}}
	})
	nrep, keysSeen, first := parseRaceLogs(raceDir)
	r.Count("race_reports", nrep)
	r.Extra["distinct_race_pairs"] = keysSeen
	if nrep > 0 {
		kl := make([]string, 0, len(keysSeen))
		for k := range keysSeen {
			kl = append(kl, k)
		}
		sort.Strings(kl)
		for _, k := range kl {
			r.Violate(&drv.Violation{Sig: "data-race:" + k, Detail: map[string]any{"reports": keysSeen[k], "first_report": first}})
		}
	}
	if r.NViolations() == 0 {
		if g := r.Counter("rounds_stopped_by_resource_guard"); g > 2+r.Counter("rounds")/50 {
			r.Inconclusive(fmt.Sprintf("%d rounds were stopped by the worker's CPU/heap guard (more than 2%% of the rounds judged)", g))
		}
		if r.Counter("calls_overlapping_another") == 0 || r.Counter("yields_taken") == 0 {
			r.Inconclusive("coverage floor: no overlapping calls / no yields taken")
		}
		if r.Counter("rounds_next_to_a_compilation_waiting_for_input") == 0 {
			r.Inconclusive("coverage floor: rounds_next_to_a_compilation_waiting_for_input = 0")
		}
	}
}
