package checks

import (
	"bytes"
	"fmt"

	"verifharness/drv"
	"verifharness/wire"
)

// c04Big: the window relation on result lists of hundreds of thousands (thorough: more than two million) matches,
// compared inside the worker match by match: `all` against skip / skip-take / last / top / take, find and replace,
// with amounts next to the ends of the list.
func c04Big(r *drv.Run) {
	ns := []int{300_007}
	if !quick(r) {
		ns = append(ns, 1<<21+3)
	}
	for _, n := range ns {
		n := n
		text := bytes.Repeat([]byte("a"), n)
		type v struct {
			src    string
			lo, hi int
		}
		vs := []v{
			{fmt.Sprintf("find last 2 'a'"), n - 2, n},
			{fmt.Sprintf("find skip %d 'a'", n-5), n - 5, n},
			{fmt.Sprintf("find skip %d take 4 'a'", n-5), n - 5, n - 1},
			{fmt.Sprintf("find skip 3 take %d 'a'", n-4), 3, n - 1},
			{fmt.Sprintf("find top %d 'a'", n-1), 0, n - 1},
			{fmt.Sprintf("find take %d 'a'", n+7), 0, n},
			{fmt.Sprintf("find last %d 'a'", n-1), 1, n},
		}
		for pass := 0; pass < 2; pass++ {
			srcs := [][]byte{[]byte("find all 'a'")}
			var calls []wire.Call
			if pass == 1 {
				srcs = [][]byte{[]byte("replace all 'a' with matchNumber")}
			}
			for k, x := range vs {
				s := x.src
				if pass == 1 {
					s = "replace" + s[len("find"):] + " with matchNumber"
				}
				srcs = append(srcs, []byte(s))
				calls = append(calls, wire.Call{Kind: "window", Prog: k + 1, Text: x.lo, G: x.hi})
			}
			c := wire.Case{Op: "bigwindows", Srcs: srcs, Texts: [][]byte{text}, Calls: calls, Seed: uint64(n)}
			r.Exec(1, drv.ExecOpts{Batch: 1, WallSecs: 3000, Env: []string{"VW_RSS_LIMIT_MB=12000", "VW_CPU_LIMIT_S=900"}}, func(i int) *drv.Item {
				return &drv.Item{Case: c, Check: func(res *wire.Result) {
					r.Eval(1)
					if res.Died {
						if res.Guard != "" {
							r.Inconclusive(fmt.Sprintf("guard %s tripped on a result list of %d matches", res.Guard, n))
							return
						}
						r.Violate(&drv.Violation{Sig: "big-list:worker-died:" + classifyFatal(res.Stderr), Panic: firstLines(res.Stderr, 3), Src: string(srcs[0]), Case: &wire.Case{Op: "bigwindows", Srcs: srcs, Seed: uint64(n)}})
						return
					}
					if res.Mismatch != "" {
						r.Violate(&drv.Violation{Sig: "big-list:window-differs", Src: string(srcs[0]), Text: fmt.Sprintf("%d times a", n), Case: &wire.Case{Op: "bigwindows", Srcs: srcs, Calls: calls, Seed: uint64(n)},
							Detail: map[string]any{"what": res.Mismatch, "matches": n}})
						return
					}
					r.Count("windows_of_big_lists_compared", res.Counters["windows_compared"])
					r.Max("longest_result_list_compared", res.Counters["matches_of_all"])
				}}
			})
		}
	}
	if r.NViolations() == 0 && r.Counter("windows_of_big_lists_compared") == 0 {
		r.Inconclusive("coverage floor: windows_of_big_lists_compared = 0")
	}
}
