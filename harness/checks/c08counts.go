package checks

import "fmt"

// c08HugeMinimum is the one source that re-observes known finding K4 on every run (see known_findings.json).
const c08HugeMinimum = "find all at least 80000000 'a'"

// c08Counts: numbers far beyond anything a text can satisfy, in every place of the language that takes a number where
// the unchanged code does NOT materialise the count (named loops are counted, maxima are bounds, amounts are
// windows): Compile answers at once. Unnamed loop MINIMA are unrolled by the code generator, so their cost grows with
// the number itself (known finding K4, re-observed by one source).
func c08Counts(add func(family, src string)) {
	nums := []string{"2147483647", "2147483648", "4294967297", "10000000000", "17592186044417", "100000000000000", "9007199254740993",
		"4611686018427387904", "9223372036854775806", "9223372036854775807", "9223372036854775808", "18446744073709551617", "1000000000000000000000000000000"}
	for _, n := range nums {
		for _, shape := range []string{
			"find all at least %s 'a' named n", "find all between %s and %s 'a' named n", "find all at least %s (maybe 'a') named n fewest", "find all at most %s 'a' named n",
			"find all at most %s 'a'", "find all between 0 and %s 'a'", "find all between 1 and %s 'a' fewest", "find all @/a{0,%s}/", "find all @/a{1,%s}?/",
			"find top %s 'a'", "find take %s 'a'", "find skip %s 'a'", "find skip %s take %s 'a'", "find last %s 'a'", "replace skip %s 'a' with 'b'",
			"set f to transform return %s end\nreplace all 'a' with f", "set f to transform return %s + %s end\nreplace all 'a' with f", "set p to pattern 'a' begin return matchLength < %s end\nfind all p",
			"find all at least 0 (at least %s 'a' named inner)", "set g to pattern at least %s 'a' named n\nfind all g g",
		} {
			src := shape
			for k := 0; k < 2; k++ {
				src = replaceFirst(src, "%s", n)
			}
			add("huge-count", src)
		}
	}
	add("huge-count", c08HugeMinimum)
}

func replaceFirst(s, old, new string) string {
	for i := 0; i+len(old) <= len(s); i++ {
		if s[i:i+len(old)] == old {
			return s[:i] + new + s[i+len(old):]
		}
	}
	return s
}

var _ = fmt.Sprint
