package checks

import (
	"fmt"

	"verifharness/drv"
	"verifharness/gen"
	"verifharness/wire"
)

// c02Long: bindings of 100 .. 131 073 bytes (one-instruction captures: `whole line`) and a back-reference to them.
// The text holds two lines; the second one is the first, or differs from it in the first / a middle / the last byte,
// or is longer, or one byte shorter. Expected (from the text alone): one match [0, 2n+1) with x = the first line iff
// the second line begins with the first.
func c02Long(r *drv.Run) {
	body := []gen.Node{gen.Anchor{Kind: "linestart"}, gen.Capture{Name: "x", Body: gen.Whole{Kind: "line"}}, gen.Lit{S: "\n"}, gen.BackRef{Name: "x"}}
	p := &gen.Program{Commands: []gen.Command{{Amount: gen.Amount{Kind: "all"}, Body: body}}}
	src := gen.RenderProgram(p)
	sizes := []int{100, 4095, 4096, 4097, 65535, 65536, 65537, 70000}
	if !quick(r) {
		sizes = append(sizes, 131073, 196609, 262145)
	}
	type job struct {
		n       int
		variant string
		text    []byte
		match   bool
	}
	var jobs []job
	for si, n := range sizes {
		rng := gen.Derive(r.Seed, "C02long", si)
		line := make([]byte, n)
		for k := range line {
			line[k] = "abcdefghijklmnopqrstuvwxyz0123456789 .,;"[rng.Intn(40)]
		}
		mk := func(variant string, second []byte, match bool) {
			t := append(append(append([]byte{}, line...), '\n'), second...)
			jobs = append(jobs, job{n, variant, t, match})
		}
		flip := func(at int) []byte {
			b := append([]byte{}, line...)
			b[at] = '#'
			return b
		}
		mk("equal", line, true)
		mk("last-byte-differs", flip(n-1), false)
		mk("first-byte-differs", flip(0), false)
		mk("middle-byte-differs", flip(n/2), false)
		mk("second-line-longer", append(append([]byte{}, line...), "tail"...), true)
		mk("second-line-one-byte-shorter", line[:n-1], false)
		if n > 65536 {
			mk("byte-65536-differs", flip(65536), false)
			mk("byte-65535-differs", flip(65535), false)
			mk("last-but-one-byte-differs", flip(n-2), false)
		}
	}
	r.Exec(len(jobs), drv.ExecOpts{Batch: 3, Env: []string{"VW_RSS_LIMIT_MB=6000", "VW_CPU_LIMIT_S=240"}}, func(i int) *drv.Item {
		jb := jobs[i]
		c := wire.Case{Op: "run", Src: []byte(src), Texts: [][]byte{jb.text}, StepBudget: 2_000_000}
		return &drv.Item{Case: c, Check: func(res *wire.Result) {
			if crashOrGuard(r, res, &c, src, false) {
				return
			}
			if compileTrouble(r, res, &c, src, false) {
				return
			}
			if len(res.Runs) < 1 {
				r.Inconclusive("short result")
				return
			}
			run := &res.Runs[0]
			r.Eval(1)
			if runTrouble(r, run, &c, src, jb.text[:min(len(jb.text), 60)], false) {
				return
			}
			okm := false
			if jb.match {
				okm = len(run.Matches) == 1 && run.Matches[0].S == 0 && run.Matches[0].E == 2*jb.n+1 && flatVars(run.Matches[0].Vars)["x"] == string(jb.text[:jb.n])
			} else {
				okm = len(run.Matches) == 0
			}
			if !okm {
				got := "no match"
				if len(run.Matches) > 0 {
					got = fmt.Sprintf("%d match(es), first [%d,%d) with x of %d bytes", len(run.Matches), run.Matches[0].S, run.Matches[0].E, len(flatVars(run.Matches[0].Vars)["x"]))
				}
				want := "no match"
				if jb.match {
					want = fmt.Sprintf("one match [0,%d) with x = the first line (%d bytes)", 2*jb.n+1, jb.n)
				}
				r.Violate(&drv.Violation{Sig: "long-binding:" + jb.variant, Src: src, Case: &c, Text: fmt.Sprintf("two lines, the first of %d bytes; second line: %s", jb.n, jb.variant),
					Detail: map[string]any{"line_length": jb.n, "variant": jb.variant, "expected": want, "observed": got}})
				return
			}
			r.Count("long_binding_runs_verified", 1)
			if jb.match {
				r.Nontrivial(fmt.Sprintf("long:%d:%s", jb.n, jb.variant))
			}
		}}
	})
	if r.NViolations() == 0 && r.Counter("long_binding_runs_verified") == 0 {
		r.Inconclusive("coverage floor: long_binding_runs_verified = 0")
	}
}
