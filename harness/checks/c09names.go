package checks

import (
	"fmt"
	"os"
	"path/filepath"

	"verifharness/drv"
	"verifharness/wire"
)

const c09RenameThenFind = "replace last 1 letter with 'Z'\nfind all 'Z'"

// c09Filenames: RunFiles asked to process file NAMES (its third argument; the tool's -filenames): the names are the
// searched text, and a replace command renames a file to the replacement of its first match. Whatever the names and
// the new names are - taken, empty, holding a separator, longer than a name may be - the call returns.
func c09Filenames(r *drv.Run, filesDir string) {
	progs := []string{
		"find all at least 1 letter",
		"find all 'a'",
		"replace all 'a' with 'b'",
		"replace all at least 1 digit with ''",
		"replace top 1 any with ''",
		"replace all '.txt' with '/'",
		"replace all 'a' with 'nodir/x'",
		"set f to transform return match + match + match + match end\nreplace all at least 3 any with f f f f f f f f",
		"replace all file start with 'new/'",
		"find all whole file",
		"find all 'a'\nfind all 'b'\nfind last 1 any",
		// re-observes known finding K5 on every run: the first command renames the files, the second looks for them
		// under their old names
		c09RenameThenFind,
	}
	names := []string{"a.txt", "b.txt", "aa.txt", "1.txt", "12a.txt", " a b.txt", "café.txt", "a\nb.txt", "x", ".hidden", "aaaaaaaaaaaaaaaaaaaaaaaaaaaaaaaaaaaaaaaaaaaaaaaaaaaaaaaaaaaaaaaa.txt"}
	type job struct {
		p     int
		mode  string
		asDir bool
	}
	var jobs []job
	for p := range progs {
		for mi, mode := range []string{"NOTHING", "NEW", "OVERWRITE"} {
			jobs = append(jobs, job{p, mode, (p+mi)%3 == 0})
		}
	}
	r.Exec(len(jobs), drv.ExecOpts{Batch: 6}, func(i int) *drv.Item {
		jb := jobs[i]
		dir := filepath.Join(filesDir, fmt.Sprintf("names%d", i))
		os.MkdirAll(filepath.Join(dir, "sub"), 0o755)
		var paths []string
		for _, n := range names {
			p := filepath.Join(dir, n)
			if os.WriteFile(p, []byte("content of "+n), 0o644) == nil {
				paths = append(paths, p)
			}
		}
		if jb.asDir {
			paths = []string{dir}
		}
		src := progs[jb.p]
		c := wire.Case{Op: "runfiles", Src: []byte(src), Files: paths, Mode: jb.mode, StepBudget: 5_000_000, ProcessFilenames: true}
		return &drv.Item{Case: c, Check: func(res *wire.Result) {
			defer os.RemoveAll(dir)
			r.Eval(1)
			if res.Died {
				if res.Guard == "wall" {
					r.Inconclusive("wall-clock watchdog fired")
					return
				}
				sig := "worker-died:" + classifyFatal(res.Stderr)
				if res.Guard != "" {
					sig = "guard-" + res.Guard
				}
				r.Violate(&drv.Violation{Sig: "filenames:" + sig, Panic: firstLines(res.Stderr, 2), Src: src, Case: &c})
				return
			}
			if res.Panic != nil {
				r.Violate(&drv.Violation{Sig: "panic:" + res.Panic.Frame, Panic: res.Panic.Msg, Frame: res.Panic.Frame, Src: src, Case: &c})
				return
			}
			if res.Compile == nil || !res.Compile.OK || len(res.Runs) < 1 {
				r.Inconclusive("fixed program rejected: " + src)
				return
			}
			if p := res.Runs[0].Panic; p != nil {
				r.Violate(&drv.Violation{Sig: "run-panic:" + p.Frame, Panic: p.Msg, Frame: p.Frame, Src: src, Case: &c, Detail: map[string]any{"mode": jb.mode, "process_filenames": true, "directory_argument": jb.asDir}})
				return
			}
			r.Count("calls_processing_file_names", 1)
			if len(res.Runs[0].Matches) > 0 {
				r.Nontrivial(fmt.Sprintf("names|%d", i))
			}
		}}
	})
	if r.NViolations() == 0 && r.Counter("calls_processing_file_names") == 0 {
		r.Inconclusive("coverage floor: calls_processing_file_names = 0")
	}
}
