package checks

import (
	"fmt"
	"strconv"

	"verifharness/drv"
	"verifharness/gen"
	"verifharness/wire"
)

// c04Builtins: replace commands whose with-list names ONE built-in of the replacer each (value, matchNumber,
// startOffset, endOffset, lineNumber, columnNumber, totalMatches, filename), under every amount clause: the matches are
// the stated window of the `find all` list whatever the replacement reads, and the replacement of each is computed from
// the match (except for totalMatches, the one built-in that depends on the clause: there only the window is judged).
func c04Builtins(r *drv.Run) {
	builtins := []string{"value", "matchNumber", "startOffset", "endOffset", "lineNumber", "columnNumber", "totalMatches", "filename"}
	bodies := [][]gen.Node{
		{gen.Lit{S: "a"}},
		{gen.Class{Kind: "letter"}, gen.Loop{Min: 0, Max: 1, Form: "maybe", Body: gen.Lit{S: "a"}}},
	}
	texts := [][]byte{[]byte("aaaa"), []byte("a b a\na a"), []byte("ab a aa\n a b aaa"), []byte("a")}
	variants := amountVariants()
	type job struct {
		body []gen.Node
		bi   string
	}
	var jobs []job
	for _, b := range bodies {
		for _, bi := range builtins {
			jobs = append(jobs, job{b, bi})
		}
	}
	r.Exec(len(jobs), drv.ExecOpts{Batch: 2}, func(i int) *drv.Item {
		jb := jobs[i]
		base := &gen.Program{Commands: []gen.Command{{Amount: gen.Amount{Kind: "all"}, Body: jb.body}}}
		srcs := [][]byte{[]byte(gen.RenderProgram(base))}
		for _, am := range variants {
			q := &gen.Program{Commands: []gen.Command{{Amount: am, Body: jb.body, Replace: true,
				With: []gen.WithItem{{Kind: "str", S: "<"}, {Kind: "var", S: jb.bi}, {Kind: "str", S: ">"}}}}}
			srcs = append(srcs, []byte(gen.RenderProgram(q)))
		}
		c := wire.Case{Op: "astcmp", Srcs: srcs, Texts: texts, StepBudget: 60000}
		return &drv.Item{Case: c, Check: func(res *wire.Result) {
			if crashOrGuard(r, res, &c, string(srcs[0]), false) {
				return
			}
			if len(res.Compiles) != len(srcs) || len(res.Runs) != len(srcs)*len(texts) {
				r.Inconclusive("worker returned a short result")
				return
			}
			for k := range res.Compiles {
				if !res.Compiles[k].OK {
					r.Inconclusive("fixed program rejected: " + string(srcs[k]))
					return
				}
			}
			for ti, text := range texts {
				A := &res.Runs[ti]
				if runTrouble(r, A, &c, string(srcs[0]), text, false) {
					continue
				}
				for vi, am := range variants {
					run := &res.Runs[(vi+1)*len(texts)+ti]
					vsrc := string(srcs[vi+1])
					r.Eval(1)
					if runTrouble(r, run, &c, vsrc, text, false) {
						continue
					}
					want := window(A.Matches, am)
					bad := len(run.Matches) != len(want)
					what := fmt.Sprintf("%d matches, expected %d", len(run.Matches), len(want))
					for k := 0; !bad && k < len(want); k++ {
						m, w := run.Matches[k], want[k]
						if m.S != w.S || m.E != w.E || m.Num != w.Num {
							bad, what = true, fmt.Sprintf("match %d is #%d [%d,%d), expected #%d [%d,%d)", k, m.Num, m.S, m.E, w.Num, w.S, w.E)
							break
						}
						var v string
						switch jb.bi {
						case "value":
							v = string(w.Val)
						case "matchNumber":
							v = strconv.Itoa(w.Num)
						case "startOffset":
							v = strconv.Itoa(w.S)
						case "endOffset":
							v = strconv.Itoa(w.E)
						case "lineNumber":
							v = strconv.Itoa(w.L1)
						case "columnNumber":
							v = strconv.Itoa(w.C1)
						case "filename":
							v = w.File
						}
						if jb.bi == "totalMatches" {
							continue // what "total" counts is not C04's business (C05 judges replacement texts): only the window is
						}
						if string(m.Repl) != "<"+v+">" {
							bad, what = true, fmt.Sprintf("replacement of match #%d is %q, expected %q", m.Num, m.Repl, "<"+v+">")
						}
					}
					if bad {
						r.Violate(&drv.Violation{Sig: "builtin-in-with-list:window:" + am.Kind, Src: vsrc, Text: string(text), Case: &c,
							Detail: map[string]any{"builtin": jb.bi, "difference": what, "all": fmtGotN(A.Matches), "expected_window": fmtGotN(want), "observed": fmtGotN(run.Matches)}})
						continue
					}
					r.Count("windows_of_replace_commands_reading_one_builtin", 1)
				}
			}
		}}
	})
	if r.NViolations() == 0 && r.Counter("windows_of_replace_commands_reading_one_builtin") == 0 {
		r.Inconclusive("coverage floor: windows_of_replace_commands_reading_one_builtin = 0")
	}
}

// c04CaptureLists: replace commands whose with-list holds ONLY strings and captures, over bodies in which the same
// matched text is captured under different names depending on WHERE it stands (an anchor inside one alternative):
// adjacent matches of equal text with different captures. Under every clause each match of the window carries the
// replacement made of ITS captures - whichever match the window starts with.
func c04CaptureLists(r *drv.Run) {
	a := gen.Lit{S: "a"}
	capt := func(name string, n ...gen.Node) gen.Node { return gen.Capture{Name: name, Body: gen.Seq{Items: n}} }
	alt := func(l, rr []gen.Node) []gen.Node {
		return []gen.Node{gen.Or{Alts: []gen.Node{gen.Seq{Items: l}, gen.Seq{Items: rr}}}}
	}
	bodies := [][]gen.Node{
		alt([]gen.Node{gen.Anchor{Kind: "linestart"}, capt("x", a)}, []gen.Node{capt("y", a)}),
		alt([]gen.Node{capt("x", a), gen.Anchor{Kind: "lineend"}}, []gen.Node{capt("y", a)}),
		alt([]gen.Node{gen.Anchor{Kind: "wordstart"}, capt("x", gen.Class{Kind: "letter"})}, []gen.Node{capt("y", gen.Class{Kind: "letter"})}),
		alt([]gen.Node{gen.Anchor{Kind: "filestart"}, capt("x", a)}, []gen.Node{capt("y", a)}),
		{gen.Loop{Min: 0, Max: 1, Form: "maybe", Body: gen.Seq{Items: []gen.Node{gen.Anchor{Kind: "linestart"}, capt("x", gen.Seq{})}}}, capt("y", a)},
	}
	texts := [][]byte{[]byte("aa"), []byte("aaa\naa"), []byte("a a aa"), []byte("aaaa a\na")}
	variants := amountVariants()
	r.Exec(len(bodies), drv.ExecOpts{Batch: 1}, func(i int) *drv.Item {
		body := bodies[i]
		base := &gen.Program{Commands: []gen.Command{{Amount: gen.Amount{Kind: "all"}, Body: body}}}
		srcs := [][]byte{[]byte(gen.RenderProgram(base))}
		for _, am := range append([]gen.Amount{{Kind: "all"}}, variants...) {
			q := &gen.Program{Commands: []gen.Command{{Amount: am, Body: body, Replace: true,
				With: []gen.WithItem{{Kind: "str", S: "<"}, {Kind: "var", S: "x"}, {Kind: "str", S: "|"}, {Kind: "var", S: "y"}, {Kind: "str", S: ">"}}}}}
			srcs = append(srcs, []byte(gen.RenderProgram(q)))
		}
		all := append([]gen.Amount{{Kind: "all"}}, variants...)
		c := wire.Case{Op: "astcmp", Srcs: srcs, Texts: texts, StepBudget: 60000}
		return &drv.Item{Case: c, Check: func(res *wire.Result) {
			if crashOrGuard(r, res, &c, string(srcs[0]), false) {
				return
			}
			if len(res.Compiles) != len(srcs) || len(res.Runs) != len(srcs)*len(texts) {
				r.Inconclusive("worker returned a short result")
				return
			}
			for k := range res.Compiles {
				if !res.Compiles[k].OK {
					r.Inconclusive("fixed program rejected: " + string(srcs[k]) + ": " + res.Compiles[k].Err)
					return
				}
			}
			for ti, text := range texts {
				A := &res.Runs[ti]
				if runTrouble(r, A, &c, string(srcs[0]), text, false) {
					continue
				}
				for vi, am := range all {
					run := &res.Runs[(vi+1)*len(texts)+ti]
					vsrc := string(srcs[vi+1])
					r.Eval(1)
					if runTrouble(r, run, &c, vsrc, text, false) {
						continue
					}
					want := window(A.Matches, am)
					what := ""
					if len(run.Matches) != len(want) {
						what = fmt.Sprintf("%d matches, expected %d", len(run.Matches), len(want))
					}
					for k := 0; what == "" && k < len(want); k++ {
						m, w := run.Matches[k], want[k]
						vars := flatVars(w.Vars)
						exp := "<" + vars["x"] + "|" + vars["y"] + ">"
						if m.S != w.S || m.E != w.E || m.Num != w.Num {
							what = fmt.Sprintf("match %d is #%d [%d,%d), expected #%d [%d,%d)", k, m.Num, m.S, m.E, w.Num, w.S, w.E)
						} else if string(m.Repl) != exp {
							what = fmt.Sprintf("replacement of match #%d [%d,%d) is %q, its captures say %q", m.Num, m.S, m.E, m.Repl, exp)
						}
					}
					if what != "" {
						r.Violate(&drv.Violation{Sig: "captures-only-with-list:window:" + am.Kind, Src: vsrc, Text: string(text), Case: &c,
							Detail: map[string]any{"difference": what, "all": fmtGot(A.Matches), "observed": fmtGot(run.Matches)}})
						continue
					}
					r.Count("windows_of_replace_commands_with_captures_only", 1)
				}
			}
		}}
	})
}
