package checks

import (
	"fmt"

	"verifharness/drv"
	"verifharness/gen"
	"verifharness/wire"
)

// c03Runes: characters whose code point ends in the byte of a line feed, a carriage return, a tab or a blank (U+010A,
// U+040A, U+4E0A, U+270A, U+1F60A; U+010D, U+4E0D; U+0109, U+0120, U+4E20 ...), consumed whole (a literal, a negated
// literal, a back-reference, a multi-byte range, a negated list with a multi-byte item, whole file) and merely
// skipped by the scan, and the characters other grammars treat as line terminators (U+2028, U+2029, U+0085, VT, FF,
// the information separators): they are characters, not line ends - the lines of every later match stay those of the text.
func c03Runes(r *drv.Run) {
	special := []string{"Ċ", "Њ", "上", "✊", "😊", "č", "不", "ĉ", "Ġ", "丠", "ఊ",
		// what OTHER grammars call a line terminator or a line break: LINE SEPARATOR, PARAGRAPH SEPARATOR, NEXT LINE,
		// vertical tab, form feed, FILE / GROUP / RECORD SEPARATOR - here they are characters on a line
		"\u2028", "\u2029", "\u0085", "\v", "\f", "\x1c", "\x1d", "\x1e"}
	progs := []struct {
		src string
		am  gen.Amount
	}{
		{"find all 'x'", gen.Amount{Kind: "all"}},
		{"find all at least 1 not whitespace", gen.Amount{Kind: "all"}},
		{"find all not 'q'", gen.Amount{Kind: "all"}},
		{"find all (not in 'q', 'zz') = c maybe c", gen.Amount{Kind: "all"}},
		{"find all ((at least 1 not in ' ', '\\n') = w) ' ' w", gen.Amount{Kind: "all"}},
		{"find all whole file", gen.Amount{Kind: "all"}},
		{"find all whole line", gen.Amount{Kind: "all"}},
		{"find all in 'Ā' to '😿'", gen.Amount{Kind: "all"}},
		{"replace all 'x' with lineNumber ':' columnNumber", gen.Amount{Kind: "all"}},
		{"find skip 2 take 5 not whitespace", gen.Amount{Kind: "skiptake", Skip: 2, Take: 5}},
	}
	for _, sp := range special {
		progs = append(progs, struct {
			src string
			am  gen.Amount
		}{"find all " + gen.Quote(sp) + " or 'x'", gen.Amount{Kind: "all"}}, struct {
			src string
			am  gen.Amount
		}{"find all 'x' " + gen.Quote(sp+sp) + " or line start 'x'", gen.Amount{Kind: "all"}})
	}
	var texts [][]byte
	for k, sp := range special {
		o := special[(k+3)%len(special)]
		texts = append(texts, []byte("x"+sp+sp+" x\nx "+sp+" "+sp+"\n"+o+"x"+sp+sp+"\n\nx"+sp+"x "+sp+"x\nx"))
	}
	all := ""
	for _, sp := range special {
		all += "x" + sp + " " + sp + "x\n"
	}
	texts = append(texts, []byte(all), []byte(all+all+"x"))
	r.Exec(len(progs), drv.ExecOpts{Batch: 4}, func(i int) *drv.Item {
		pr := progs[i]
		c := wire.Case{Op: "run", Src: []byte(pr.src), Texts: texts, StepBudget: 5_000_000}
		return &drv.Item{Case: c, Check: func(res *wire.Result) {
			if crashOrGuard(r, res, &c, pr.src, false) {
				return
			}
			if compileTrouble(r, res, &c, pr.src, false) {
				return
			}
			for ti, text := range texts {
				if ti >= len(res.Runs) {
					break
				}
				run := &res.Runs[ti]
				r.Eval(1)
				if runTrouble(r, run, &c, pr.src, text, false) {
					continue
				}
				kind, msg := matchInvariants(text, run.Matches, pr.am, false)
				if kind != "" {
					r.Violate(&drv.Violation{Sig: "runes:" + kind, Src: pr.src, Text: string(text), Case: &c, Detail: map[string]any{"what": msg, "matches": len(run.Matches)}})
					return
				}
				if len(run.Matches) > 1 && run.Matches[len(run.Matches)-1].L1 > 1 {
					r.Count("runs_over_characters_ending_in_a_control_byte_verified", 1)
					r.Nontrivial(fmt.Sprintf("runes|%s|%d", pr.src, ti))
				}
			}
		}}
	})
	if r.NViolations() == 0 && r.Counter("runs_over_characters_ending_in_a_control_byte_verified") == 0 {
		r.Inconclusive("coverage floor: runs_over_characters_ending_in_a_control_byte_verified = 0")
	}
}
