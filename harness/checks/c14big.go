package checks

import (
	"fmt"
	"strings"

	"verifharness/drv"
	"verifharness/wire"
)

// c14BigCounts: exact and bounded repeat counts beyond what Go's regexp accepts (1 000): 1 001 .. 131 073, on both
// sides of 4 096, 65 536 and 100 000. Expected from the text alone: x a{n} y matches x a^n y and nothing shorter or
// longer; a{n} inside a^m matches floor(m/n) times.
func c14BigCounts(r *drv.Run) {
	ns := []int{1001, 4097, 65537, 100000, 100001}
	if !quick(r) {
		ns = append(ns, 99999, 131073, 200001)
	}
	type job struct {
		src   string
		text  string
		label string
		want  [][2]int
	}
	var jobs []job
	for _, n := range ns {
		as := strings.Repeat("a", n)
		jobs = append(jobs,
			job{fmt.Sprintf("find all @/xa{%d}y/", n), "xy xay x" + as + "y xaay", fmt.Sprintf("x a{%d} y", n), [][2]int{{7, 7 + n + 2}}},
			job{fmt.Sprintf("find all @/xa{%d}y/", n), "x" + as[1:] + "y x" + as + "ay xy", fmt.Sprintf("x a{%d} y on near misses", n), nil},
			job{fmt.Sprintf("find all 'x' exactly %d 'a' 'y'", n), "xy xay x" + as + "y", fmt.Sprintf("x exactly %d a y", n), [][2]int{{7, 7 + n + 2}}},
		)
		if n <= 5000 {
			// (the VM's memory grows with the square of a match's length: these shapes only for the smaller counts)
			jobs = append(jobs,
				job{fmt.Sprintf("find all @/a{%d}/", n), as + as + "aa b", fmt.Sprintf("a{%d} twice", n), [][2]int{{0, n}, {n, 2 * n}}},
				job{fmt.Sprintf("find all @/xa{%d,%d}y/", n, n), "xy x" + as + "y", fmt.Sprintf("x a{%d,%d} y", n, n), [][2]int{{3, 3 + n + 2}}})
		}
	}
	r.Exec(len(jobs), drv.ExecOpts{Batch: 1, Env: []string{"VW_RSS_LIMIT_MB=6000"}}, func(i int) *drv.Item {
		jb := jobs[i]
		c := wire.Case{Op: "run", Src: []byte(jb.src), Texts: [][]byte{[]byte(jb.text)}, StepBudget: 50_000_000}
		return &drv.Item{Case: c, Check: func(res *wire.Result) {
			if crashOrGuard(r, res, &c, jb.src, false) {
				return
			}
			if compileTrouble(r, res, &c, jb.src, false) {
				return
			}
			if len(res.Runs) < 1 {
				return
			}
			run := &res.Runs[0]
			r.Eval(1)
			if runTrouble(r, run, &c, jb.src, []byte(jb.label), false) {
				return
			}
			var got [][2]int
			for _, m := range run.Matches {
				got = append(got, [2]int{m.S, m.E})
			}
			if fmt.Sprint(got) != fmt.Sprint(jb.want) {
				r.Violate(&drv.Violation{Sig: "big-count:spans-differ", Src: jb.src, Text: jb.label, Case: &c, Detail: map[string]any{"expected": fmt.Sprint(jb.want), "observed": oneLineN(fmt.Sprint(got), 200), "text_length": len(jb.text)}})
				return
			}
			r.Count("big_count_runs_verified", 1)
			if len(jb.want) > 0 {
				r.Nontrivial("bigcount|" + jb.label)
			}
		}}
	})
	if r.NViolations() == 0 && r.Counter("big_count_runs_verified") == 0 {
		r.Inconclusive("coverage floor: big_count_runs_verified = 0")
	}
}
