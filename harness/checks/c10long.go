package checks

import (
	"bytes"
	"fmt"

	"verifharness/drv"
	"verifharness/wire"
)

// c10LongPrefix: loops whose body can match the empty string, reached after ONE attempt has already matched 100 ..
// 131 073 bytes (one-instruction prefixes: whole file, whole line): the guard against empty iterations must work at
// every match length, on both sides of 65 536.
func c10LongPrefix(r *drv.Run) {
	srcs := []string{
		"find all whole file at least 0 (maybe 'x')",
		"find all whole file at least 0 (at most 2 'x') 'never'",
		"find all whole file @/(x?)*/",
		"find all whole file @/(x*)*y/",
		"find all whole line at least 0 (maybe 'x')",
		"find all whole line at least 1 (maybe 'x' maybe 'y') fewest line end",
		"find all whole file at least 0 file end",
		"find all whole file at least 0 (maybe 'x') named k",
		"find all whole file at least 0 ((maybe 'x') = c)",
		"replace all whole file at least 0 (maybe 'x') with 'R'",
	}
	var texts [][]byte
	for _, n := range []int{100, 65535, 65536, 65537, 100000, 131073} {
		texts = append(texts, bytes.Repeat([]byte("a"), n))
	}
	r.Exec(len(srcs), drv.ExecOpts{Batch: 1}, func(i int) *drv.Item {
		src := srcs[i]
		c := wire.Case{Op: "run", Src: []byte(src), Texts: texts, StepBudget: 250000}
		return &drv.Item{Case: c, Check: func(res *wire.Result) {
			before := r.NViolations()
			short := make([][]byte, len(texts))
			for k := range texts {
				short[k] = []byte(fmt.Sprintf("a x %d", len(texts[k])))
			}
			c10Check(r, src, short, &c, res, false, "long-prefix")
			if r.NViolations() == before && !res.Died {
				r.Count("long_prefix_runs", len(res.Runs))
			}
		}}
	})
	if r.NViolations() == 0 && r.Counter("long_prefix_runs") == 0 {
		r.Inconclusive("coverage floor: long_prefix_runs = 0")
	}
}
