package checks

import (
	"fmt"
	"strings"

	"verifharness/drv"
	"verifharness/gen"
	"verifharness/proc"
	"verifharness/wire"
)

func init() { Registry["C11"] = C11 }

// environment every C11 expression is evaluated in
var c11Prelude = "set s1 to 'abc' set n1 to 7 set b1 to true set s2 to '' set n2 to 0 "

func c11Env(match string) proc.Env {
	return proc.Env{
		"s1": proc.Str("abc"), "n1": proc.Num(7), "b1": proc.Bool(true), "s2": proc.Str(""), "n2": proc.Num(0),
		"match": proc.Str(match), "matchLength": proc.Num(len(match)),
	}
}

var c11TypeEnv = proc.TypeEnv{"s1": proc.TStr, "n1": proc.TNum, "b1": proc.TBool, "s2": proc.TStr, "n2": proc.TNum,
	"match": proc.TStr, "matchLength": proc.TNum, "cap": proc.TStr}

func c11Leaves() []proc.Expr {
	var out []proc.Expr
	for _, s := range procStrs {
		out = append(out, proc.EStr{V: s})
	}
	for _, n := range procNums {
		out = append(out, proc.ENum{V: n})
	}
	out = append(out, proc.EBool{V: true}, proc.EBool{V: false})
	for _, v := range []string{"s1", "n1", "b1", "s2", "n2", "match", "matchLength", "cap"} {
		out = append(out, proc.EVar{Name: v})
	}
	// number literals whose digits do not fit a signed 64-bit integer (value 0): just above 2^63, in the
	// unsigned band, just below and above 2^64, with leading zeros
	for _, lit := range []string{"9223372036854775808", "9999999999999999999", "18446744073709551615", "18446744073709551616", "0009223372036854775807"} {
		out = append(out, proc.ERaw{S: lit})
	}
	// names that differ from an assigned variable or a built-in only in letter case are other names: never
	// assigned, hence the empty string
	for _, v := range []string{"N1", "B1", "matchlength", "MATCH", "Cap"} {
		out = append(out, proc.EVar{Name: v})
	}
	return out
}

type c11Expr struct {
	e     proc.Expr
	src   string
	label string
}

const predLetters = "abcdefgh"

// c11Program packs up to 8 expressions into one source.
func c11Program(exprs []c11Expr) (src string, text string) {
	var sb strings.Builder
	var with []string
	var finds []string
	for k, x := range exprs {
		t := proc.TypeOf(x.e, c11TypeEnv)
		if t == proc.TBool {
			fmt.Fprintf(&sb, "set f%d to transform %sif %s then return 'T' else return 'F' end end\n", k, c11Prelude, x.src)
			fmt.Fprintf(&sb, "set p%d to pattern '%c' begin %sreturn %s end\n", k, predLetters[k], c11Prelude, x.src)
			finds = append(finds, fmt.Sprintf("find all p%d", k))
		} else {
			fmt.Fprintf(&sb, "set f%d to transform %sreturn %s end\n", k, c11Prelude, x.src)
		}
		with = append(with, fmt.Sprintf("f%d", k))
	}
	// two matches with different environments (match = cap = "7", then "3"): the same expression tree is
	// evaluated twice in one run and must not remember the first result
	sb.WriteString("replace all (digit = cap) with " + strings.Join(with, " '|' ") + "\n")
	sb.WriteString(strings.Join(finds, "\n"))
	return sb.String(), "7" + predLetters + "3"
}

func c11Check(r *drv.Run, exprs []c11Expr, src string, text string, c *wire.Case, res *wire.Result) {
	if crashOrGuard(r, res, c, src, false) {
		return
	}
	cr := res.Compile
	if cr == nil || cr.Panic != nil {
		if cr != nil {
			r.Violate(&drv.Violation{Sig: "compile-panic:" + cr.Panic.Frame, Panic: cr.Panic.Msg, Frame: cr.Panic.Frame, Src: src, Case: c})
		}
		return
	}
	if !cr.OK {
		// accepted-by-the-checker is the quantifier of this property; rejection of a table row is C12's finding
		r.Count("programs_rejected_by_checker", 1)
		r.Inconclusive("an expression typed by the documented table was rejected: " + cr.Err + " | " + src)
		return
	}
	if len(res.Runs) != 1 {
		return
	}
	run := &res.Runs[0]
	if run.Panic != nil {
		r.Violate(&drv.Violation{Sig: "run-panic:" + run.Panic.Frame, Panic: run.Panic.Msg, Frame: run.Panic.Frame, Src: src, Text: text, Case: c})
		return
	}
	if run.Budget != "" {
		r.Inconclusive("step budget")
		return
	}
	// expected, per transform environment
	digits := []string{"7", "3"}
	wantParts := make([][]string, len(digits))
	wantFind := map[byte]bool{}
	for di, dg := range digits {
		tenv := c11Env(dg)
		tenv["cap"] = proc.Str(dg)
		for k, x := range exprs {
			v, ok := proc.Eval(x.e, tenv)
			if !ok {
				r.Inconclusive("generator produced an undefined cell: " + x.src)
				return
			}
			if v.T == proc.TBool {
				if v.B {
					wantParts[di] = append(wantParts[di], "T")
				} else {
					wantParts[di] = append(wantParts[di], "F")
				}
				if di == 0 {
					penv := c11Env(string(predLetters[k]))
					pv, ok := proc.Eval(x.e, penv)
					if !ok {
						r.Inconclusive("generator produced an undefined cell: " + x.src)
						return
					}
					wantFind[predLetters[k]] = pv.AsBool()
				}
			} else {
				wantParts[di] = append(wantParts[di], v.AsString())
			}
		}
	}
	var gotRepls []string
	gotFind := map[byte]bool{}
	for _, m := range run.Matches {
		if m.HasRepl {
			gotRepls = append(gotRepls, string(m.Repl))
		} else if len(m.Val) == 1 {
			gotFind[m.Val[0]] = true
		}
	}
	r.Eval(len(exprs))
	if len(gotRepls) != len(digits) {
		r.Violate(&drv.Violation{Sig: "no-replacement-produced", Src: src, Text: text, Case: c, Detail: map[string]any{"replacements": len(gotRepls)}})
		return
	}
	for k, x := range exprs {
		bad := false
		for di := range digits {
			gotParts := strings.Split(gotRepls[di], "|")
			if len(gotParts) != len(wantParts[di]) {
				r.Violate(&drv.Violation{Sig: "replacement-shape", Src: src, Text: text, Case: c, Detail: map[string]any{"expected": strings.Join(wantParts[di], "|"), "observed": gotRepls[di]}})
				return
			}
			if gotParts[k] != wantParts[di][k] {
				lab := "value:"
				if di > 0 && gotParts[k] == wantParts[0][k] {
					lab = "value-remembered-from-earlier-evaluation:"
				}
				r.Violate(&drv.Violation{Sig: lab + x.label, Src: src, Text: text, Case: c,
					Detail: map[string]any{"expression": x.src, "environment": "match = cap = " + digits[di], "expected": wantParts[di][k], "observed": gotParts[k], "channel": "transform"}})
				bad = true
				break
			}
		}
		if bad {
			continue
		}
		if w, isBool := wantFind[predLetters[k]]; isBool && gotFind[predLetters[k]] != w {
			r.Violate(&drv.Violation{Sig: "predicate:" + x.label, Src: src, Text: text, Case: c,
				Detail: map[string]any{"expression": x.src, "expected_match": w, "observed_match": gotFind[predLetters[k]], "channel": "predicate"}})
			continue
		}
		r.Nontrivial(x.src)
		r.Count("expr_"+x.label, 1)
	}
}

func opLabel(e proc.Expr) string {
	switch x := e.(type) {
	case proc.EBin:
		return fmt.Sprintf("%s %s", proc.TypeOf(x.L, c11TypeEnv), x.Op)
	case proc.EUn:
		return x.Op
	}
	return "leaf"
}

func C11(r *drv.Run) {
	r.BuildWorker()
	nrand := 20000
	if !quick(r) {
		nrand = 300000
	}
	nl := len(c11Leaves())
	r.Rule = fmt.Sprintf("the built-in matchNumber inside transforms (a string for the checker, a number at run time): every unary and binary operator with it on either side against ten operands, and eight nested shapes, over twelve matches; every PAIR of binary operators (13 x 13) in both groupings over five small leaves, rendered with minimal parentheses; exhaustive: every unary operator x %d leaves and every binary operator x %d x %d leaves", nl, nl, nl) + " (string/number/bool literals at boundary values '', '0', '7', '12', 'abc', '+3', ' 4', '010', '0x1F', '1_000', '1e3', '3.5', an overflowing digit string, the largest and smallest 64-bit integers as strings and as numbers, number literals beyond the signed 64-bit range (value 0), names differing from assigned variables and built-ins only in letter case (unassigned: the empty string), 0, 1, 2, -1, 7, 12, true, false, and variables bound by set and by a capture) that the documented table types; plus chains of 9..13 operands joined by + with parenthesised groups on right-hand sides; plus seeded random well-typed trees of depth <= 3, each rendered with minimal AND with full parentheses (precedence and associativity) and with its keywords (true false not head tail and or) in UPPER or Capitalised case. Observation: a transform returning the expression (booleans through if/else) and a predicate returning it (match / no match). Oracle: evaluator transcribed from the documentation tables (harness/proc). Byte strings from the searched text: the six comparison operators over two captured tokens, their heads and tails and a literal (42 expressions) on all ordered pairs of 20 tokens - ASCII, accented letters in both cases, a three- and a four-byte character, and pieces of them that are not valid UTF-8 (lone lead and continuation bytes, 0xFF, 0xFE 0xFF): strings are ordered byte by byte. Non-trivial = every expression whose observed value equalled the expected one is a distinct checked cell; distinct by expression text."
	r.Assumptions = []string{
		"division and modulo by zero are not generated (no documented result; see known finding K1 under C09)",
		"left open by the documentation and always parenthesised explicitly: unary operators over binary operands, ==/!= mixed with </>/<=/>= in one chain",
		"matchNumber is not used (the checker types it as a string, the evaluator binds a number)",
	}
	// exhaustive depth-1
	leaves := c11Leaves()
	var all []c11Expr
	for _, op := range unOps {
		for _, a := range leaves {
			e := proc.EUn{Op: op, X: a}
			if proc.TypeOf(e, c11TypeEnv) != proc.TErr {
				all = append(all, c11Expr{e, proc.Render(e, false), opLabel(e)})
				all = append(all, c11Expr{e, proc.RenderCase(e, false, 1+len(all)%2), opLabel(e) + " (keyword in another case)"})
			}
		}
	}
	env0 := c11Env("7")
	env0["cap"] = proc.Str("7")
	for _, op := range binOps {
		for _, a := range leaves {
			for _, b := range leaves {
				e := proc.EBin{Op: op, L: a, R: b}
				if proc.TypeOf(e, c11TypeEnv) == proc.TErr {
					continue
				}
				if _, ok := proc.Eval(e, env0); !ok {
					continue
				}
				if _, ok := proc.Eval(e, c11Env("a")); !ok {
					continue
				}
				env3 := c11Env("3")
				env3["cap"] = proc.Str("3")
				if _, ok := proc.Eval(e, env3); !ok {
					continue
				}
				all = append(all, c11Expr{e, proc.Render(e, false), opLabel(e)})
				if up := proc.RenderCase(e, false, 1+len(all)%2); up != proc.Render(e, false) && (op == "and" || op == "or" || len(all)%5 == 0) {
					all = append(all, c11Expr{e, up, opLabel(e) + " (keyword in another case)"})
				}
			}
		}
	}
	// every PAIR of binary operators in both groupings over five small leaves, rendered with the minimal parentheses the
	// documented precedence and associativity ask for: `a op1 b op2 c` means what the table says
	{
		small := []proc.Expr{proc.EBool{V: true}, proc.EBool{V: false}, proc.ENum{V: 2}, proc.ENum{V: 3}, proc.EStr{V: "5"}}
		envs := []proc.Env{env0, c11Env("a")}
		npairs := 0
		for _, op1 := range binOps {
			for _, op2 := range binOps {
				for _, a := range small {
					for _, b := range small {
						for _, cc := range small {
							for shape := 0; shape < 2; shape++ {
								var e proc.Expr
								if shape == 0 {
									e = proc.EBin{Op: op2, L: proc.EBin{Op: op1, L: a, R: b}, R: cc}
								} else {
									e = proc.EBin{Op: op1, L: a, R: proc.EBin{Op: op2, L: b, R: cc}}
								}
								if proc.TypeOf(e, c11TypeEnv) == proc.TErr {
									continue
								}
								okv := true
								for _, env := range envs {
									if _, ok := proc.Eval(e, env); !ok {
										okv = false
									}
								}
								if !okv {
									continue
								}
								all = append(all, c11Expr{e, proc.Render(e, false), "operator-pair " + op1 + " " + op2})
								npairs++
							}
						}
					}
				}
			}
		}
		r.Extra["operator_pair_expressions"] = npairs
	}
	r.Extra["exhaustive_depth1_expressions"] = len(all)
	nprog := (len(all) + 7) / 8
	r.Exec(nprog, drv.ExecOpts{Batch: 40}, func(i int) *drv.Item {
		lo, hi := i*8, min(i*8+8, len(all))
		ex := all[lo:hi]
		src, text := c11Program(ex)
		c := wire.Case{Op: "run", Src: []byte(src), Texts: [][]byte{[]byte(text)}, StepBudget: 200000}
		return &drv.Item{Case: c, Check: func(res *wire.Result) {
			c11Check(r, ex, src, text, &c, res)
			if i%53 == 0 {
				r.Sample(map[string]any{"expression": ex[0].src, "program": src})
			}
		}}
	})
	// random trees, both renderings
	r.Exec(nrand/4, drv.ExecOpts{Batch: 40}, func(i int) *drv.Item {
		rng := gen.Derive(r.Seed, "C11", i)
		pg := newProcGen(rng)
		pg.strVar, pg.numVar, pg.boolVar = []string{"s1", "s2", "cap"}, []string{"n1", "n2"}, []string{"b1"}
		var ex []c11Expr
		for len(ex) < 4 {
			t := []proc.Type{proc.TStr, proc.TNum, proc.TBool}[rng.Intn(3)]
			e := pg.typed(t, 1+rng.Intn(3))
			if proc.TypeOf(e, c11TypeEnv) == proc.TErr {
				continue
			}
			envA := c11Env("7")
			envA["cap"] = proc.Str("7")
			okAll := true
			for _, l := range predLetters {
				if _, ok := proc.Eval(e, c11Env(string(l))); !ok {
					okAll = false
				}
			}
			envB := c11Env("3")
			envB["cap"] = proc.Str("3")
			if _, ok := proc.Eval(e, envB); !ok {
				okAll = false
			}
			if _, ok := proc.Eval(e, envA); !ok || !okAll {
				continue
			}
			if len(ex) == 0 && i%3 == 0 {
				// a long chain: 8..12 operands joined by +, now and then a parenthesised group (a sum of its own, or
				// another operator) on a right-hand side; a chain is evaluated pair by pair from the left
				var chain proc.Expr = pg.typed([]proc.Type{proc.TStr, proc.TNum}[rng.Intn(2)], 0)
				for k := 8 + rng.Intn(5); k > 0; k-- {
					var rhs proc.Expr = pg.typed([]proc.Type{proc.TStr, proc.TNum}[rng.Intn(2)], 0)
					if rng.Chance(1, 3) {
						rhs = proc.EBin{Op: []string{"+", "+", "-", "*"}[rng.Intn(4)], L: pg.typed(proc.TNum, 0), R: pg.typed([]proc.Type{proc.TStr, proc.TNum}[rng.Intn(2)], 0)}
					}
					chain = proc.EBin{Op: "+", L: chain, R: rhs}
				}
				okc := proc.TypeOf(chain, c11TypeEnv) != proc.TErr
				for _, env := range []proc.Env{envA, envB, c11Env("a")} {
					if _, ok := proc.Eval(chain, env); !ok {
						okc = false
					}
				}
				if okc {
					ex = append(ex, c11Expr{chain, proc.Render(chain, false), "long-plus-chain"})
				}
			}
			ex = append(ex, c11Expr{e, proc.Render(e, false), "tree-minimal-parens"})
			ex = append(ex, c11Expr{e, proc.Render(e, true), "tree-full-parens"})
			if up := proc.RenderCase(e, false, 1+i%2); up != proc.Render(e, false) {
				ex = append(ex, c11Expr{e, up, "tree-keywords-in-another-case"})
			}
			if rng.Chance(1, 3) {
				// the same tokens with a comment in every gap: glued block comments, block comments between blanks, line comments
				sep := []string{"--(c)--", " --( c )-- ", " -- c\n", "--()--", "\n--(a\nb)--\n"}[rng.Intn(5)]
				toks := gen.Significant(gen.Tokenize(proc.Render(e, rng.Bool())))
				for _, tk := range toks {
					if tk.Text == "-" && sep[0] == '-' {
						sep = " " + sep + " " // (a minus sign glued to the dashes of a comment would read as other tokens)
					}
				}
				ex = append(ex, c11Expr{e, gen.JoinWith(toks, sep), "tree-with-a-comment-in-every-gap"})
			}
		}
		src, text := c11Program(ex)
		c := wire.Case{Op: "run", Src: []byte(src), Texts: [][]byte{[]byte(text)}, StepBudget: 200000}
		return &drv.Item{Case: c, Check: func(res *wire.Result) {
			c11Check(r, ex, src, text, &c, res)
			if i%997 == 0 {
				r.Sample(map[string]any{"minimal": ex[0].src, "full": ex[1].src})
			}
		}}
	})
	c11Bytes(r)
	c11MatchNumber(r)
	if r.NViolations() == 0 {
		for _, k := range []string{"expr_tree-minimal-parens", "expr_tree-full-parens", "expr_tree-with-a-comment-in-every-gap", "expr_string +", "expr_number ==", "expr_bool and", "expr_head", "expr_string -"} {
			if r.Counter(k) == 0 {
				r.Inconclusive("coverage floor: " + k + " = 0")
			}
		}
	}
}
