package checks

import (
	"verifharness/drv"
	"verifharness/proc"
	"verifharness/wire"
)

// c12Bound: "a name the process code never assigns is a string" also when the PATTERN binds that name - as a capture,
// as a capture that only some matches bind, as a named loop (a map of iterations, not a text), as a named loop holding
// a capture, or not at all. Twelve transforms read the name through every kind of string operation; each source is
// accepted and every match's replacement is what the reference interpreter computes with the name standing for the
// captured text where there is one and for the empty string where there is none.
func c12Bound(r *drv.Run) {
	n := proc.EVar{Name: "nums"}
	str := func(s string) proc.Expr { return proc.EStr{V: s} }
	bin := func(op string, l, rr proc.Expr) proc.Expr { return proc.EBin{Op: op, L: l, R: rr} }
	ret := func(x proc.Expr) proc.Stmt { return proc.SReturn{X: x} }
	bodies := [][]proc.Stmt{
		{ret(bin("+", n, str("!")))},
		{proc.SIf{Cond: bin("==", n, str("")), Then: []proc.Stmt{ret(str("empty"))}}, ret(n)},
		{ret(bin("+", proc.EUn{Op: "head", X: n}, str("|")))},
		{ret(bin("+", proc.EUn{Op: "tail", X: n}, str("|")))},
		{ret(bin("+", proc.EVar{Name: "match"}, n))},
		{proc.SIf{Cond: bin("<", n, str("2")), Then: []proc.Stmt{ret(proc.ENum{V: 1})}}, ret(proc.ENum{V: 2})},
		{proc.SSet{Name: "k", X: n}, ret(bin("+", proc.EVar{Name: "k"}, proc.EVar{Name: "k"}))},
		{ret(bin("+", proc.EVar{Name: "matchLength"}, n))},
		{proc.SIf{Cond: bin("!=", n, proc.EVar{Name: "match"}), Then: []proc.Stmt{ret(str("differs"))}}, ret(str("same"))},
		{proc.SIf{Cond: bin("and", bin("==", n, str("")), proc.EBool{V: true}), Then: []proc.Stmt{ret(str("E"))}}, ret(bin("+", str("F"), n))},
		{proc.SSet{Name: "nums", X: bin("+", n, str("x"))}, ret(n)},
		{proc.SDebug{X: n}, ret(bin("+", bin("+", str("<"), n), str(">")))},
	}
	type pat struct {
		label, src string
		bound      func(m *wire.Match) (string, bool) // the text the name stands for, if the match binds one
	}
	capt := func(m *wire.Match) (string, bool) {
		v, ok := flatVars(m.Vars)["nums"]
		return v, ok && v != "<map>"
	}
	none := func(m *wire.Match) (string, bool) { return "", false }
	pats := []pat{
		{"capture", "(at least 1 digit) = nums", capt},
		{"capture-some-matches-bind", "maybe ('x' = nums) at least 1 digit", capt},
		{"named-loop", "at least 1 digit named nums", none},
		{"named-loop-holding-a-capture", "at least 1 (digit = d) named nums", none},
		{"named-loop-inside-a-subroutine", "{at least 1 digit named nums} = s maybe ('-' s)", none},
		{"not-bound", "at least 1 digit", none},
	}
	texts := [][]byte{[]byte("12 x345 6"), []byte("7-8 x9\n10")}
	type job struct {
		p pat
		b int
	}
	var jobs []job
	for _, p := range pats {
		for b := range bodies {
			jobs = append(jobs, job{p, b})
		}
	}
	r.Exec(len(jobs), drv.ExecOpts{Batch: 12}, func(i int) *drv.Item {
		jb := jobs[i]
		stmts := bodies[jb.b]
		src := "set f to transform " + proc.RenderStmts(stmts, i%2 == 0) + " end\nreplace all " + jb.p.src + " with '[' f ']'"
		c := wire.Case{Op: "run", Src: []byte(src), Texts: texts, StepBudget: 100000}
		return &drv.Item{Case: c, Check: func(res *wire.Result) {
			if crashOrGuard(r, res, &c, src, false) {
				return
			}
			r.Eval(1)
			if res.Compile != nil && res.Compile.Panic == nil && !res.Compile.OK {
				r.Violate(&drv.Violation{Sig: "rejected-well-typed:name-bound-by-the-pattern:" + jb.p.label, Src: src, Err: res.Compile.Err, Case: &c})
				return
			}
			if compileTrouble(r, res, &c, src, false) {
				return
			}
			for ti, text := range texts {
				if ti >= len(res.Runs) {
					break
				}
				run := &res.Runs[ti]
				if run.Panic != nil {
					r.Violate(&drv.Violation{Sig: "accepted-code-met-undefined-operation:name-bound-by-the-pattern:" + jb.p.label, Panic: run.Panic.Msg, Frame: run.Panic.Frame, Src: src, Text: string(text), Case: &c})
					return
				}
				if runTrouble(r, run, &c, src, text, false) {
					continue
				}
				for _, m := range run.Matches {
					env := proc.Env{"match": proc.Str(string(m.Val)), "matchLength": proc.Num(len(m.Val))}
					if v, ok := jb.p.bound(&m); ok {
						env["nums"] = proc.Str(v)
					}
					in := &proc.Interp{Env: env}
					want := "[" + in.Run(stmts).AsString() + "]"
					if in.Undef || in.Spin {
						r.Inconclusive("reference interpreter gave up on " + src)
						return
					}
					if string(m.Repl) != want {
						r.Violate(&drv.Violation{Sig: "value:name-bound-by-the-pattern:" + jb.p.label, Src: src, Text: string(text), Case: &c,
							Detail: map[string]any{"match": string(m.Val), "expected": want, "observed": string(m.Repl)}})
						return
					}
					r.Count("transform_results_reading_a_name_the_pattern_binds", 1)
				}
			}
		}}
	})
	if r.NViolations() == 0 && r.Counter("transform_results_reading_a_name_the_pattern_binds") == 0 {
		r.Inconclusive("coverage floor: transform_results_reading_a_name_the_pattern_binds = 0")
	}
}
