package checks

import (
	"bytes"
	"fmt"
	"os"
	"path/filepath"

	"verifharness/drv"
	"verifharness/fsmon"
	"verifharness/wire"
)

// c06DirNames: directory arguments with legal but unusual names (ending in a backslash, holding blanks, named like a
// file, given with a trailing slash or a doubled one), each with a DECOY next to it: a file in the parent directory
// whose name is the directory's name glued to the entry's name the way a wrong join would produce it. The files inside
// the directory are rewritten (OVERWRITE) or get their .vored (NEW); the decoys and everything else stay as they were.
func c06DirNames(r *drv.Run) {
	dirNames := []string{"in\\", "d e", "x.txt", "in", "in\\\\", "a.b\\"}
	suffixes := []string{"", "/", "//"}
	type job struct {
		dn, suffix, mode string
	}
	var jobs []job
	for _, dn := range dirNames {
		for _, sf := range suffixes {
			for _, m := range []string{"OVERWRITE", "NEW", "NOTHING"} {
				jobs = append(jobs, job{dn, sf, m})
			}
		}
	}
	src := "replace all 'a' with 'bb'"
	content := []byte("a.a ba")
	want := bytes.ReplaceAll(content, []byte("a"), []byte("bb"))
	r.Exec(len(jobs), drv.ExecOpts{Batch: 9}, func(i int) *drv.Item {
		jb := jobs[i]
		dir := filepath.Join(r.WorkDir, "c06dirs", fmt.Sprint(i))
		d := dir + "/" + jb.dn
		os.MkdirAll(d, 0o755)
		os.WriteFile(d+"/a.txt", content, 0o644)
		os.WriteFile(d+"/z.txt", content, 0o644)
		// decoys: what a join without a separator, or with the wrong one, would name
		decoys := []string{dir + "/" + jb.dn + "a.txt", dir + "/" + jb.dn + "z.txt", dir + "/" + jb.dn + "\\a.txt"}
		for _, dc := range decoys {
			os.WriteFile(dc, content, 0o644)
		}
		before := fsmon.Take(dir)
		c := wire.Case{Op: "runfiles", Src: []byte(src), Files: []string{d + jb.suffix}, Mode: jb.mode, StepBudget: 1_000_000}
		return &drv.Item{Case: c, Check: func(res *wire.Result) {
			defer os.RemoveAll(dir)
			if crashOrGuard(r, res, &c, src, false) {
				return
			}
			if res.Compile == nil || !res.Compile.OK || len(res.Runs) < 1 {
				r.Inconclusive("fixed program rejected: " + src)
				return
			}
			r.Eval(1)
			if p := res.Runs[0].Panic; p != nil {
				r.Violate(&drv.Violation{Sig: "runfiles-panic:" + p.Frame, Panic: p.Msg, Frame: p.Frame, Src: src, Case: &c, Detail: map[string]any{"mode": jb.mode, "directory": jb.dn + jb.suffix}})
				return
			}
			allowed := map[string]bool{}
			for _, n := range []string{"a.txt", "z.txt"} {
				switch jb.mode {
				case "OVERWRITE":
					allowed[jb.dn+"/"+n] = true
				case "NEW":
					allowed[jb.dn+"/"+n+".vored"] = true
				}
			}
			for _, ch := range fsmon.Diff(before, fsmon.Take(dir)) {
				if !allowed[ch.Path] {
					r.Violate(&drv.Violation{Sig: "directory-argument:touched-a-file-outside-the-directory:" + jb.mode, Src: src, Case: &c,
						Detail: map[string]any{"change": ch.String(), "directory": jb.dn + jb.suffix, "mode": jb.mode}})
					return
				}
			}
			for p := range allowed {
				got, err := os.ReadFile(dir + "/" + p)
				if err != nil || !bytes.Equal(got, want) {
					r.Violate(&drv.Violation{Sig: "directory-argument:output-missing-or-wrong:" + jb.mode, Src: src, Case: &c,
						Detail: map[string]any{"file": p, "directory": jb.dn + jb.suffix, "expected": string(want), "observed": string(got)}})
					return
				}
			}
			r.Count("directory_arguments_with_decoys_verified", 1)
			if jb.mode != "NOTHING" {
				r.Nontrivial(fmt.Sprintf("dirname|%d", i))
			}
		}}
	})
	if r.NViolations() == 0 && r.Counter("directory_arguments_with_decoys_verified") == 0 {
		r.Inconclusive("coverage floor: directory_arguments_with_decoys_verified = 0")
	}
}
