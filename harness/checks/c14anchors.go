package checks

import (
	"verifharness/drv"
	"verifharness/gen"
	"verifharness/wire"
)

// c14AnchorOperands: ^ and $ as OPERANDS of an alternation - first, last and in the middle; inside plain,
// non-capturing and named groups and at top level; next to literals, classes and groups (every operand a single atom, as the property's subset says) - on every text over
// {a, b, comma, newline} up to length 4. Both oracles.
func c14AnchorOperands(r *drv.Run) {
	bol, eol := gen.Anchor{Kind: "linestart"}, gen.Anchor{Kind: "lineend"}
	a, b, cm := gen.Lit{S: "a"}, gen.Lit{S: "b"}, gen.Lit{S: ","}
	or := func(n ...gen.Node) gen.Node { return gen.Or{Alts: n} }
	seq := func(n ...gen.Node) gen.Seq { return gen.Seq{Items: n} }
	grp := func(n gen.Node) gen.Node { return gen.Seq{Items: []gen.Node{n}} } // a non-capturing group
	capt := func(name string, n gen.Node) gen.Node {
		return gen.Seq{Items: []gen.Node{gen.Capture{Name: name, Body: gen.Seq{Items: []gen.Node{n}}}}}
	}
	type rx struct {
		src   string
		tree  gen.Seq
		names []string
	}
	res := []rx{
		{"(^|b)a", seq(capt("_1", or(bol, b)), a), []string{"_1"}},
		{"(?:^|b)a", seq(grp(or(bol, b)), a), nil},
		{"(b|^)a", seq(capt("_1", or(b, bol)), a), []string{"_1"}},
		{"a(b|$)", seq(a, capt("_1", or(b, eol))), []string{"_1"}},
		{"a($|b)", seq(a, capt("_1", or(eol, b))), []string{"_1"}},
		{"a(?:$|,)", seq(a, grp(or(eol, cm))), nil},
		{"(?<p>^|,)a", seq(capt("p", or(bol, cm)), a), []string{"p"}},
		{"(?<p>$|b)a", seq(capt("p", or(eol, b)), a), []string{"p"}},
		{"(^|,|b)a", seq(capt("_1", or(bol, cm, b)), a), []string{"_1"}},
		{"(,|^|b)a", seq(capt("_1", or(cm, bol, b)), a), []string{"_1"}},
		{"(^|,)(a|b)", seq(capt("_1", or(bol, cm)), capt("_2", or(a, b))), []string{"_1", "_2"}},
		{"(a|b)($|,)", seq(capt("_1", or(a, b)), capt("_2", or(eol, cm))), []string{"_1", "_2"}},
		{"(^|[ab])a", seq(capt("_1", or(bol, gen.In{Items: []gen.ListItem{{Kind: "lit", S: "a"}, {Kind: "lit", S: "b"}}})), a), []string{"_1"}},
	}
	texts := allTexts("ab,\n", 4)[1:]
	var cases []*c14Case
	for _, x := range res {
		re := gen.Regex{Src: x.src, Tree: x.tree}
		p := &gen.Program{Commands: []gen.Command{{Amount: gen.Amount{Kind: "all"}, Body: []gen.Node{re}}}}
		rg := &gen.RegexGen{NGroups: len(x.names), Names: x.names, Named: len(x.names) == 1 && x.names[0] == "p"}
		cases = append(cases, &c14Case{rg, re, p, gen.RenderProgram(p), texts, nil})
	}
	r.Exec(len(cases), drv.ExecOpts{Batch: 3}, func(i int) *drv.Item {
		cs := cases[i]
		c := wire.Case{Op: "run", Src: []byte(cs.src), Texts: cs.texts, StepBudget: 400000}
		return &drv.Item{Case: c, Check: func(res *wire.Result) {
			before := r.NViolations()
			c14Check(r, cs, &c, res)
			if r.NViolations() == before {
				r.Count("regexes_with_an_anchor_as_alternation_operand", 1)
			}
		}}
	})
}

// c14LeadingStar: a regex that BEGINS with a capturing group whose body begins with `.*`, `.*?`, `a*` or `[ab]*` and
// that refers back to that group later: failing at one offset of a line says nothing about the later offsets of the
// line (the group may take less there). Ten regexes on every text over {a, b, -, newline} up to length 5; the
// reference matcher decides (back-references), Go's regexp where there are none.
func c14LeadingStar(r *drv.Run) {
	dot := gen.Lit{S: "\n", Not: true}
	a, b, dash := gen.Lit{S: "a"}, gen.Lit{S: "b"}, gen.Lit{S: "-"}
	ab := gen.In{Items: []gen.ListItem{{Kind: "lit", S: "a"}, {Kind: "lit", S: "b"}}}
	star := func(n gen.Node, lazy bool) gen.Node { return gen.Loop{Min: 0, Max: -1, Lazy: lazy, Body: n} }
	plus := func(n gen.Node) gen.Node { return gen.Loop{Min: 1, Max: -1, Body: n} }
	capt := func(name string, n ...gen.Node) gen.Node {
		return gen.Seq{Items: []gen.Node{gen.Capture{Name: name, Body: gen.Seq{Items: n}}}}
	}
	seq := func(n ...gen.Node) gen.Seq { return gen.Seq{Items: n} }
	ref := func(n string) gen.Node { return gen.BackRef{Name: n} }
	type rx struct {
		src   string
		tree  gen.Seq
		name  string
		bref  bool
		named bool
	}
	res := []rx{
		{"(.*)b\\1", seq(capt("_1", star(dot, false)), b, ref("_1")), "_1", true, false},
		{"(.*?)b\\1", seq(capt("_1", star(dot, true)), b, ref("_1")), "_1", true, false},
		{"(?<w>.*)-\\k<w>", seq(capt("w", star(dot, false)), dash, ref("w")), "w", true, true},
		{"(.*)-\\1-", seq(capt("_1", star(dot, false)), dash, ref("_1"), dash), "_1", true, false},
		{"(a*)b\\1", seq(capt("_1", star(a, false)), b, ref("_1")), "_1", true, false},
		{"([ab]*)-\\1", seq(capt("_1", star(ab, false)), dash, ref("_1")), "_1", true, false},
		{"(.*a)-\\1", seq(capt("_1", star(dot, false), a), dash, ref("_1")), "_1", true, false},
		{"(.+)b\\1", seq(capt("_1", plus(dot)), b, ref("_1")), "_1", true, false},
		{"(.*)b", seq(capt("_1", star(dot, false)), b), "_1", false, false},
		{"(.*?)-", seq(capt("_1", star(dot, true)), dash), "_1", false, false},
	}
	texts := allTexts("ab-\n", 5)[1:]
	var cases []*c14Case
	for _, x := range res {
		re := gen.Regex{Src: x.src, Tree: x.tree}
		p := &gen.Program{Commands: []gen.Command{{Amount: gen.Amount{Kind: "all"}, Body: []gen.Node{re}}}}
		rg := &gen.RegexGen{NGroups: 1, Names: []string{x.name}, Named: x.named, HasBackRef: x.bref}
		cases = append(cases, &c14Case{rg, re, p, gen.RenderProgram(p), texts, nil})
	}
	r.Exec(len(cases), drv.ExecOpts{Batch: 2}, func(i int) *drv.Item {
		cs := cases[i]
		c := wire.Case{Op: "run", Src: []byte(cs.src), Texts: cs.texts, StepBudget: 400000}
		return &drv.Item{Case: c, Check: func(res *wire.Result) {
			before := r.NViolations()
			c14Check(r, cs, &c, res)
			if r.NViolations() == before {
				r.Count("regexes_beginning_with_a_starred_group_that_is_referred_back_to", 1)
			}
		}}
	})
}
