package checks

import (
	"bytes"
	"encoding/json"
	"fmt"
	"os"
	"os/exec"
	"path/filepath"
	"reflect"
	"strings"
	"sync"
	"syscall"
	"unicode/utf8"

	"verifharness/drv"
	"verifharness/fsmon"
	"verifharness/gen"
	"verifharness/wire"
)

func init() { Registry["C18"] = C18 }

type c18Prog struct {
	name    string
	src     string
	replace bool
	fails   bool
}

var c18Progs = []c18Prog{
	{"find", "find all 'Hello, ' (at least 1 not whitespace) = name", false, false},
	{"replace", "replace all (at least 1 digit) = n with '<' n '>'", true, false},
	{"two-statements", "find all 'Hello'\nfind all at least 1 digit", false, false},
	{"failing", "find all 'unterminated", false, true},
	// escapes in literals travel unchanged through -com and -src: backslash-backslash-n is a backslash and an n
	{"escapes", "find all 'Ada\\\\n\\t' or \"100\\x25\" or 'caf\\xe9'", false, false},
}

var c18FileSets = []struct {
	name  string
	glob  string
	files []string
}{
	{"one-file", "HelloLilith.txt", []string{"HelloLilith.txt"}},
	{"several-by-glob", "*.txt", []string{"100%d.txt", "HelloLilith.txt", "numb-bers.txt", "numbers.txt", "other.txt"}},
	{"none-matching", "*.nothing", nil},
	// a star in the middle whose neighbours overlap in a shorter name: numbers.txt starts with "numb" and ends
	// with "bers.txt" but is too short to match
	{"star-in-the-middle", "numb*bers.txt", []string{"numb-bers.txt"}},
	{"in-a-subdirectory", "sub/*n*.txt", []string{"sub/inner.txt", "sub/nn.txt"}},
	// lnk is a symbolic link to sub: a wildcard directory segment goes through it like through a directory
	{"through-a-linked-directory", "l*/nn.txt", []string{"lnk/nn.txt"}},
}

// c18Real names the file behind a fixture name (lnk -> sub).
func c18Real(n string) string {
	if strings.HasPrefix(n, "lnk/") {
		return "sub/" + strings.TrimPrefix(n, "lnk/")
	}
	return n
}

var c18Contents = map[string]string{
	"HelloLilith.txt": "Hello, Lilith\nHello, \"World\" 42\nHello, 50%off%d%s 100%\n",
	"numbers.txt":     "7 and 1234 Hello, Ada\\n\tx 9%\n",
	"100%d.txt":       "Hello, percent%name 3\n",
	"other.txt":       "nothing to see <here>\nHello, caf\u00e9 na\u00efve \u20ac 7\nHello, \x01ctl\x7f\x0b\x07 8\nHello, bad\xffutf\xc3 9\nHello, \U000E0067tag\U0001D173 10\nHello, \\u003cb\\u003e\\u0026\\u2028\\n 12\n",
	"keep.dat":        "bystander 99 Hello, Nobody",
	"numb-bers.txt":   "Hello, Star 5\n",
	"sub/inner.txt":   "deep 12 Hello, Sub\n",
	"sub/nn.txt":      "Hello, N 8 and 9\n",
	"sub/other.dat":   "Hello, NotSelected 1\n",
	"sub/x.txt":       "Hello, NoLetterN... 2\n",
}

type c18Config struct {
	prog     int
	fileset  int
	out      string // "" "json" "formatted-json"
	jsonFile bool
	fjFile   bool
	mode     string // "" NEW NOTHING OVERWRITE
	noOutput bool
	viaSrc   bool
}

func (c c18Config) String() string {
	return fmt.Sprintf("prog=%s files=%s out=%q json-file=%v formatted-json-file=%v mode=%q no-output=%v src-file=%v",
		c18Progs[c.prog].name, c18FileSets[c.fileset].name, c.out, c.jsonFile, c.fjFile, c.mode, c.noOutput, c.viaSrc)
}

func c18Populate(dir string) {
	os.MkdirAll(dir, 0o755)
	for n, s := range c18Contents {
		os.MkdirAll(filepath.Dir(filepath.Join(dir, n)), 0o755)
		os.WriteFile(filepath.Join(dir, n), []byte(s), 0o644)
	}
	os.Symlink("sub", filepath.Join(dir, "lnk"))
}

func stripDir(v any, dir string) any {
	switch x := v.(type) {
	case []any:
		for i := range x {
			x[i] = stripDir(x[i], dir)
		}
	case map[string]any:
		if f, ok := x["filename"].(string); ok {
			x["filename"] = strings.TrimPrefix(filepath.Clean(f), dir+"/") // an absolute pattern yields //dir/name: the same file
		}
	}
	return v
}

func C18(r *drv.Run) {
	r.BuildWorker()
	r.BuildCLI()
	r.Rule = "the built vore binary in scratch directories over the cross product {-com, -src} x 6 file sets (one file, several by glob, none matching, a glob with the star in the middle of a name, a glob into a sub-directory, a wildcard directory segment that selects a symbolic link to a directory) x {none, -json, -formatted-json} x {-json-file} x {-formatted-json-file} x {default, NEW, NOTHING, OVERWRITE} x {-no-output} x {find, replace, two statements, failing program, literals with escapes} (thorough: all 5 760; quick: a seed-selected 600) plus 14 invalid invocations and 19 unknown mode names (other letter cases, near misses, the engine's internal fourth mode CONFIRM, numbers, lists) each with a find and a replace program; a fifth of the -src invocations with the program arriving through a named pipe, a third of the invocations with longer JSON output files left over from an earlier run, a quarter with the -files pattern made absolute, a sixth in a hostile environment (TMPDIR naming a missing directory, HOME missing, an unknown locale, PWD lying), an eighth started from the root directory with a relative pattern leading into the scratch directory, two thirds with their flag groups in a seed-chosen order and spelling (-flag value, --flag value, -flag=value). Three invocations that run for a while (one file of 16 MiB, thorough 64 MiB: ten to forty seconds of search) under -json, -formatted-json and -no-output: standard output is the one document, or empty. Sixteen invocations with -replace-mode given twice (every ordered pair of NOTHING, NEW, OVERWRITE and the empty value, three flag spellings, sometimes with a stale output file): the mode given last is in force, the empty value meaning NEW. A rename through -filenames under every replace mode, with and without -no-output: the directory afterwards is the one the plain invocation leaves. Three file-name searches under every replace mode and over files that hold nothing (one, two, all of them empty): the document is the one the default mode gives over files with content. Eight invocations with the flag -filenames (two find programs, two replace programs whose rename cannot be done) under -json and -formatted-json: standard output is one JSON document whose matches lie in the names of the selected files. Oracle: exit status; stdout under -json/-formatted-json is exactly one JSON document equal (after decoding) to the library's result for the same program and files, computed by a worker through RunFiles; the named JSON files likewise; replace mode honoured with NEW as default and outputs equal to the splice (directory snapshot before/after); invalid invocations, unknown modes and compile errors exit non-zero with a message and an empty snapshot diff. Non-trivial = invocation with >= 1 match whose JSON/stdout/file effects were all verified; distinct by configuration."
	r.Assumptions = []string{
		"with -no-output only exit status and file effects of the replace mode are demanded (the documentation does not say whether JSON files are still written)",
		"zero matches / no files: exit 0 and no JSON demanded (the property's 'when there is at least one match')",
	}
	// phase 1: the library's own results per (program, file set), file names relative to the directory
	tmpl := filepath.Join(r.WorkDir, "c18-template")
	c18Populate(tmpl)
	type key struct{ p, f int }
	lib := map[key][]wire.Match{}
	libStr := map[key][][]wire.Match{}
	var mu sync.Mutex
	var keys []key
	for p := range c18Progs {
		if c18Progs[p].fails {
			continue
		}
		for f := range c18FileSets {
			if len(c18FileSets[f].files) > 0 {
				keys = append(keys, key{p, f})
			}
		}
	}
	r.Exec(len(keys), drv.ExecOpts{Batch: 1}, func(i int) *drv.Item {
		k := keys[i]
		var paths []string
		var texts [][]byte
		for _, n := range c18FileSets[k.f].files {
			paths = append(paths, filepath.Join(tmpl, n))
			texts = append(texts, []byte(c18Contents[c18Real(n)]))
		}
		c := wire.Case{Op: "runfiles", Src: []byte(c18Progs[k.p].src), Files: paths, Mode: "NOTHING", Texts: texts}
		return &drv.Item{Case: c, Check: func(res *wire.Result) {
			if res.Died || res.Panic != nil || res.Compile == nil || !res.Compile.OK || len(res.Runs) < 1 || res.Runs[0].Panic != nil {
				r.Inconclusive("library run for the expected result failed")
				return
			}
			ms := res.Runs[0].Matches
			for j := range ms {
				ms[j].File = strings.TrimPrefix(ms[j].File, tmpl+"/")
			}
			mu.Lock()
			lib[k] = ms
			var per [][]wire.Match
			for j := 1; j < len(res.Runs); j++ {
				per = append(per, res.Runs[j].Matches)
			}
			libStr[k] = per
			mu.Unlock()
		}}
	})
	// phase 2: configurations
	var cfgs []c18Config
	for _, viaSrc := range []bool{false, true} {
		for f := range c18FileSets {
			for _, out := range []string{"", "json", "formatted-json"} {
				for _, jf := range []bool{false, true} {
					for _, fj := range []bool{false, true} {
						for _, mode := range []string{"", "NEW", "NOTHING", "OVERWRITE"} {
							for _, no := range []bool{false, true} {
								for p := range c18Progs {
									cfgs = append(cfgs, c18Config{p, f, out, jf, fj, mode, no, viaSrc})
								}
							}
						}
					}
				}
			}
		}
	}
	r.Extra["cross_product_size"] = len(cfgs)
	if quick(r) {
		rng := gen.Derive(r.Seed, "C18", 0)
		for i := len(cfgs) - 1; i > 0; i-- {
			j := rng.Intn(i + 1)
			cfgs[i], cfgs[j] = cfgs[j], cfgs[i]
		}
		cfgs = cfgs[:600]
	} else {
		r.Exhaustive = true
	}
	var wg sync.WaitGroup
	sem := make(chan struct{}, 12)
	for i, cfg := range cfgs {
		if r.Aborted() {
			break
		}
		wg.Add(1)
		sem <- struct{}{}
		go func(i int, cfg c18Config) {
			defer wg.Done()
			defer func() { <-sem }()
			k := key{cfg.prog, cfg.fileset}
			c18Run(r, i, cfg, lib[k], libStr[k])
		}(i, cfg)
	}
	wg.Wait()
	c18Invalid(r)
	c18Filenames(r)
	c18RepeatedMode(r)
	c18Slow(r)
	if r.NViolations() == 0 {
		for _, k := range []string{"stdout_json_verified", "json_file_verified", "formatted_json_file_verified", "replace_mode_effects_verified", "failing_program_rejected", "invalid_invocations_rejected", "src_file_invocations"} {
			if r.Counter(k) == 0 {
				r.Inconclusive("coverage floor: " + k + " = 0")
			}
		}
	}
}

func runCLI(bin, dir string, args []string) (code int, stdout, stderr string) {
	return runCLIEnv(bin, dir, args, nil)
}

// runCLIEnv: env entries replace those of the same name in the harness's environment
func runCLIEnv(bin, dir string, args []string, env []string) (code int, stdout, stderr string) {
	cmd := exec.Command(bin, args...)
	cmd.Dir = dir
	if env != nil {
		over := map[string]bool{}
		for _, e := range env {
			over[strings.SplitN(e, "=", 2)[0]] = true
		}
		for _, e := range os.Environ() {
			if !over[strings.SplitN(e, "=", 2)[0]] {
				cmd.Env = append(cmd.Env, e)
			}
		}
		cmd.Env = append(cmd.Env, env...)
	}
	var so, se bytes.Buffer
	cmd.Stdout, cmd.Stderr = &so, &se
	err := cmd.Run()
	code = 0
	if err != nil {
		if ee, ok := err.(*exec.ExitError); ok {
			code = ee.ExitCode()
		} else {
			code = -1
		}
	}
	return code, so.String(), se.String()
}

func c18Run(r *drv.Run, i int, cfg c18Config, lib []wire.Match, libStr [][]wire.Match) {
	dir := filepath.Join(r.WorkDir, "c18", fmt.Sprint(i))
	c18Populate(dir)
	defer os.RemoveAll(dir)
	prog := c18Progs[cfg.prog]
	fs := c18FileSets[cfg.fileset]
	if i%3 == 1 {
		// output files left over from an earlier, longer run: what the tool writes replaces them entirely
		stale := strings.Repeat("[{\"stale\": \"from an earlier run\"}, 1, 2, 3]\n", 400)
		os.WriteFile(filepath.Join(dir, "out.json"), []byte(stale), 0o644)
		os.WriteFile(filepath.Join(dir, "out.formatted.json"), []byte(stale), 0o600)
		r.Count("invocations_with_stale_json_outputs", 1)
	}
	var args []string
	if cfg.viaSrc {
		body := prog.src
		if i%2 == 0 {
			// a source file longer than the reader's 4096-byte buffer, the program straddling the boundary
			body = "--(" + strings.Repeat("c", 4096-8-len(prog.src)/2) + ")--\n" + prog.src
			r.Count("src_files_over_4096_bytes", 1)
		}
		if i%5 == 4 && syscall.Mkfifo(filepath.Join(dir, "prog.vore"), 0o644) == nil {
			// the program arrives through a named pipe (what `-src <(generator)` gives the tool): Stat says size 0
			go func(p string, data []byte) {
				if f, err := os.OpenFile(p, os.O_WRONLY, 0); err == nil {
					f.Write(data)
					f.Close()
				}
			}(filepath.Join(dir, "prog.vore"), []byte(body))
			r.Count("src_through_a_named_pipe", 1)
		} else {
			os.WriteFile(filepath.Join(dir, "prog.vore"), []byte(body), 0o644)
		}
		args = append(args, "-src", "prog.vore")
		if i%8 == 5 {
			args[len(args)-1] = filepath.Join(dir, "prog.vore")
		}
	} else {
		args = append(args, "-com", prog.src)
	}
	glob := fs.glob
	if i%4 == 3 {
		glob = dir + "/" + glob // the same selection spelled as an absolute pattern
		r.Count("invocations_with_absolute_files_pattern", 1)
	}
	// started from the ROOT directory with a relative pattern that leads into the scratch directory (every other path of
	// the invocation absolute): the working directory is where relative patterns start, whichever directory it is
	fromRoot := i%8 == 5
	cwd := dir
	jsonOut, fjsonOut := "out.json", "out.formatted.json"
	if fromRoot {
		cwd = "/"
		glob = strings.TrimPrefix(dir, "/") + "/" + fs.glob
		jsonOut, fjsonOut = filepath.Join(dir, jsonOut), filepath.Join(dir, fjsonOut)
		r.Count("invocations_started_from_the_root_directory", 1)
	}
	args = append(args, "-files", glob)
	if cfg.out != "" {
		args = append(args, "-"+cfg.out)
	}
	if cfg.jsonFile {
		args = append(args, "-json-file", jsonOut)
	}
	if cfg.fjFile {
		args = append(args, "-formatted-json-file", fjsonOut)
	}
	if cfg.mode != "" {
		args = append(args, "-replace-mode", cfg.mode)
	}
	if cfg.noOutput {
		args = append(args, "-no-output")
	}
	// the same invocation in another argument order and spelling (-flag value, --flag value, -flag=value): every
	// flag group keeps its value, nothing else may matter
	if i%3 != 0 {
		rng := gen.Derive(r.Seed, "C18args", i)
		var groups [][]string
		for k := 0; k < len(args); k++ {
			g := []string{args[k]}
			if k+1 < len(args) && !strings.HasPrefix(args[k+1], "-") && args[k] != "-json" && args[k] != "-formatted-json" && args[k] != "-no-output" {
				g = append(g, args[k+1])
				k++
			}
			groups = append(groups, g)
		}
		for k := len(groups) - 1; k > 0; k-- {
			j := rng.Intn(k + 1)
			groups[k], groups[j] = groups[j], groups[k]
		}
		args = nil
		for _, g := range groups {
			switch rng.Intn(3) {
			case 1:
				g[0] = "-" + g[0]
			case 2:
				if len(g) == 2 {
					g = []string{g[0] + "=" + g[1]}
				} else {
					g = []string{g[0] + "=true"}
				}
			}
			args = append(args, g...)
		}
		r.Count("invocations_with_shuffled_respelled_arguments", 1)
	}
	before := fsmon.Take(dir)
	// a sixth of the invocations in a hostile ENVIRONMENT: no usable temporary directory, no home, an unknown locale, a
	// terminal type and colour wishes - none of which a search has any business with
	var env []string
	if i%6 == 2 {
		env = []string{"TMPDIR=" + filepath.Join(dir, "no-such-directory"), "HOME=/nonexistent-home", "LANG=xx_XX.UTF-8", "LC_ALL=xx_XX", "TERM=dumb", "NO_COLOR=1", "GOMAXPROCS=1", "PWD=/somewhere/else"}
		r.Count("invocations_in_a_hostile_environment", 1)
	}
	code, stdout, stderr := runCLIEnv(r.CLIBin, cwd, args, env)
	after := fsmon.Take(dir)
	diff := fsmon.Diff(before, after)
	r.Eval(1)
	if cfg.viaSrc {
		r.Count("src_file_invocations", 1)
	}
	viol := func(sig string, d map[string]any) {
		if d == nil {
			d = map[string]any{}
		}
		d["config"] = cfg.String()
		d["args"] = fmt.Sprint(args)
		d["exit"] = code
		d["stdout"] = oneLineN(stdout, 300)
		d["stderr"] = oneLineN(stderr, 300)
		r.Violate(&drv.Violation{Sig: sig, Src: prog.src, Detail: d})
	}
	if strings.Contains(stderr, "panic:") || strings.Contains(stderr, "goroutine ") {
		viol("cli-panicked", nil)
		return
	}
	if prog.fails {
		if code == 0 {
			viol("compile-error-exit-0", nil)
			return
		}
		if strings.TrimSpace(stdout+stderr) == "" {
			viol("compile-error-without-message", nil)
			return
		}
		if len(diff) != 0 {
			viol("compile-error-modified-files", map[string]any{"changes": fmt.Sprint(diff)})
			return
		}
		r.Count("failing_program_rejected", 1)
		return
	}
	if code != 0 {
		viol("documented-invocation-exits-nonzero", nil)
		return
	}
	// file effects
	allowed := map[string]bool{}
	eff := cfg.mode
	if eff == "" {
		eff = "NEW"
	}
	if prog.replace {
		for _, n := range fs.files {
			if eff == "NEW" {
				allowed[c18Real(n)+".vored"] = true
			} else if eff == "OVERWRITE" {
				allowed[c18Real(n)] = true
			}
		}
	}
	hasMatches := len(lib) > 0
	if hasMatches && !cfg.noOutput {
		if cfg.jsonFile {
			allowed["out.json"] = true
		}
		if cfg.fjFile {
			allowed["out.formatted.json"] = true
		}
	}
	if cfg.noOutput {
		// left open: the JSON files may or may not be written
		for _, ch := range diff {
			if ch.Path == "out.json" || ch.Path == "out.formatted.json" {
				allowed[ch.Path] = true
			}
		}
	}
	for _, ch := range diff {
		if !allowed[ch.Path] {
			viol("touched-unexpected-file", map[string]any{"change": ch.String(), "all": fmt.Sprint(diff)})
			return
		}
	}
	if prog.replace && eff != "NOTHING" && len(fs.files) > 0 {
		for fi, n := range fs.files {
			want, ok := splice([]byte(c18Contents[c18Real(n)]), libStr[fi])
			if !ok {
				continue
			}
			target := n
			if eff == "NEW" {
				target = n + ".vored"
			}
			got, err := os.ReadFile(filepath.Join(dir, target))
			if err != nil || !bytes.Equal(got, want) {
				viol("replace-output-wrong:"+eff, map[string]any{"file": target, "expected": oneLineN(string(want), 120), "observed": oneLineN(string(got), 120)})
				return
			}
			if eff == "NEW" {
				src, _ := os.ReadFile(filepath.Join(dir, n))
				if string(src) != c18Contents[c18Real(n)] {
					viol("NEW-changed-source", map[string]any{"file": n})
					return
				}
			}
		}
		r.Count("replace_mode_effects_verified", 1)
	}
	if cfg.noOutput || !hasMatches {
		r.Count("exit0_only_configs", 1)
		return
	}
	// expected document
	var want []any
	for k := range lib {
		want = append(want, expectedObj(&lib[k], lib[k].HasRepl))
	}
	checkDoc := func(raw []byte, what string) bool {
		dec := json.NewDecoder(bytes.NewReader(raw))
		var doc any
		if err := dec.Decode(&doc); err != nil {
			viol(what+"-is-not-json", map[string]any{"error": err.Error(), "content": oneLineN(string(raw), 200)})
			return false
		}
		var extra any
		if err := dec.Decode(&extra); err == nil || dec.More() {
			viol(what+"-has-more-than-one-document", map[string]any{"content": oneLineN(string(raw), 200)})
			return false
		}
		// nothing but whitespace may precede the document either: Decode skips only whitespace, so a
		// leading non-JSON line already failed above
		doc = stripDir(doc, dir)
		if !docEqual(doc, any(want)) {
			gb, _ := json.Marshal(doc)
			wb, _ := json.Marshal(want)
			viol(what+"-differs-from-library-result", map[string]any{"observed": oneLineN(string(gb), 300), "expected": oneLineN(string(wb), 300)})
			return false
		}
		return true
	}
	ok := true
	if cfg.out != "" {
		if checkDoc([]byte(stdout), "stdout") {
			r.Count("stdout_json_verified", 1)
		} else {
			ok = false
		}
	}
	if cfg.jsonFile {
		b, err := os.ReadFile(filepath.Join(dir, "out.json"))
		if err != nil {
			viol("json-file-missing", nil)
			ok = false
		} else if checkDoc(b, "json-file") {
			r.Count("json_file_verified", 1)
		} else {
			ok = false
		}
	}
	if cfg.fjFile {
		b, err := os.ReadFile(filepath.Join(dir, "out.formatted.json"))
		if err != nil {
			viol("formatted-json-file-missing", nil)
			ok = false
		} else if checkDoc(b, "formatted-json-file") {
			r.Count("formatted_json_file_verified", 1)
		} else {
			ok = false
		}
	}
	if ok {
		r.Nontrivial(cfg.String())
		if i%37 == 0 {
			r.Sample(map[string]any{"args": fmt.Sprint(args), "exit": code, "stdout": oneLineN(stdout, 160)})
		}
	}
}

func c18Invalid(r *drv.Run) {
	cases := [][]string{
		{"-com", "find all 'a'", "-src", "prog.vore", "-files", "*.txt"},
		{"-files", "*.txt"},
		{"-com", "find all 'a'"},
		{"-com", "find all 'a'", "-files", "*.txt", "-json", "-formatted-json"},
		{"-com", "find all 'a'", "-files", "*.txt", "-replace-mode", "SOMETIMES"},
		{"-com", "replace all 'a' with 'b'", "-files", "*.txt", "-replace-mode", "overwrite"},
		{"-com", "find all 'a", "-files", "*.txt"},
		{"-com", "find all @/(a/", "-files", "*.txt", "-json"},
		{"-com", "replace all 'a' with", "-files", "*.txt", "-replace-mode", "OVERWRITE"},
		{"-com", "set f to transform return true end replace all 'a' with f", "-files", "*.txt", "-replace-mode", "OVERWRITE"},
		{"-src", "does-not-exist.vore", "-files", "*.txt"},
		{"-com", "find all 'a'", "-files", "*.txt", "-no-such-flag"},
		{"-com", "find all 'a' --(", "-files", "*.txt", "-json-file", "out.json"},
		{},
	}
	// every mode name but the three documented ones is unknown: other cases, near misses, the engine's internal
	// fourth mode, the numeric values of the enumeration, lists
	for _, m := range []string{"CONFIRM", "confirm", "Overwrite", "new", "nothing", "NEW ", " NEW", "NEWER", "OVER", "ASK", "APPEND", "DRYRUN", "0", "1", "2", "3", "NEW,OVERWRITE", "OVERWRITE\n", "-"} {
		cases = append(cases, []string{"-com", "find all 'Hello'", "-files", "*.txt", "-replace-mode", m},
			[]string{"-com", "replace all 'Hello' with 'Bye'", "-files", "*.txt", "-json", "-replace-mode=" + m})
	}
	for i, args := range cases {
		dir := filepath.Join(r.WorkDir, "c18", fmt.Sprintf("inv%d", i))
		c18Populate(dir)
		os.WriteFile(filepath.Join(dir, "prog.vore"), []byte("find all 'a'"), 0o644)
		before := fsmon.Take(dir)
		code, stdout, stderr := runCLI(r.CLIBin, dir, args)
		diff := fsmon.Diff(before, fsmon.Take(dir))
		r.Eval(1)
		d := map[string]any{"args": fmt.Sprint(args), "exit": code, "stdout": oneLineN(stdout, 200), "stderr": oneLineN(stderr, 200)}
		switch {
		case strings.Contains(stderr, "panic:"):
			r.Violate(&drv.Violation{Sig: "cli-panicked-on-invalid-invocation", Detail: d})
		case code == 0:
			r.Violate(&drv.Violation{Sig: "invalid-invocation-exits-0", Detail: d})
		case strings.TrimSpace(stdout+stderr) == "":
			r.Violate(&drv.Violation{Sig: "invalid-invocation-without-message", Detail: d})
		case len(diff) != 0:
			d["changes"] = fmt.Sprint(diff)
			r.Violate(&drv.Violation{Sig: "invalid-invocation-modified-files", Detail: d})
		default:
			r.Count("invalid_invocations_rejected", 1)
			r.Nontrivial("invalid:" + fmt.Sprint(args))
		}
		os.RemoveAll(dir)
	}
}

// docEqual: deep equality of decoded JSON documents, except that a string which is not valid UTF-8 in memory
// (JSON cannot carry it unchanged; how it is coerced is the encoder's business, C17) matches any string.
func docEqual(got, want any) bool {
	switch w := want.(type) {
	case string:
		g, ok := got.(string)
		if !ok {
			return false
		}
		return g == w || !utf8.ValidString(w)
	case []any:
		g, ok := got.([]any)
		if !ok || len(g) != len(w) {
			return false
		}
		for i := range w {
			if !docEqual(g[i], w[i]) {
				return false
			}
		}
		return true
	case map[string]any:
		g, ok := got.(map[string]any)
		if !ok || len(g) != len(w) {
			return false
		}
		for k, wv := range w {
			gv, ok := g[k]
			if !ok || !docEqual(gv, wv) {
				return false
			}
		}
		return true
	}
	return reflect.DeepEqual(got, want)
}
