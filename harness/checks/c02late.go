package checks

import (
	"bytes"
	"fmt"

	"verifharness/drv"
	"verifharness/wire"
)

// c02Late: a SHORT capture that begins far into a long match - behind a first line of 100 .. 131 073 bytes taken by one
// `whole line` (lengths on both sides of 4 096 and 65 536): `line start whole line <LF> (at least 1 letter) = x '-' x`
// on a text whose second line is `ab-ab`, `ab-abc`, `ab-ba`. The binding is the two letters, wherever in the match it
// begins; the back-reference decides the match.
func c02Late(r *drv.Run) {
	src := "find all line start whole line '\\n' (at least 1 letter) = x '-' x"
	sizes := []int{100, 4095, 4096, 4097, 65533, 65534, 65535, 65536, 65537, 70000, 131073}
	type job struct {
		n      int
		second string
		match  int // length of what is matched of the second line (0: no match)
	}
	var jobs []job
	for _, n := range sizes {
		jobs = append(jobs, job{n, "ab-ab", 5}, job{n, "ab-abc", 5}, job{n, "ab-ba", 0}, job{n, "q-q q", 3})
	}
	r.Exec(len(jobs), drv.ExecOpts{Batch: 4, Env: []string{"VW_RSS_LIMIT_MB=6000", "VW_CPU_LIMIT_S=240"}}, func(i int) *drv.Item {
		jb := jobs[i]
		text := append(bytes.Repeat([]byte("0123456789 .,;:!"), jb.n/16+1)[:jb.n], '\n')
		text = append(text, jb.second...)
		c := wire.Case{Op: "run", Src: []byte(src), Texts: [][]byte{text}, StepBudget: 2_000_000}
		return &drv.Item{Case: c, Check: func(res *wire.Result) {
			if crashOrGuard(r, res, &c, src, false) {
				return
			}
			if compileTrouble(r, res, &c, src, false) {
				return
			}
			if len(res.Runs) < 1 {
				r.Inconclusive("short result")
				return
			}
			run := &res.Runs[0]
			r.Eval(1)
			if runTrouble(r, run, &c, src, nil, false) {
				return
			}
			bad := func(what string) {
				r.Violate(&drv.Violation{Sig: "capture-that-begins-far-into-the-match", Src: src, Case: &c,
					Detail: map[string]any{"bytes_of_the_match_in_front_of_the_capture": jb.n + 1, "second_line": jb.second, "difference": what}})
			}
			if jb.match == 0 {
				if len(run.Matches) != 0 {
					bad(fmt.Sprintf("%d matches, expected none", len(run.Matches)))
					return
				}
				r.Count("late_captures_verified", 1)
				return
			}
			if len(run.Matches) != 1 || run.Matches[0].S != 0 || run.Matches[0].E != jb.n+1+jb.match {
				bad(fmt.Sprintf("%s, expected one match [0,%d)", fmtGotN(run.Matches), jb.n+1+jb.match))
				return
			}
			want := jb.second[:(jb.match-1)/2]
			if x := flatVars(run.Matches[0].Vars)["x"]; x != want {
				if len(x) > 40 {
					x = fmt.Sprintf("%s... (%d bytes)", x[:40], len(x))
				}
				bad(fmt.Sprintf("x is bound to %q, expected %q", x, want))
				return
			}
			r.Count("late_captures_verified", 1)
			r.Nontrivial(fmt.Sprintf("late|%d|%s", jb.n, jb.second))
		}}
	})
}
