package checks

import (
	"fmt"
	"sort"
	"strings"

	"verifharness/drv"
	"verifharness/gen"
	"verifharness/wire"
)

func init() { Registry["C16"] = C16 }

var namedEsc = map[byte]byte{'\n': 'n', '\t': 't', '\r': 'r', 7: 'a', 8: 'b', 12: 'f', 11: 'v'}

func isHexByte(c byte) bool {
	return (c >= '0' && c <= '9') || (c >= 'a' && c <= 'f') || (c >= 'A' && c <= 'F')
}

// spellings of one byte inside a literal delimited by quote q; next is the byte that follows
// in the literal (matters only for raw/backslash-x ambiguity, which the harness avoids).
func spellings(c byte, q byte) map[string]string {
	out := map[string]string{}
	if c != q && c != '\\' {
		out["raw"] = string([]byte{c})
	}
	switch c {
	case 'n', 't', 'r', 'a', 'b', 'f', 'v', 'x':
		// backslash + this letter means something else
	default:
		out["backslash-char"] = "\\" + string([]byte{c})
	}
	if e, ok := namedEsc[c]; ok {
		out["named"] = "\\" + string([]byte{e})
	}
	out["hex-upper"] = fmt.Sprintf("\\x%02X", c)
	out["hex-lower"] = fmt.Sprintf("\\x%02x", c)
	return out
}

type c16Case struct {
	lit   string // the literal as written, with quotes
	bytes string // what it denotes
	label string
	lo    int // near misses only substitute positions lo <= pos < hi of bytes (hi == 0: to the end)
	hi    int
}

func C16(r *drv.Run) {
	r.BuildWorker()
	nrand := 15000
	if !quick(r) {
		nrand = 400000
	}
	r.Rule = "literals that denote 65 535 .. 131 073 bytes (both sides of 2^16 and 2^17, content without a period, raw and with escapes): each matches its own text whole and none of eight texts that differ from it in one byte; sixteen goroutines compiling literals of 300 hex escapes at the same time, each its own letter, 25 times over, every call compared with the same call made alone; caseless literals: all 127 x 127 pairs of literal byte and text byte (a caseless literal matches the other case of a letter and nothing else); long literals of one byte repeated 10..257 times in each of its spellings, alone and alternating with a letter (eleven lines, forty tabs, 257 quotes); exhaustive: the NUL byte through its hex escape (alone, embedded, doubled, next to digits and to seven other bytes in every spelling) and every byte 0x01..0x7f in every spelling it has (raw, backslash+char, named escape, \\xHH, \\xhh) in both quote styles, alone, embedded between two other bytes, and as every ordered pair of 22 special bytes (CR, LF, tab, blank, both quotes, backslash, x, hex digits, controls, punctuation) in every combination of spellings; malformed \\x followed by 0, 1 or 2 hex digits and EVERY two-character continuation over 0x01..0x7f (control bytes included) that is not a hex pair (must keep all following characters); every backslash+char spelling followed by raw hex digits (stays that character and the digits); literals whose 32-bit hash (CRC-32 IEEE and Castagnoli, FNV-1, FNV-1a, Adler-32, times-31, djb2, sdbm) equals that of a word in front of them in the source or of another literal of the same command; every keyword of the language as a literal of its own (lower, UPPER, Capitalised; raw, first letter as hex escape, backslash before the second letter; alone, behind another literal, in a group); every keyword of the language (both letter cases) and phrases such as `caseless #`, `0 to 9`, `WS` as a string item of an `in` list behind a class, a range, a caseless item and another string; pairs of literals written back to back without a blank, in the same and in the other quote style; every letter in every spelling inside a group directly before and after a caseless literal (the other case must not match); seeded random ASCII strings (length 1..8) with a random spelling per byte; a third of all cases compiled right after near-duplicates of themselves (blank runs doubled or halved, letters in the other case) in the same process. The harness composes the denoted bytes b and the spelling, so it knows both. The command line tool: every pair literal that holds a backslash pair or a control byte before an escape letter, and a seed-chosen sample of the others, handed over as -com argument (two thirds) and as -src file (one third), searching a file that holds the denoted bytes and one near miss per position: the JSON output lists exactly the occurrences of the denoted bytes. Oracle: `find all <literal>` on b reports exactly [0,len b); on every one-byte substitution of b (neighbour values, case flip, 3 random bytes per position) it reports nothing of that span. Non-trivial = every distinct literal spelling verified on b and on its near misses."
	r.Assumptions = []string{"ASCII bytes 0x00..0x7f (NUL only through its hex escape: a raw NUL cannot stand in a source); the lexer writes \\x80..\\xff as two-byte runes"}
	var cases []c16Case
	for _, q := range []byte{'\'', '"'} {
		for c := byte(1); c < 0x80; c++ {
			for name, sp := range spellings(c, q) {
				cases = append(cases, c16Case{lit: string(q) + sp + string(q), bytes: string([]byte{c}), label: "single:" + name})
				// embedded; a raw hex digit must not directly follow a \x escape of fewer digits (none here: always 2)
				cases = append(cases, c16Case{lit: string(q) + "k" + sp + "z" + string(q), bytes: "k" + string([]byte{c}) + "z", label: "embedded:" + name})
			}
		}
		// the NUL byte has one spelling, the hex escape (a complete escape whose value happens to be zero)
		for _, sp := range []string{"\\x00"} {
			cases = append(cases, c16Case{lit: string(q) + sp + string(q), bytes: "\x00", label: "nul:single"})
			cases = append(cases, c16Case{lit: string(q) + "a" + sp + "b" + string(q), bytes: "a\x00b", label: "nul:embedded"})
			cases = append(cases, c16Case{lit: string(q) + sp + sp + string(q), bytes: "\x00\x00", label: "nul:twice"})
			cases = append(cases, c16Case{lit: string(q) + sp + "0" + string(q), bytes: "\x000", label: "nul:then-digit"})
			cases = append(cases, c16Case{lit: string(q) + "x00" + sp + string(q), bytes: "x00\x00", label: "nul:after-its-own-digits"})
			for _, c2 := range []byte{'\n', '\\', 'x', '0', 'A', 0x01, 0x7f} {
				for n2, s2 := range spellings(c2, q) {
					cases = append(cases, c16Case{lit: string(q) + sp + s2 + string(q), bytes: "\x00" + string([]byte{c2}), label: "nul:pair+" + n2})
					cases = append(cases, c16Case{lit: string(q) + s2 + sp + string(q), bytes: string([]byte{c2}) + "\x00", label: "nul:pair+" + n2})
				}
			}
		}
		// long literals made of one byte repeated 10 .. 257 times in one spelling, alone and alternating with a letter
		// (eleven lines, forty tabs, 257 quotes ...): what a spelling means does not depend on how often it occurred
		for _, c := range []byte{'\n', '\r', '\t', '\\', '\'', '"', ' ', 'x', 0x01, '-'} {
			for _, n := range []int{10, 11, 12, 40, 100, 257} {
				for name, sp := range spellings(c, q) {
					cases = append(cases, c16Case{lit: string(q) + strings.Repeat(sp, n) + "z" + string(q), bytes: strings.Repeat(string([]byte{c}), n) + "z", label: fmt.Sprintf("repeated:%s:%d", name, n), lo: n - 2})
					cases = append(cases, c16Case{lit: string(q) + strings.Repeat(sp+"k", n) + string(q), bytes: strings.Repeat(string([]byte{c})+"k", n), label: fmt.Sprintf("repeated-alternating:%s:%d", name, n), lo: 2*n - 3})
				}
			}
		}
		// every ordered pair of "interesting" bytes in every combination of spellings: what one byte's
		// spelling does must not depend on its neighbour (CR LF, quote after backslash, x after backslash ...)
		special := []byte{'\r', '\n', '\t', ' ', '\'', '"', '\\', 'x', '4', 'a', 'f', 'A', 'n', 0x01, 0x0b, 0x7f, '-', '+', '/', '@', '(', ')'}
		for _, c1 := range special {
			for _, c2 := range special {
				for n1, s1 := range spellings(c1, q) {
					for n2, s2 := range spellings(c2, q) {
						cases = append(cases, c16Case{lit: string(q) + s1 + s2 + string(q), bytes: string([]byte{c1, c2}), label: "pair:" + n1 + "+" + n2})
					}
				}
			}
		}
		// malformed \x
		followers := []string{"", "Z", "g", " ", "-", "4", "4Z", "4g", "f", "fZ", "ZZ", "Z4", "x41", "\\\\", "\\n"}
		// every printable two-character continuation that is not a hex pair keeps both characters
		for c1 := byte(0x01); c1 <= 0x7f; c1++ {
			for c2 := byte(0x01); c2 <= 0x7f; c2++ {
				if c1 == q || c2 == q || c1 == '\\' || c2 == '\\' || (isHexByte(c1) && isHexByte(c2)) {
					continue
				}
				if _, ok := spellings(c1, q)["raw"]; !ok {
					continue
				}
				if _, ok := spellings(c2, q)["raw"]; !ok {
					continue
				}
				cases = append(cases, c16Case{lit: string(q) + "\\x" + string([]byte{c1, c2}) + string(q), bytes: "x" + string([]byte{c1, c2}), label: "malformed-hex-pair"})
			}
		}
		// a backslash before any other character means that character, whatever follows: two raw hex digits after it
		// stay two characters (only a lower-case x introduces a hex escape)
		for c := byte(1); c < 0x80; c++ {
			sp, ok := spellings(c, q)["backslash-char"]
			if !ok || c == 'x' {
				continue
			}
			for _, hx := range []string{"41", "6a", "FF", "0g", "7"} {
				cases = append(cases, c16Case{lit: string(q) + sp + hx + string(q), bytes: string([]byte{c}) + hx, label: "backslash-char-then-hex-digits"})
			}
		}
		for _, f := range followers {
			lit := string(q) + "\\x" + f + string(q)
			den := "x" + f
			den = strings.ReplaceAll(den, "\\\\", "\\")
			den = strings.ReplaceAll(den, "\\n", "\n")
			if f == "x41" {
				den = "xx41"
			}
			cases = append(cases, c16Case{lit: lit, bytes: den, label: "malformed-hex"})
			cases = append(cases, c16Case{lit: string(q) + "a\\x" + f + string(q), bytes: "a" + den, label: "malformed-hex"})
		}
	}
	// literals as items of an `in` list, behind items of other kinds, spelling words of the language itself and the
	// phrases a listing of such items would print: an item is a string, never a description of another item
	words := []string{"WS", "caseless #", "0 to 9", "# to #", "in digit", "not digit", "digit,", "'#'", "\"#\""}
	for k := range gen.Keywords {
		words = append(words, k, strings.ToUpper(k))
	}
	sort.Strings(words)
	for wi, w := range words {
		q := []byte{'\'', '"'}[wi%2]
		if strings.IndexByte(w, q) >= 0 {
			q ^= '\'' ^ '"'
		}
		lit := string(q) + w + string(q)
		for _, before := range []string{"digit", "whitespace", "'0' to '9'", "caseless '#'", "'#'", "digit, whitespace, '0' to '9', caseless '#'"} {
			// the items in front must not be able to take the word's first byte themselves
			c0 := w[0]
			if (c0 >= '0' && c0 <= '9' && (strings.Contains(before, "digit") || strings.Contains(before, "to"))) || (c0 == '#' && strings.Contains(before, "#")) || (c0 == ' ' && strings.Contains(before, "whitespace")) {
				continue
			}
			cases = append(cases, c16Case{lit: "in " + before + ", " + lit, bytes: w, label: "list-item-after-other-kinds"})
		}
	}
	// a literal that SPELLS a word of the language (find, set, with, end, or, to ...; lower, UPPER and Capitalised; raw,
	// with its first letter as a hex escape and with a backslash before its second letter) is a literal wherever it
	// stands: alone, behind another literal, inside a group
	for wi, w := range words {
		if !gen.Keywords[strings.ToLower(w)] {
			continue
		}
		for _, form := range []string{w, strings.ToUpper(w[:1]) + strings.ToLower(w[1:])} {
			q := []byte{'\'', '"'}[(wi+len(form))%2]
			sps := []string{form, fmt.Sprintf("\\x%02x", form[0]) + form[1:]}
			if len(form) > 1 && strings.IndexByte("ntrabfvx", form[1]) < 0 {
				sps = append(sps, form[:1]+"\\"+form[1:])
			}
			for _, sp := range sps {
				lit := string(q) + sp + string(q)
				cases = append(cases, c16Case{lit: lit, bytes: form, label: "spells-a-keyword:alone"})
				cases = append(cases, c16Case{lit: "'-' " + lit, bytes: "-" + form, label: "spells-a-keyword:behind-a-literal", lo: 1})
				cases = append(cases, c16Case{lit: "(" + lit + ")", bytes: form, label: "spells-a-keyword:in-a-group"})
			}
		}
	}
	// literals that COLLIDE, under one of eight common 32-bit string hashes (CRC-32 two ways, FNV-1 and FNV-1a, Adler-32,
	// the times-31, djb2 and sdbm hashes), with a word in front of them in the source (`find`, `all`) or with another
	// literal of the same command: equal hashes are not equal strings (table made by cmd/mkcollide)
	for _, x := range c16Collisions {
		for _, q := range []string{"'", "\""} {
			cases = append(cases, c16Case{lit: q + x[2] + q, bytes: x[2], label: "collides-with-a-word-of-the-source:" + x[0]})
			cases = append(cases, c16Case{lit: q + x[1] + q + " " + q + x[2] + q, bytes: x[1] + x[2], label: "two-colliding-literals:" + x[0]})
			cases = append(cases, c16Case{lit: q + x[2] + q + " " + q + x[1] + q, bytes: x[2] + x[1], label: "two-colliding-literals:" + x[0]})
		}
	}
	for _, x := range c16CollidingPairs {
		cases = append(cases, c16Case{lit: "'" + x[1] + "' \"" + x[2] + "\"", bytes: x[1] + x[2], label: "two-colliding-literals:" + x[0]})
		cases = append(cases, c16Case{lit: "'" + x[2] + "' '" + x[1] + "'", bytes: x[2] + x[1], label: "two-colliding-literals:" + x[0]})
	}
	// two literals written back to back, nothing between the closing and the opening quote: two literals
	for _, q := range []byte{'\'', '"'} {
		for _, c1 := range []byte("ab'\"\\x4 ") {
			for _, c2 := range []byte("ab'\"\\x4 ") {
				for n1, s1 := range spellings(c1, q) {
					for n2, s2 := range spellings(c2, q) {
						cases = append(cases, c16Case{lit: string(q) + s1 + string(q) + string(q) + s2 + string(q), bytes: string([]byte{c1, c2}), label: "back-to-back:" + n1 + "+" + n2})
						other := q ^ '\'' ^ '"'
						if s2o, ok := spellings(c2, other)[n2]; ok {
							cases = append(cases, c16Case{lit: string(q) + s1 + string(q) + string(other) + s2o + string(other), bytes: string([]byte{c1, c2}), label: "back-to-back-other-quote:" + n1 + "+" + n2})
						}
					}
				}
			}
		}
	}
	// a literal inside a group right next to a caseless literal: being caseless is a property of that one literal
	for _, q := range []byte{'\'', '"'} {
		for c := byte('A'); c <= 'z'; c++ {
			if !(c >= 'A' && c <= 'Z') && !(c >= 'a' && c <= 'z') {
				continue
			}
			for name, sp := range spellings(c, q) {
				lit := string(q) + sp + "k" + string(q)
				cases = append(cases, c16Case{lit: "(caseless 'q' " + lit + ")", bytes: "q" + string([]byte{c}) + "k", label: "in-group-after-caseless:" + name, lo: 1})
				cases = append(cases, c16Case{lit: "(" + lit + " caseless 'q')", bytes: string([]byte{c}) + "kq", label: "in-group-before-caseless:" + name, hi: 2})
			}
		}
	}
	r.Extra["exhaustive_literals"] = len(cases)
	total := len(cases) + nrand
	r.Exec(total, drv.ExecOpts{Batch: 300}, func(i int) *drv.Item {
		var cs c16Case
		rng := gen.Derive(r.Seed, "C16", i)
		if i < len(cases) {
			cs = cases[i]
		} else {
			q := []byte{'\'', '"'}[rng.Intn(2)]
			n := 1 + rng.Intn(8)
			var lit strings.Builder
			var den []byte
			lit.WriteByte(q)
			for k := 0; k < n; k++ {
				c := byte(1 + rng.Intn(0x7f))
				sp := spellings(c, q)
				names := make([]string, 0, len(sp))
				for _, nm := range []string{"raw", "backslash-char", "named", "hex-upper", "hex-lower"} {
					if _, ok := sp[nm]; ok {
						names = append(names, nm)
					}
				}
				lit.WriteString(sp[names[rng.Intn(len(names))]])
				den = append(den, c)
			}
			lit.WriteByte(q)
			cs = c16Case{lit: lit.String(), bytes: string(den), label: "random-mixed"}
		}
		b := []byte(cs.bytes)
		texts := [][]byte{b}
		for pos := range b {
			if pos < cs.lo || (cs.hi > 0 && pos >= cs.hi) {
				continue
			}
			alts := []byte{b[pos] + 1, b[pos] - 1, b[pos] ^ 0x20, byte(1 + rng.Intn(0x7f)), byte(1 + rng.Intn(0x7f)), byte(1 + rng.Intn(0x7f))}
			for _, a := range alts {
				if a == b[pos] || a == 0 || a >= 0x80 {
					continue
				}
				t := append([]byte{}, b...)
				t[pos] = a
				texts = append(texts, t)
			}
		}
		src := "find all " + cs.lit
		// the lexer reads through a 4096-byte buffer: in a third of the cases the literal is pushed to
		// straddle a multiple of 4096 by a leading comment
		if (uint64(i)+r.Seed)%3 == 1 {
			target := 4096*(1+rng.Intn(2)) - rng.Intn(len(cs.lit)+2)
			pad := target - len("--()--\nfind all ")
			if pad > 0 {
				src = "--(" + strings.Repeat("p", pad) + ")--\nfind all " + cs.lit
				r.Count("sources_straddling_4096", 1)
			}
		}
		c := wire.Case{Op: "run", Src: []byte(src), Texts: texts, StepBudget: 100000}
		if (uint64(i)+r.Seed)%3 == 2 {
			// near-duplicates compiled first in the same process: the same literal with every run of raw blanks
			// doubled, and with letters in the other case - different programs, whatever a compiler remembers
			flip := []byte(cs.lit)
			for k := range flip {
				if (flip[k] >= 'a' && flip[k] <= 'z') || (flip[k] >= 'A' && flip[k] <= 'Z') {
					flip[k] ^= 0x20
				}
			}
			for _, sib := range []string{strings.ReplaceAll(cs.lit, " ", "  "), string(flip), strings.ReplaceAll(cs.lit, "  ", " ")} {
				if sib != cs.lit {
					c.Prelude = append(c.Prelude, []byte("find all "+sib))
				}
			}
			if len(c.Prelude) > 0 {
				r.Count("cases_after_compiling_a_near_duplicate", 1)
			}
		}
		return &drv.Item{Case: c, Check: func(res *wire.Result) {
			if crashOrGuard(r, res, &c, src, false) {
				return
			}
			cr := res.Compile
			if cr == nil {
				return
			}
			if cr.Panic != nil {
				r.Violate(&drv.Violation{Sig: "compile-panic:" + cr.Panic.Frame, Panic: cr.Panic.Msg, Frame: cr.Panic.Frame, Src: src, Case: &c})
				return
			}
			if !cr.OK {
				r.Violate(&drv.Violation{Sig: "literal-rejected:" + cs.label, Src: src, Err: cr.Err, Case: &c, Detail: map[string]any{"denotes": fmt.Sprintf("%q", cs.bytes)}})
				return
			}
			for ti, text := range texts {
				if ti >= len(res.Runs) {
					break
				}
				run := &res.Runs[ti]
				r.Eval(1)
				if runTrouble(r, run, &c, src, text, false) {
					return
				}
				got := spansOf(run.Matches)
				if ti == 0 {
					if !(len(got) == 1 && got[0] == [2]int{0, len(b)}) {
						r.Violate(&drv.Violation{Sig: "does-not-match-its-bytes:" + cs.label, Src: src, Text: string(text), Case: &c,
							Detail: map[string]any{"denotes": fmt.Sprintf("%q", cs.bytes), "observed": fmtSpans(got)}})
						return
					}
				} else {
					for _, s := range got {
						if s == [2]int{0, len(b)} {
							r.Violate(&drv.Violation{Sig: "matches-other-bytes:" + cs.label, Src: src, Text: string(text), Case: &c,
								Detail: map[string]any{"denotes": fmt.Sprintf("%q", cs.bytes), "observed": fmtSpans(got)}})
							return
						}
					}
				}
			}
			r.Nontrivial(cs.lit)
			r.Count("ok_"+cs.label, 1)
			r.Count("near_misses_checked", len(texts)-1)
			if i%1013 == 0 {
				r.Sample(map[string]any{"literal": cs.lit, "denotes": fmt.Sprintf("%q", cs.bytes)})
			}
		}}
	})
	c16CaselessPairs(r)
	c16Conc(r)
	c16Huge(r)
	c16CLI(r, cases)
	if r.NViolations() == 0 {
		for _, k := range []string{"ok_single:raw", "ok_single:named", "ok_single:hex-upper", "ok_single:hex-lower", "ok_single:backslash-char", "ok_malformed-hex", "ok_malformed-hex-pair", "ok_backslash-char-then-hex-digits", "ok_list-item-after-other-kinds", "ok_random-mixed", "ok_pair:raw+raw", "ok_pair:named+raw"} {
			if r.Counter(k) == 0 {
				r.Inconclusive("coverage floor: " + k + " = 0")
			}
		}
	}
}
