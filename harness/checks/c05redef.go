package checks

import (
	"fmt"
	"strings"

	"verifharness/drv"
	"verifharness/wire"
)

// c05Redefine: a transform name that is set AGAIN between two replace commands. A with-item names the transform that
// is in force where the command stands; what a later definition says (shorter, as long, longer, in the number of its
// statements) does not reach back.
func c05Redefine(r *drv.Run) {
	type body struct {
		src string
		fn  func(m string) string
	}
	bodies := []body{
		{"return '<' + match + '>'", func(m string) string { return "<" + m + ">" }},
		{"return '[' + match + ']'", func(m string) string { return "[" + m + "]" }},
		{"set a to match + match return a + '.'", func(m string) string { return m + m + "." }},
		{"set a to '(' set b to a + match return b + ')'", func(m string) string { return "(" + m + ")" }},
		{"if match == 'a' then return 'A' end return 'other'", func(m string) string {
			if m == "a" {
				return "A"
			}
			return "other"
		}},
		{"set n to matchLength set n to n + 1 set s to '' + n return s + ':' + match", func(m string) string { return fmt.Sprint(len(m)+1) + ":" + m }},
	}
	type job struct{ b1, b2, b3 int }
	var jobs []job
	for i := range bodies {
		for j := range bodies {
			if i != j {
				jobs = append(jobs, job{i, j, (i + j + 1) % len(bodies)})
			}
		}
	}
	texts := [][]byte{[]byte("a b ab ba"), []byte("bbb"), []byte("a"), []byte("abc cab")}
	r.Exec(len(jobs), drv.ExecOpts{Batch: 10}, func(i int) *drv.Item {
		jb := jobs[i]
		src := "set f to transform " + bodies[jb.b1].src + " end\nreplace all 'a' with f '!' matchNumber\nset f to transform " + bodies[jb.b2].src + " end\nreplace all 'b' with '#' f\nset f to transform " + bodies[jb.b3].src + " end\nreplace all 'a' or 'c' with f f"
		c := wire.Case{Op: "run", Src: []byte(src), Texts: texts, StepBudget: 300000}
		return &drv.Item{Case: c, Check: func(res *wire.Result) {
			if crashOrGuard(r, res, &c, src, false) {
				return
			}
			if compileTrouble(r, res, &c, src, false) {
				return
			}
			for ti, text := range texts {
				if ti >= len(res.Runs) {
					break
				}
				run := &res.Runs[ti]
				r.Eval(1)
				if runTrouble(r, run, &c, src, text, false) {
					continue
				}
				var want []string
				t := string(text)
				n := 0
				for k := 0; k < len(t); k++ {
					if t[k] == 'a' {
						n++
						want = append(want, bodies[jb.b1].fn("a")+"!"+fmt.Sprint(n))
					}
				}
				for k := 0; k < len(t); k++ {
					if t[k] == 'b' {
						want = append(want, "#"+bodies[jb.b2].fn("b"))
					}
				}
				for k := 0; k < len(t); k++ {
					if t[k] == 'a' || t[k] == 'c' {
						want = append(want, strings.Repeat(bodies[jb.b3].fn(string(t[k])), 2))
					}
				}
				var got []string
				for _, m := range run.Matches {
					got = append(got, string(m.Repl))
				}
				if strings.Join(got, "\x00") != strings.Join(want, "\x00") {
					r.Violate(&drv.Violation{Sig: "redefined-transform:replacement-differs", Src: src, Text: t, Case: &c,
						Detail: map[string]any{"expected": strings.Join(want, " | "), "observed": strings.Join(got, " | ")}})
					return
				}
				if len(want) > 0 {
					r.Count("replacements_under_a_redefined_transform_checked", len(want))
				}
			}
		}}
	})
	if r.NViolations() == 0 && r.Counter("replacements_under_a_redefined_transform_checked") == 0 {
		r.Inconclusive("coverage floor: replacements_under_a_redefined_transform_checked = 0")
	}
}
