// Package proc is the harness's reading of the documented process language
// (docs/language/LanguageDetails.md, "Type Coersion" and "Statement Type Requirements"):
// a type checker and an evaluator transcribed from the two tables, plus renderers.
package proc

import (
	"fmt"
	"strconv"
	"strings"
	"unicode/utf8"
)

type Type int

const (
	TErr Type = iota
	TStr
	TNum
	TBool
)

func (t Type) String() string {
	switch t {
	case TStr:
		return "string"
	case TNum:
		return "number"
	case TBool:
		return "bool"
	}
	return "error"
}

type Expr interface{}

type EStr struct{ V string }
type ENum struct{ V int }

// ERaw is a number literal given by its spelling (digits only): its value is the decimal parse, or 0 when the
// digits do not fit a 64-bit integer (the same "decimal parse or 0" rule as the string->number coercion).
type ERaw struct{ S string }
type EBool struct{ V bool }
type EVar struct{ Name string }
type EUn struct {
	Op string // not head tail
	X  Expr
}
type EBin struct {
	Op   string // + - * / % < > <= >= == != and or
	L, R Expr
}

// ---- values -----------------------------------------------------------------------

type Value struct {
	T Type
	S string
	N int
	B bool
}

func Str(s string) Value { return Value{T: TStr, S: s} }
func Num(n int) Value    { return Value{T: TNum, N: n} }
func Bool(b bool) Value  { return Value{T: TBool, B: b} }

// coercions, second table of the documentation
func (v Value) AsString() string {
	switch v.T {
	case TStr:
		return v.S
	case TNum:
		return strconv.Itoa(v.N)
	case TBool:
		if v.B {
			return "true"
		}
		return "false"
	}
	return ""
}

func (v Value) AsNumber() int {
	switch v.T {
	case TStr:
		n, err := strconv.Atoi(v.S)
		if err != nil {
			return 0
		}
		return n
	case TNum:
		return v.N
	case TBool:
		if v.B {
			return 1
		}
		return 0
	}
	return 0
}

func (v Value) AsBool() bool {
	switch v.T {
	case TStr:
		return len(v.S) != 0
	case TNum:
		return v.N != 0
	case TBool:
		return v.B
	}
	return false
}

func (v Value) String() string {
	return fmt.Sprintf("%s(%s)", v.T, v.AsString())
}

// ---- typing rules, first table ---------------------------------------------------

func isCmp(op string) bool {
	switch op {
	case "==", "!=", "<", ">", "<=", ">=":
		return true
	}
	return false
}

func isArith(op string) bool {
	switch op {
	case "+", "-", "*", "/", "%":
		return true
	}
	return false
}

// BinType gives the result type of `l op r`, or TErr when the table has no such row.
func BinType(op string, l, r Type) Type {
	if l == TErr || r == TErr {
		return TErr
	}
	switch l {
	case TStr:
		if op == "+" {
			return TStr
		}
		if isCmp(op) {
			return TBool
		}
		if r == TNum && (op == "-" || op == "*" || op == "/" || op == "%") {
			return TNum
		}
	case TBool:
		if op == "and" || op == "or" || isCmp(op) {
			return TBool
		}
	case TNum:
		if isCmp(op) {
			return TBool
		}
		if isArith(op) {
			return TNum
		}
	}
	return TErr
}

func UnType(op string, x Type) Type {
	switch {
	case op == "not" && x == TBool:
		return TBool
	case (op == "head" || op == "tail") && x == TStr:
		return TStr
	}
	return TErr
}

type TypeEnv map[string]Type

func TypeOf(e Expr, env TypeEnv) Type {
	switch x := e.(type) {
	case EStr:
		return TStr
	case ENum:
		return TNum
	case ERaw:
		return TNum
	case EBool:
		return TBool
	case EVar:
		if t, ok := env[x.Name]; ok {
			return t
		}
		return TStr // an undefined name is the empty string
	case EUn:
		return UnType(x.Op, TypeOf(x.X, env))
	case EBin:
		return BinType(x.Op, TypeOf(x.L, env), TypeOf(x.R, env))
	}
	return TErr
}

// ---- evaluation ---------------------------------------------------------------------

type Env map[string]Value

// Undefined is returned (ok=false) for cells the documentation leaves open:
// integer division and modulo by zero.
func Eval(e Expr, env Env) (v Value, ok bool) {
	switch x := e.(type) {
	case EStr:
		return Str(x.V), true
	case ENum:
		return Num(x.V), true
	case ERaw:
		n, err := strconv.Atoi(x.S)
		if err != nil {
			n = 0
		}
		return Num(n), true
	case EBool:
		return Bool(x.V), true
	case EVar:
		if v, ok := env[x.Name]; ok {
			return v, true
		}
		return Str(""), true
	case EUn:
		a, ok := Eval(x.X, env)
		if !ok {
			return Value{}, false
		}
		switch x.Op {
		case "not":
			return Bool(!a.AsBool()), true
		case "head":
			s := a.AsString()
			if len(s) == 0 {
				return Str(""), true
			}
			return Str(s[:1]), true
		case "tail":
			s := a.AsString()
			if len(s) <= 1 {
				return Str(""), true
			}
			return Str(s[1:]), true
		}
	case EBin:
		l, ok := Eval(x.L, env)
		if !ok {
			return Value{}, false
		}
		r, ok := Eval(x.R, env)
		if !ok {
			return Value{}, false
		}
		return BinEval(x.Op, l, r)
	}
	return Value{}, false
}

func cmpInts(op string, a, b int) bool {
	switch op {
	case "==":
		return a == b
	case "!=":
		return a != b
	case "<":
		return a < b
	case ">":
		return a > b
	case "<=":
		return a <= b
	case ">=":
		return a >= b
	}
	return false
}

func cmpStrs(op string, a, b string) bool {
	switch op {
	case "==":
		return a == b
	case "!=":
		return a != b
	case "<":
		return a < b
	case ">":
		return a > b
	case "<=":
		return a <= b
	case ">=":
		return a >= b
	}
	return false
}

func arith(op string, a, b int) (int, bool) {
	switch op {
	case "+":
		return a + b, true
	case "-":
		return a - b, true
	case "*":
		return a * b, true
	case "/":
		if b == 0 {
			return 0, false
		}
		return a / b, true
	case "%":
		if b == 0 {
			return 0, false
		}
		return a % b, true
	}
	return 0, false
}

func b2i(b bool) int {
	if b {
		return 1
	}
	return 0
}

// BinEval: the left operand's type selects the operation, the right operand is coerced to it.
func BinEval(op string, l, r Value) (Value, bool) {
	switch l.T {
	case TStr:
		if op == "+" {
			return Str(l.S + r.AsString()), true
		}
		if isCmp(op) {
			return Bool(cmpStrs(op, l.S, r.AsString())), true
		}
		// **number** op number rows: the left string is coerced to a number
		n, ok := arith(op, l.AsNumber(), r.AsNumber())
		return Num(n), ok
	case TBool:
		rb := r.AsBool()
		switch op {
		case "and":
			return Bool(l.B && rb), true
		case "or":
			return Bool(l.B || rb), true
		}
		return Bool(cmpInts(op, b2i(l.B), b2i(rb))), true
	case TNum:
		if isCmp(op) {
			return Bool(cmpInts(op, l.N, r.AsNumber())), true
		}
		n, ok := arith(op, l.N, r.AsNumber())
		return Num(n), ok
	}
	return Value{}, false
}

// ---- rendering ------------------------------------------------------------------------

func level(op string) int {
	switch op {
	case "and", "or":
		return 1
	case "==", "!=", "<", ">", "<=", ">=":
		return 2
	case "+", "-":
		return 3
	case "*", "/", "%":
		return 4
	}
	return 9
}

func QuoteStr(s string) string {
	out := "'"
	for i := 0; i < len(s); i++ {
		c := s[i]
		if c >= 0x80 {
			// a well-formed character is written as it is (\xHH names a code point, not a byte)
			if rn, sz := utf8.DecodeRuneInString(s[i:]); rn != utf8.RuneError && sz > 1 {
				out += s[i : i+sz]
				i += sz - 1
				continue
			}
		}
		switch {
		case c == '\'' || c == '\\':
			out += "\\" + string(c)
		case c == '\n':
			out += "\\n"
		case c < 0x20 || c >= 0x7f:
			out += fmt.Sprintf("\\x%02x", c)
		default:
			out += string(c)
		}
	}
	return out + "'"
}

// Render prints e; full=true parenthesises every compound operand, full=false uses the
// minimal parentheses that the documented precedence/associativity needs.
func Render(e Expr, full bool) string { return RenderCase(e, full, 0) }

// kw spells a keyword of the expression language: style 0 as is, 1 UPPER, 2 Capitalised (keywords are not case
// sensitive; names are).
func kw(w string, style int) string {
	switch style {
	case 1:
		return strings.ToUpper(w)
	case 2:
		return strings.ToUpper(w[:1]) + w[1:]
	}
	return w
}

// RenderCase is Render with the keywords (true false not head tail and or) spelled in the given style.
func RenderCase(e Expr, full bool, style int) string {
	switch x := e.(type) {
	case EStr:
		return QuoteStr(x.V)
	case ERaw:
		return x.S
	case ENum:
		if x.V < 0 {
			return fmt.Sprintf("(0 - %d)", -x.V)
		}
		return strconv.Itoa(x.V)
	case EBool:
		if x.V {
			return kw("true", style)
		}
		return kw("false", style)
	case EVar:
		return x.Name
	case EUn:
		in := RenderCase(x.X, full, style)
		switch x.X.(type) {
		case EBin:
			in = "(" + in + ")" // unary operators over unparenthesised binary operands are left open by the documentation
		case EUn:
			if full {
				in = "(" + in + ")"
			}
		}
		return kw(x.Op, style) + " " + in
	case EBin:
		l := RenderCase(x.L, full, style)
		r := RenderCase(x.R, full, style)
		if needParens(x.L, x.Op, false, full) {
			l = "(" + l + ")"
		}
		if needParens(x.R, x.Op, true, full) {
			r = "(" + r + ")"
		}
		op := x.Op
		if op == "and" || op == "or" {
			op = kw(op, style)
		}
		return l + " " + op + " " + r
	}
	return "''"
}

func eqClass(op string) bool { return op == "==" || op == "!=" }

func needParens(child Expr, parentOp string, right bool, full bool) bool {
	switch c := child.(type) {
	case EBin:
		if full {
			return true
		}
		pl, cl := level(parentOp), level(c.Op)
		if cl < pl {
			return true
		}
		if cl > pl {
			return false
		}
		// same documented level
		if right {
			return true // left associative
		}
		if pl == 2 && eqClass(parentOp) != eqClass(c.Op) {
			return true // ==/!= mixed with </>/<=/>= in one chain is left open: always explicit
		}
		return false
	case EUn:
		return full
	case ENum, ERaw:
		return false
	}
	return false
}
