package proc

import (
	"strings"
)

// ---- statements -----------------------------------------------------------------------

type Stmt interface{}

type SSet struct {
	Name string
	X    Expr
}
type SIf struct {
	Cond    Expr
	Then    []Stmt
	Else    []Stmt
	HasElse bool
}
type SLoop struct{ Body []Stmt }
type SBreak struct{}
type SContinue struct{}
type SReturn struct{ X Expr }
type SDebug struct{ X Expr }

type Context int

const (
	Predicate Context = iota
	Transform
)

// CheckStmts is the documented statement typing: every expression well typed by the operator
// table, `if` conditions boolean, `return` boolean in a predicate and string or number in a
// transform, break/continue only inside a loop. Variables take the type of their latest
// assignment in program order; an unassigned name is a string.
func CheckStmts(ss []Stmt, ctx Context, env TypeEnv, inLoop bool) bool {
	for _, s := range ss {
		switch x := s.(type) {
		case SSet:
			t := TypeOf(x.X, env)
			if t == TErr {
				return false
			}
			env[x.Name] = t
		case SDebug:
			if TypeOf(x.X, env) == TErr {
				return false
			}
		case SReturn:
			t := TypeOf(x.X, env)
			if t == TErr {
				return false
			}
			if ctx == Predicate && t != TBool {
				return false
			}
			if ctx == Transform && t != TStr && t != TNum {
				return false
			}
		case SIf:
			if TypeOf(x.Cond, env) != TBool {
				return false
			}
			if !CheckStmts(x.Then, ctx, env, inLoop) {
				return false
			}
			if !CheckStmts(x.Else, ctx, env, inLoop) {
				return false
			}
		case SLoop:
			if !CheckStmts(x.Body, ctx, env, true) {
				return false
			}
		case SBreak, SContinue:
			if !inLoop {
				return false
			}
		}
	}
	return true
}

func RenderStmts(ss []Stmt, full bool) string {
	var parts []string
	for _, s := range ss {
		switch x := s.(type) {
		case SSet:
			parts = append(parts, "set "+x.Name+" to "+Render(x.X, full))
		case SDebug:
			parts = append(parts, "debug "+Render(x.X, full))
		case SReturn:
			parts = append(parts, "return "+Render(x.X, full))
		case SIf:
			s := "if " + Render(x.Cond, full) + " then " + RenderStmts(x.Then, full)
			if x.HasElse {
				s += " else " + RenderStmts(x.Else, full)
			}
			parts = append(parts, s+" end")
		case SLoop:
			parts = append(parts, "loop "+RenderStmts(x.Body, full)+" end")
		case SBreak:
			parts = append(parts, "break")
		case SContinue:
			parts = append(parts, "continue")
		}
	}
	return strings.Join(parts, " ")
}

// ---- a reference interpreter for statements (used to predict transform results) ----------

type status int

const (
	stNext status = iota
	stBreak
	stContinue
	stReturn
)

type Interp struct {
	Env     Env
	Steps   int
	Limit   int
	Undef   bool // met a cell the documentation leaves open (division by zero)
	Spin    bool
	Ret     Value
	HasRet  bool
}

func (in *Interp) run(ss []Stmt) status {
	for _, s := range ss {
		in.Steps++
		if in.Steps > in.Limit {
			in.Spin = true
			return stReturn
		}
		switch x := s.(type) {
		case SSet:
			v, ok := Eval(x.X, in.Env)
			if !ok {
				in.Undef = true
				return stReturn
			}
			in.Env[x.Name] = v
		case SDebug:
			if _, ok := Eval(x.X, in.Env); !ok {
				in.Undef = true
				return stReturn
			}
		case SReturn:
			v, ok := Eval(x.X, in.Env)
			if !ok {
				in.Undef = true
				return stReturn
			}
			in.Ret, in.HasRet = v, true
			return stReturn
		case SIf:
			c, ok := Eval(x.Cond, in.Env)
			if !ok {
				in.Undef = true
				return stReturn
			}
			var st status
			if c.AsBool() {
				st = in.run(x.Then)
			} else {
				st = in.run(x.Else)
			}
			if st != stNext {
				return st
			}
		case SLoop:
			for {
				st := in.run(x.Body)
				if in.Spin || in.Undef {
					return stReturn
				}
				if st == stReturn {
					return stReturn
				}
				if st == stBreak {
					break
				}
			}
		case SBreak:
			return stBreak
		case SContinue:
			return stContinue
		}
	}
	return stNext
}

// Run interprets a statement list; without a return the result is boolean true
// (which a transform writes as "true" and a predicate accepts).
func (in *Interp) Run(ss []Stmt) Value {
	if in.Limit == 0 {
		in.Limit = 10000
	}
	in.run(ss)
	if in.HasRet {
		return in.Ret
	}
	return Bool(true)
}
