// Package fsmon observes the file system: directory snapshots and their differences, and a
// parser for strace logs of file-modifying system calls.
package fsmon

import (
	"bufio"
	"crypto/sha256"
	"encoding/hex"
	"fmt"
	"os"
	"path/filepath"
	"regexp"
	"sort"
	"strings"
	"syscall"
)

type Entry struct {
	Type  string // "file" "dir" "other"
	Size  int64
	Mode  os.FileMode
	Hash  string
	Inode uint64
}

type Snapshot map[string]Entry

func Take(root string) Snapshot {
	s := Snapshot{}
	filepath.Walk(root, func(p string, info os.FileInfo, err error) error {
		if err != nil || p == root {
			return nil
		}
		rel, _ := filepath.Rel(root, p)
		e := Entry{Size: info.Size(), Mode: info.Mode()}
		if st, ok := info.Sys().(*syscall.Stat_t); ok {
			e.Inode = st.Ino
		}
		switch {
		case info.IsDir():
			e.Type = "dir"
			e.Size = 0
		case info.Mode().IsRegular():
			e.Type = "file"
			if b, err := os.ReadFile(p); err == nil {
				h := sha256.Sum256(b)
				e.Hash = hex.EncodeToString(h[:])
			}
		default:
			e.Type = "other"
		}
		s[rel] = e
		return nil
	})
	return s
}

type Change struct {
	Path string
	Kind string // created removed content mode type
}

func Diff(a, b Snapshot) []Change {
	var out []Change
	for p, ea := range a {
		eb, ok := b[p]
		if !ok {
			out = append(out, Change{p, "removed"})
			continue
		}
		if ea.Type != eb.Type {
			out = append(out, Change{p, "type"})
		} else if ea.Hash != eb.Hash || ea.Size != eb.Size {
			out = append(out, Change{p, "content"})
		} else if ea.Mode != eb.Mode {
			out = append(out, Change{p, "mode"})
		} else if ea.Inode != eb.Inode && ea.Type == "file" {
			out = append(out, Change{p, "replaced"})
		}
	}
	for p := range b {
		if _, ok := a[p]; !ok {
			out = append(out, Change{p, "created"})
		}
	}
	sort.Slice(out, func(i, j int) bool { return out[i].Path < out[j].Path })
	return out
}

func (c Change) String() string { return c.Kind + ":" + c.Path }

// ---- strace -------------------------------------------------------------------------

var reOpen = regexp.MustCompile(`openat\(AT_FDCWD, "((?:[^"\\]|\\.)*)", ([A-Z_|0-9a-zx]+)`)
var reCreat = regexp.MustCompile(`creat\("((?:[^"\\]|\\.)*)"`)
var rePath1 = regexp.MustCompile(`\b(unlink|unlinkat|rmdir|truncate|mkdir|mkdirat|chmod|fchmodat)\((?:AT_FDCWD, )?"((?:[^"\\]|\\.)*)"`)
var reRename = regexp.MustCompile(`\b(rename|renameat|renameat2)\((?:AT_FDCWD, )?"((?:[^"\\]|\\.)*)", (?:AT_FDCWD, )?"((?:[^"\\]|\\.)*)"`)

// Writes lists every path a traced process tried to open for writing/creating/truncating,
// create, rename, unlink or truncate (successful or not).
func Writes(logPath string) ([]string, error) {
	f, err := os.Open(logPath)
	if err != nil {
		return nil, err
	}
	defer f.Close()
	var out []string
	sc := bufio.NewScanner(f)
	sc.Buffer(make([]byte, 1<<20), 1<<26)
	for sc.Scan() {
		l := sc.Text()
		if m := reOpen.FindStringSubmatch(l); m != nil {
			fl := m[2]
			if strings.Contains(fl, "O_WRONLY") || strings.Contains(fl, "O_RDWR") || strings.Contains(fl, "O_CREAT") || strings.Contains(fl, "O_TRUNC") || strings.Contains(fl, "O_APPEND") {
				out = append(out, fmt.Sprintf("open(%s):%s", fl, m[1]))
			}
			continue
		}
		if m := reCreat.FindStringSubmatch(l); m != nil {
			out = append(out, "creat:"+m[1])
			continue
		}
		if m := reRename.FindStringSubmatch(l); m != nil {
			out = append(out, m[1]+":"+m[2], m[1]+"-to:"+m[3])
			continue
		}
		if m := rePath1.FindStringSubmatch(l); m != nil {
			out = append(out, m[1]+":"+m[2])
		}
	}
	return out, sc.Err()
}

// PathOf extracts the path from an entry returned by Writes.
func PathOf(entry string) string {
	if i := strings.LastIndex(entry, "):"); i >= 0 && strings.HasPrefix(entry, "open(") {
		return entry[i+2:]
	}
	if i := strings.Index(entry, ":"); i >= 0 {
		return entry[i+1:]
	}
	return entry
}
