// Package drv is the deciding side's infrastructure: it builds the workers from /repo's
// working tree, feeds them cases, attributes crashes, aggregates verdicts and writes evidence.
// It never links the library.
package drv

import (
	"bufio"
	"bytes"
	"crypto/sha256"
	"encoding/hex"
	"encoding/json"
	"fmt"
	"io"
	"os"
	"os/exec"
	"path/filepath"
	"regexp"
	"sort"
	"strconv"
	"strings"
	"sync"
	"syscall"
	"time"
	"unsafe"

	"verifharness/wire"
)

const VerifRoot = "/verif"

// RepoRoot is /repo. VERIF_REPO may point the builds at another checkout of the repository (used only
// to evaluate seeded changes in scratch worktrees without touching /repo; registered commands never set it).
var RepoRoot = func() string {
	if v := os.Getenv("VERIF_REPO"); v != "" {
		return strings.TrimRight(v, "/")
	}
	return "/repo"
}()

var goEnv = []string{"GOFLAGS=-mod=mod", "GOPROXY=off", "GOSUMDB=off", "GOTOOLCHAIN=local", "GOWORK=off", "CGO_ENABLED=0"}

// Violation is one refuting observation.
type Violation struct {
	Sig    string         `json:"sig"` // short class, used for de-duplication
	Panic  string         `json:"panic,omitempty"`
	Frame  string         `json:"frame,omitempty"`
	Err    string         `json:"err,omitempty"`
	Src    string         `json:"src,omitempty"`
	Text   string         `json:"text,omitempty"`
	Detail map[string]any `json:"detail,omitempty"`
	Case   *wire.Case     `json:"case,omitempty"`
}

type Known struct {
	Property string `json:"property"`
	ID       string `json:"id"`
	What     string `json:"what"`
	Match    struct {
		SigPrefix     string  `json:"sig_prefix,omitempty"`
		PanicContains string  `json:"panic_contains,omitempty"`
		FrameContains string  `json:"frame_contains,omitempty"`
		ErrContains   string  `json:"err_contains,omitempty"`
		SrcRegex      string  `json:"src_regex,omitempty"`
		SrcEquals     string  `json:"src_equals,omitempty"`
		TextEquals    *string `json:"text_equals,omitempty"`
	} `json:"match"`
	re *regexp.Regexp
}

type KnownFile struct {
	Known []*Known `json:"known"`
	Fixed []string `json:"fixed"`
}

type Run struct {
	Prop string
	Tier string
	Seed uint64

	Workers   int
	WorkDir   string
	WorkerBin string
	RaceBin   string
	CLIBin    string

	start time.Time
	mu    sync.Mutex

	evaluations  int64
	distinct     map[string]struct{}
	samples      []any
	maxSamples   int
	counters     map[string]int64
	maxes        map[string]int64
	violations   []*Violation
	vioSigs      map[string]int
	knownHits    map[string]int
	known        []*Known
	inconclusive map[string]int
	guardSkips   []string

	abortCh   chan struct{}
	abortOnce sync.Once
	MaxViol   int // stop exploring once this many unlisted violations were recorded

	Rule        string
	Assumptions []string
	Exhaustive  bool
	Extra       map[string]any
}

func NewRun(prop, tier string, seed uint64) *Run {
	r := &Run{Prop: prop, Tier: tier, Seed: seed, Workers: 14, start: time.Now(),
		distinct: map[string]struct{}{}, counters: map[string]int64{}, maxes: map[string]int64{},
		vioSigs: map[string]int{}, knownHits: map[string]int{}, inconclusive: map[string]int{},
		maxSamples: 6, Extra: map[string]any{}, abortCh: make(chan struct{}), MaxViol: 60}
	if v := os.Getenv("VERIF_WORKERS"); v != "" {
		if n, err := strconv.Atoi(v); err == nil && n > 0 {
			r.Workers = n
		}
	}
	r.loadKnown()
	dir := filepath.Join(VerifRoot, "bin", "work", fmt.Sprintf("%s-%d", prop, os.Getpid()))
	os.RemoveAll(dir)
	if err := os.MkdirAll(dir, 0o755); err != nil {
		fatal("mkdir workdir: %v", err)
	}
	r.WorkDir = dir
	return r
}

func fatal(f string, a ...any) {
	fmt.Fprintf(os.Stderr, "vcheck: "+f+"\n", a...)
	os.Exit(2)
}

func (r *Run) loadKnown() {
	b, err := os.ReadFile(filepath.Join(VerifRoot, "known_findings.json"))
	if err != nil {
		return
	}
	var kf KnownFile
	if err := json.Unmarshal(b, &kf); err != nil {
		fatal("known_findings.json: %v", err)
	}
	for _, k := range kf.Known {
		if k.Property != r.Prop {
			continue
		}
		if k.Match.SrcRegex != "" {
			k.re = regexp.MustCompile(k.Match.SrcRegex)
		}
		r.known = append(r.known, k)
	}
}

func (k *Known) matches(v *Violation) bool {
	m := &k.Match
	any := false
	if m.SigPrefix != "" {
		any = true
		if !strings.HasPrefix(v.Sig, m.SigPrefix) {
			return false
		}
	}
	if m.PanicContains != "" {
		any = true
		if !strings.Contains(v.Panic, m.PanicContains) {
			return false
		}
	}
	if m.FrameContains != "" {
		any = true
		if !strings.Contains(v.Frame, m.FrameContains) {
			return false
		}
	}
	if m.ErrContains != "" {
		any = true
		if !strings.Contains(v.Err, m.ErrContains) {
			return false
		}
	}
	if k.re != nil {
		any = true
		if !k.re.MatchString(v.Src) {
			return false
		}
	}
	if m.SrcEquals != "" {
		any = true
		if v.Src != m.SrcEquals {
			return false
		}
	}
	if m.TextEquals != nil {
		any = true
		if v.Text != *m.TextEquals {
			return false
		}
	}
	return any
}

// ---- building ---------------------------------------------------------------------

func runCmd(dir string, env []string, name string, args ...string) (string, error) {
	cmd := exec.Command(name, args...)
	cmd.Dir = dir
	cmd.Env = append(os.Environ(), env...)
	var buf bytes.Buffer
	cmd.Stdout = &buf
	cmd.Stderr = &buf
	err := cmd.Run()
	return buf.String(), err
}

func buildFailed(what, out string) {
	fmt.Printf("BUILD-FAILED %s\n%s\n", what, out)
	os.Exit(2)
}

// BuildWorker rebuilds vworker from /repo's current working tree with the verif tag.
// modfileArgs returns -modfile=<alt> when the repository is not /repo: a copy of the harness go.mod
// whose replace directives point at RepoRoot.
func (r *Run) modfileArgs() []string {
	if RepoRoot == "/repo" {
		return nil
	}
	b, err := os.ReadFile(filepath.Join(VerifRoot, "harness", "go.mod"))
	if err != nil {
		fatal("read go.mod: %v", err)
	}
	alt := filepath.Join(r.WorkDir, "alt.mod")
	os.WriteFile(alt, []byte(strings.ReplaceAll(string(b), "/repo/", RepoRoot+"/")), 0o644)
	return []string{"-modfile=" + alt}
}

func (r *Run) BuildWorker() {
	binp := filepath.Join(r.WorkDir, "vworker")
	args := append([]string{"build"}, r.modfileArgs()...)
	args = append(args, "-tags", "verif", "-o", binp, "./cmd/vworker")
	out, err := runCmd(filepath.Join(VerifRoot, "harness"), goEnv, "go", args...)
	if err != nil {
		buildFailed("vworker", out)
	}
	r.WorkerBin = binp
}

func (r *Run) BuildRaceWorker() {
	binp := filepath.Join(r.WorkDir, "vworker-race")
	env := append([]string{}, goEnv...)
	env = append(env, "CGO_ENABLED=1")
	args := append([]string{"build"}, r.modfileArgs()...)
	args = append(args, "-race", "-tags", "verif", "-o", binp, "./cmd/vworker")
	out, err := runCmd(filepath.Join(VerifRoot, "harness"), env, "go", args...)
	if err != nil {
		buildFailed("vworker -race", out)
	}
	r.RaceBin = binp
}

// BuildCLI builds the vore command line tool the way the repository builds it (workspace mode).
func (r *Run) BuildCLI() {
	binp := filepath.Join(r.WorkDir, "vore")
	env := []string{"GOFLAGS=", "GOPROXY=off", "GOSUMDB=off", "GOTOOLCHAIN=local", "CGO_ENABLED=0"}
	cmd := exec.Command("go", "build", "-o", binp, ".")
	cmd.Dir = RepoRoot
	var envs []string
	for _, e := range os.Environ() {
		if strings.HasPrefix(e, "GOFLAGS=") || strings.HasPrefix(e, "GOWORK=") {
			continue
		}
		envs = append(envs, e)
	}
	cmd.Env = append(envs, env...)
	var buf bytes.Buffer
	cmd.Stdout = &buf
	cmd.Stderr = &buf
	if err := cmd.Run(); err != nil {
		buildFailed("vore CLI", buf.String())
	}
	r.CLIBin = binp
}

// ---- reporting API used by checks -------------------------------------------------

func (r *Run) Eval(n int) {
	r.mu.Lock()
	r.evaluations += int64(n)
	r.mu.Unlock()
}

// Nontrivial records one non-trivial case; key identifies it for distinct counting.
func (r *Run) Nontrivial(key string) {
	h := sha256.Sum256([]byte(key))
	k := string(h[:10])
	r.mu.Lock()
	r.distinct[k] = struct{}{}
	r.mu.Unlock()
}

func (r *Run) Count(name string, n int) {
	r.mu.Lock()
	r.counters[name] += int64(n)
	// circuit breaker: when far more cases than ever seen on a healthy tree blow their step budget, the
	// tree under test is spinning; stop instead of burning hours, and say the run decided nothing
	if name == "skipped_expensive" && r.counters[name] > 500+r.evaluations/100 {
		r.inconclusive["exploration stopped: too many cases exceeded their step budget"]++
		r.abortOnce.Do(func() { close(r.abortCh) })
	}
	r.mu.Unlock()
}

func (r *Run) Max(name string, v int) {
	r.mu.Lock()
	if int64(v) > r.maxes[name] {
		r.maxes[name] = int64(v)
	}
	r.mu.Unlock()
}

func (r *Run) MaxOf(name string) int64 {
	r.mu.Lock()
	defer r.mu.Unlock()
	return r.maxes[name]
}

func (r *Run) Counter(name string) int64 {
	r.mu.Lock()
	defer r.mu.Unlock()
	return r.counters[name]
}

func (r *Run) Sample(v any) {
	r.mu.Lock()
	if len(r.samples) < r.maxSamples {
		r.samples = append(r.samples, v)
	}
	r.mu.Unlock()
}

func (r *Run) Inconclusive(reason string) {
	r.mu.Lock()
	r.inconclusive[reason]++
	r.mu.Unlock()
}

// GuardSkip: one case was stopped by a resource guard of the worker (memory, CPU) in a check where that decides
// nothing about the property: the machine could not finish the case. It is counted and named in the evidence; the
// run becomes inconclusive only when such cases are more than a hundredth of what was evaluated (and more than ten).
func (r *Run) GuardSkip(what string) {
	r.mu.Lock()
	r.counters["cases_stopped_by_a_resource_guard"]++
	if len(r.guardSkips) < 5 {
		r.guardSkips = append(r.guardSkips, what)
	}
	r.mu.Unlock()
}

// Violate records a refutation; listed known findings are counted separately.
func (r *Run) Violate(v *Violation) {
	r.mu.Lock()
	defer r.mu.Unlock()
	for _, k := range r.known {
		if k.matches(v) {
			r.knownHits[k.ID]++
			return
		}
	}
	r.vioSigs[v.Sig]++
	if r.vioSigs[v.Sig] <= 3 && len(r.violations) < 40 {
		r.violations = append(r.violations, v)
	}
	n := 0
	for _, c := range r.vioSigs {
		n += c
	}
	if r.MaxViol > 0 && n >= r.MaxViol {
		// enough refutations: stop exploring (a broken tree can make every further case slow)
		r.abortOnce.Do(func() { close(r.abortCh) })
	}
}

// Aborted reports whether exploration was cut short after MaxViol violations.
func (r *Run) Aborted() bool {
	select {
	case <-r.abortCh:
		return true
	default:
		return false
	}
}

func (r *Run) NViolations() int {
	r.mu.Lock()
	defer r.mu.Unlock()
	n := 0
	for _, c := range r.vioSigs {
		n += c
	}
	return n
}

// ---- worker pool ------------------------------------------------------------------

type Item struct {
	Case  wire.Case
	Check func(res *wire.Result)
}

type ExecOpts struct {
	Batch    int
	Race     bool
	Env      []string
	WallSecs int    // per-batch wall clock watchdog (inconclusive when it fires)
	Stdout   string // a path the worker's standard output is opened on instead of a scratch file (e.g. /dev/full: every write fails)
	UID      int    // > 0 (and the driver runs as root): the worker runs as this user and group, not as the owner of the scratch files
}

// Exec runs items 0..n-1 (produced on demand by gen, which must be a pure function of i)
// through worker processes and calls each item's Check with what the worker observed.
func (r *Run) Exec(n int, opts ExecOpts, gen func(i int) *Item) {
	if opts.Batch <= 0 {
		opts.Batch = 200
	}
	if opts.WallSecs <= 0 {
		// (generous: a worker that is stuck is stopped by its own blocked-call guard after 40 idle seconds; this one
		// only ends batches that a loaded machine could not finish in an hour)
		opts.WallSecs = 3600
	}
	type job struct{ lo, hi int }
	jobs := make(chan job, 64)
	var wg sync.WaitGroup
	w := r.Workers
	if nb := (n + opts.Batch - 1) / opts.Batch; nb < w {
		w = nb
	}
	if w < 1 {
		w = 1
	}
	for k := 0; k < w; k++ {
		wg.Add(1)
		go func(k int) {
			defer wg.Done()
			for j := range jobs {
				r.runBatch(k, j.lo, j.hi, opts, gen)
			}
		}(k)
	}
	for lo := 0; lo < n; lo += opts.Batch {
		hi := lo + opts.Batch
		if hi > n {
			hi = n
		}
		if r.Aborted() {
			break
		}
		jobs <- job{lo, hi}
	}
	close(jobs)
	wg.Wait()
}

func tail(path string, n int) string {
	b, err := os.ReadFile(path)
	if err != nil {
		return ""
	}
	if len(b) > n {
		b = b[len(b)-n:]
	}
	return string(b)
}

func head(path string, n int) string {
	b, err := os.ReadFile(path)
	if err != nil {
		return ""
	}
	if len(b) > n {
		b = b[:n]
	}
	return string(b)
}

func (r *Run) runBatch(k int, lo, hi int, opts ExecOpts, gen func(i int) *Item) {
	if r.Aborted() {
		return
	}
	items := make([]*Item, 0, hi-lo)
	for i := lo; i < hi; i++ {
		it := gen(i)
		if it == nil {
			continue
		}
		it.Case.ID = i
		items = append(items, it)
	}
	if len(items) == 0 {
		return
	}
	byID := map[int]*Item{}
	for _, it := range items {
		byID[it.Case.ID] = it
	}
	base := filepath.Join(r.WorkDir, fmt.Sprintf("b%d-%d", k, lo))
	remaining := items
	attempt := 0
	for len(remaining) > 0 {
		attempt++
		casePath := fmt.Sprintf("%s.%d.cases", base, attempt)
		outPath := fmt.Sprintf("%s.%d.out", base, attempt)
		errPath := fmt.Sprintf("%s.%d.err", base, attempt)
		stdoutPath := fmt.Sprintf("%s.%d.stdout", base, attempt)
		f, err := os.Create(casePath)
		if err != nil {
			fatal("create case file: %v", err)
		}
		bw := bufio.NewWriterSize(f, 1<<16)
		enc := json.NewEncoder(bw)
		for _, it := range remaining {
			if err := enc.Encode(&it.Case); err != nil {
				fatal("encode case: %v", err)
			}
		}
		bw.Flush()
		f.Close()

		bin := r.WorkerBin
		if opts.Race {
			bin = r.RaceBin
		}
		cmd := exec.Command(bin, casePath, outPath)
		// the worker's temporary files live inside the run's work directory: what a worker that is killed leaves behind
		// goes away with it
		tmpd := filepath.Join(r.WorkDir, "tmp")
		os.MkdirAll(tmpd, 0o777)
		os.Chmod(tmpd, 0o777|os.ModeSticky)
		cmd.Env = append(append(append(os.Environ(), "TMPDIR="+tmpd), opts.Env...), "VW_REPO_PREFIX="+RepoRoot+"/")
		ef, _ := os.Create(errPath)
		sf, _ := os.Create(stdoutPath)
		var ptyMaster *os.File
		if opts.Stdout == "pty" {
			// the worker's standard output is a terminal (the slave side of a fresh pseudo-terminal; the master side
			// is drained and thrown away): what a library call does differently "on a terminal" shows here
			if m, sl, err := openPty(); err == nil {
				sf.Close()
				sf, ptyMaster = sl, m
				go io.Copy(io.Discard, m)
			} else {
				r.Count("pty_unavailable", 1)
			}
		} else if opts.Stdout != "" {
			if alt, err := os.OpenFile(opts.Stdout, os.O_WRONLY, 0); err == nil {
				sf.Close()
				sf = alt
			}
		}
		cmd.Stderr = ef
		cmd.Stdout = sf
		cmd.Dir = r.WorkDir
		if opts.UID > 0 && os.Geteuid() == 0 {
			// the worker's own output files belong to it; everything else stays root's
			for _, pth := range []string{outPath, outPath + ".guard"} {
				if fh, err := os.OpenFile(pth, os.O_CREATE|os.O_WRONLY, 0o644); err == nil {
					fh.Close()
					os.Chown(pth, opts.UID, opts.UID)
				}
			}
			cmd.SysProcAttr = &syscall.SysProcAttr{Credential: &syscall.Credential{Uid: uint32(opts.UID), Gid: uint32(opts.UID)}}
		}
		if err := cmd.Start(); err != nil {
			fatal("start worker: %v", err)
		}
		done := make(chan error, 1)
		go func() { done <- cmd.Wait() }()
		wallFired := false
		aborted := false
		select {
		case <-done:
		case <-r.abortCh:
			aborted = true
			cmd.Process.Kill()
			<-done
		case <-time.After(time.Duration(opts.WallSecs) * time.Second):
			wallFired = true
			cmd.Process.Kill()
			<-done
		}
		ef.Close()
		sf.Close()
		if ptyMaster != nil {
			ptyMaster.Close()
		}

		// parse output
		completed := map[int]bool{}
		lastBegin := -1
		of, err := os.Open(outPath)
		if err == nil {
			sc := bufio.NewScanner(of)
			sc.Buffer(make([]byte, 1<<20), 1<<29)
			for sc.Scan() {
				line := sc.Bytes()
				if len(line) < 2 {
					continue
				}
				switch line[0] {
				case 'B':
					id, _ := strconv.Atoi(strings.TrimSpace(string(line[2:])))
					lastBegin = id
				case 'E':
					var res wire.Result
					if err := json.Unmarshal(line[2:], &res); err != nil {
						continue // truncated last line of a dying worker
					}
					completed[res.ID] = true
					r.noteSlow(res.ElapsedMs, byID[res.ID])
					if it := byID[res.ID]; it != nil {
						if opts.Race {
							res.Stderr = "" // race reports are collected from GORACE log files by the check
						}
						it.Check(&res)
					}
				}
			}
			of.Close()
		}
		if aborted {
			os.Remove(casePath)
			os.Remove(outPath)
			os.Remove(errPath)
			os.Remove(stdoutPath)
			return
		}
		// anything not completed?
		var rest []*Item
		for _, it := range remaining {
			if !completed[it.Case.ID] {
				rest = append(rest, it)
			}
		}
		if len(rest) == 0 {
			os.Remove(casePath)
			os.Remove(outPath)
			os.Remove(errPath)
			os.Remove(stdoutPath)
			break
		}
		// the worker died: attribute to the case it had begun
		victim := rest[0]
		if lastBegin >= 0 && !completed[lastBegin] {
			if it := byID[lastBegin]; it != nil {
				victim = it
			}
		}
		res := &wire.Result{ID: victim.Case.ID, Died: true, Stderr: head(errPath, 3000)}
		if g := tail(outPath+".guard", 200); g != "" {
			f := strings.Fields(g)
			if len(f) >= 3 {
				res.Guard = f[2]
			}
			os.Remove(outPath + ".guard")
		}
		if wallFired {
			res.Guard = "wall"
		}
		victim.Check(res)
		var next []*Item
		for _, it := range rest {
			if it != victim {
				next = append(next, it)
			}
		}
		remaining = next
		os.Remove(casePath)
		os.Remove(outPath)
		os.Remove(errPath)
		os.Remove(stdoutPath)
		if attempt > 2000 {
			r.Inconclusive("worker kept dying")
			break
		}
	}
}

func (r *Run) noteSlow(ms int, it *Item) {
	if it == nil {
		return
	}
	r.mu.Lock()
	if tf := os.Getenv("VERIF_TIMES"); tf != "" && ms >= 200 {
		// debugging aid: every case that took 200 ms or more
		if f, err := os.OpenFile(tf, os.O_APPEND|os.O_CREATE|os.O_WRONLY, 0o644); err == nil {
			src := string(it.Case.Src)
			if src == "" && len(it.Case.Srcs) > 0 {
				src = string(it.Case.Srcs[0])
			}
			fmt.Fprintf(f, "%d\t%s\t%s\n", ms, it.Case.Op, oneLine(src, 400))
			f.Close()
		}
	}
	if int64(ms) > r.maxes["case_ms"] {
		r.maxes["case_ms"] = int64(ms)
		src := string(it.Case.Src)
		if src == "" && len(it.Case.Srcs) > 0 {
			src = string(it.Case.Srcs[0])
		}
		r.Extra["slowest_case"] = map[string]any{"ms": ms, "op": it.Case.Op, "src": oneLine(src, 300)}
	}
	r.mu.Unlock()
}

// ---- finishing ----------------------------------------------------------------------

type evidence struct {
	PropertyID  string         `json:"property_id"`
	Tier        string         `json:"tier"`
	Seed        int64          `json:"seed"`
	Level       string         `json:"level"`
	Coverage    map[string]any `json:"coverage"`
	Assumptions []string       `json:"assumptions"`
	WallS       float64        `json:"wall_s"`
	Violations  int            `json:"violations"`
}

// Finish writes the evidence, prints the verdict lines and exits.
func (r *Run) Finish() {
	r.mu.Lock()
	defer r.mu.Unlock()
	wall := time.Since(r.start).Seconds()

	obs := map[string]any{}
	keys := make([]string, 0, len(r.counters))
	for k := range r.counters {
		keys = append(keys, k)
	}
	sort.Strings(keys)
	for _, k := range keys {
		obs[k] = r.counters[k]
	}
	for k, v := range r.maxes {
		obs["max_"+k] = v
	}
	nviol := 0
	for _, c := range r.vioSigs {
		nviol += c
	}
	cov := map[string]any{
		"evaluations":         r.evaluations,
		"distinct_nontrivial": len(r.distinct),
		"rule":                r.Rule,
		"samples":             r.samples,
		"observed":            obs,
	}
	if r.Exhaustive {
		cov["exhaustive"] = true
	}
	for k, v := range r.Extra {
		cov[k] = v
	}
	if len(r.knownHits) > 0 {
		cov["known_findings_reobserved"] = r.knownHits
	}
	if n := r.counters["cases_stopped_by_a_resource_guard"]; n > 0 {
		cov["cases_stopped_by_a_resource_guard"] = r.guardSkips
		if n > 10 && n*100 > r.evaluations {
			r.inconclusive[fmt.Sprintf("%d cases were stopped by a resource guard of the worker (more than a hundredth of the cases evaluated)", n)]++
		}
	}
	if len(r.inconclusive) > 0 {
		cov["inconclusive"] = r.inconclusive
	}
	if len(r.vioSigs) > 0 {
		cov["violation_classes"] = r.vioSigs
	}
	select {
	case <-r.abortCh:
		cov["exploration_cut_short"] = fmt.Sprintf("stopped after %d violations", nviol)
	default:
	}
	if len(r.samples) == 0 {
		cov["samples"] = []any{"(no case reached the sampling point)"}
	}
	ev := evidence{PropertyID: r.Prop, Tier: r.Tier, Seed: int64(r.Seed), Level: "exploration",
		Coverage: cov, Assumptions: r.Assumptions, WallS: wall, Violations: nviol}
	if ev.Assumptions == nil {
		ev.Assumptions = []string{}
	}
	evDir := filepath.Join(VerifRoot, "evidence")
	if RepoRoot != "/repo" {
		// evaluating a scratch checkout: never overwrite the evidence that describes /repo
		evDir = filepath.Join(VerifRoot, "bin", "evidence-scratch")
	}
	os.MkdirAll(evDir, 0o755)
	b, _ := json.MarshalIndent(ev, "", " ")
	if err := os.WriteFile(filepath.Join(evDir, r.Prop+".json"), append(b, '\n'), 0o644); err != nil {
		fatal("write evidence: %v", err)
	}

	for _, k := range r.known {
		if n := r.knownHits[k.ID]; n > 0 {
			fmt.Printf("KNOWN-FINDING: property=%s %s: %s (re-observed %d times)\n", r.Prop, k.ID, k.What, n)
		}
	}
	code := 0
	if nviol > 0 {
		os.MkdirAll(filepath.Join(VerifRoot, "replay"), 0o755)
		for _, v := range r.violations {
			jb, _ := json.MarshalIndent(map[string]any{"property": r.Prop, "tier": r.Tier, "seed": r.Seed, "violation": v}, "", " ")
			h := sha256.Sum256(jb)
			p := filepath.Join(VerifRoot, "replay", fmt.Sprintf("%s-%s.json", r.Prop, hex.EncodeToString(h[:6])))
			os.WriteFile(p, jb, 0o644)
			fmt.Printf("VIOLATION property=%s replay=%s\n", r.Prop, p)
			fmt.Printf("  class: %s\n", v.Sig)
			if v.Src != "" {
				fmt.Printf("  src:   %s\n", oneLine(v.Src, 300))
			}
			if v.Text != "" || v.Detail["text_empty"] != nil {
				fmt.Printf("  text:  %q\n", v.Text)
			}
			if v.Panic != "" {
				fmt.Printf("  panic: %s @ %s\n", oneLine(v.Panic, 200), v.Frame)
			}
			for _, dk := range sortedKeys(v.Detail) {
				fmt.Printf("  %s: %v\n", dk, oneLine(fmt.Sprint(v.Detail[dk]), 400))
			}
		}
		fmt.Printf("violations: %d in %d classes: %v\n", nviol, len(r.vioSigs), r.vioSigs)
		code = 1
	} else if len(r.inconclusive) > 0 {
		for k, n := range r.inconclusive {
			fmt.Printf("INCONCLUSIVE property=%s %s (x%d)\n", r.Prop, k, n)
		}
		code = 3
	}
	fmt.Printf("%s %s seed=%d: evaluations=%d distinct_nontrivial=%d violations=%d wall=%.1fs\n",
		r.Prop, r.Tier, r.Seed, r.evaluations, len(r.distinct), nviol, wall)
	if os.Getenv("VERIF_KEEP_WORK") == "" {
		os.RemoveAll(r.WorkDir)
	}
	os.Exit(code)
}

func sortedKeys(m map[string]any) []string {
	ks := make([]string, 0, len(m))
	for k := range m {
		ks = append(ks, k)
	}
	sort.Strings(ks)
	return ks
}

func oneLine(s string, n int) string {
	s = strings.ReplaceAll(s, "\n", "\\n")
	if len(s) > n {
		s = s[:n] + "..."
	}
	return s
}

// openPty returns the two sides of a fresh pseudo-terminal (Linux: /dev/ptmx, TIOCSPTLCK, TIOCGPTN).
func openPty() (master, slave *os.File, err error) {
	master, err = os.OpenFile("/dev/ptmx", os.O_RDWR|syscall.O_NOCTTY, 0)
	if err != nil {
		return nil, nil, err
	}
	var unlock int32
	if _, _, e := syscall.Syscall(syscall.SYS_IOCTL, master.Fd(), syscall.TIOCSPTLCK, uintptr(unsafe.Pointer(&unlock))); e != 0 {
		master.Close()
		return nil, nil, e
	}
	var n uint32
	if _, _, e := syscall.Syscall(syscall.SYS_IOCTL, master.Fd(), syscall.TIOCGPTN, uintptr(unsafe.Pointer(&n))); e != 0 {
		master.Close()
		return nil, nil, e
	}
	slave, err = os.OpenFile(fmt.Sprintf("/dev/pts/%d", n), os.O_RDWR|syscall.O_NOCTTY, 0)
	if err != nil {
		master.Close()
		return nil, nil, err
	}
	return master, slave, nil
}
