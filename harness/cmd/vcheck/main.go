// vcheck is the deciding driver: vcheck <PROPERTY> <quick|thorough> | --replay <file>
package main

import (
	"encoding/json"
	"fmt"
	"os"
	"strconv"

	"verifharness/checks"
	"verifharness/drv"
	"verifharness/wire"
)

func main() {
	if len(os.Args) >= 3 && os.Args[1] == "--replay" {
		replay(os.Args[2])
		return
	}
	if len(os.Args) < 2 {
		fmt.Fprintln(os.Stderr, "usage: vcheck <C01..C20> <quick|thorough> | --replay <file>")
		os.Exit(2)
	}
	prop := os.Args[1]
	tier := "quick"
	if len(os.Args) >= 3 {
		tier = os.Args[2]
	} else if t := os.Getenv("VERIF_TIER"); t != "" {
		tier = t
	}
	if tier != "quick" && tier != "thorough" {
		fmt.Fprintln(os.Stderr, "tier must be quick or thorough")
		os.Exit(2)
	}
	var seed uint64 = 1
	if s := os.Getenv("VERIF_SEED"); s != "" {
		if n, err := strconv.ParseInt(s, 10, 64); err == nil {
			seed = uint64(n)
		}
	}
	f, ok := checks.Registry[prop]
	if !ok {
		fmt.Fprintln(os.Stderr, "unknown property", prop)
		os.Exit(2)
	}
	r := drv.NewRun(prop, tier, seed)
	f(r)
	r.Finish()
}

func replay(path string) {
	b, err := os.ReadFile(path)
	if err != nil {
		fmt.Fprintln(os.Stderr, err)
		os.Exit(2)
	}
	var doc struct {
		Property  string         `json:"property"`
		Violation *drv.Violation `json:"violation"`
	}
	if err := json.Unmarshal(b, &doc); err != nil || doc.Violation == nil {
		fmt.Fprintln(os.Stderr, "not a replay file:", err)
		os.Exit(2)
	}
	fmt.Printf("property %s, class %s\n", doc.Property, doc.Violation.Sig)
	for k, v := range doc.Violation.Detail {
		fmt.Printf("  %s: %v\n", k, v)
	}
	if doc.Violation.Case == nil {
		fmt.Println("(no worker case recorded for this violation)")
		return
	}
	r := drv.NewRun(doc.Property+"-replay", "quick", 0)
	r.BuildWorker()
	r.Exec(1, drv.ExecOpts{Batch: 1}, func(i int) *drv.Item {
		return &drv.Item{Case: *doc.Violation.Case, Check: func(res *wire.Result) {
			out, _ := json.MarshalIndent(res, "", " ")
			fmt.Println(string(out))
		}}
	})
	os.RemoveAll(r.WorkDir)
}
