package main

import (
	"bytes"
	"fmt"
	"os"
	"runtime"
	"strings"
	"sync"
	"sync/atomic"

	"github.com/jmeaster30/vore/libvore/ast"
	"github.com/jmeaster30/vore/libvore/bytecode"
	"github.com/jmeaster30/vore/libvore/engine"
	"github.com/jmeaster30/vore/libvore/files"

	"verifharness/wire"
)

// budgetSentinel is what the hooks panic with when a logical budget is exceeded.
type budgetSentinel struct {
	kind  string
	count int
}

// ---- step monitor (H1) ------------------------------------------------------

type stepMon struct {
	on       bool
	steps    int
	budget   int
	bt       int
	prevBT   int
	maxBT    int
	maxCall  int
	maxLoop  int
	kinds    map[string]int
	wantKind bool
	// no-progress detector: the same instruction with the same stack depths, over and over
	lastPC, lastBT, lastCall, lastLoop int
	lastStart, lastOff                 int
	curStart, curOff                   int
	same                               int
	work                               int // sum of the call-stack depths over the steps
}

func stepPosHook(start, off int) {
	if concMode.Load() || !sm.on {
		return
	}
	sm.curStart, sm.curOff = start, off
}

// stuckAfter: consecutive steps at one pc with unchanged backtrack/call/loop depths, in the same attempt (start
// offset) at the same input offset. No instruction of the VM leaves all of these unchanged when it completes (it
// advances, jumps, calls, returns, backtracks, or the scan moves on to the next start offset), so a run this
// long can only be an instruction that returns without doing any of these.
const stuckAfter = 20000

var sm stepMon

// concurrent mode: only yields, all state atomic
var concMode atomic.Bool
var yieldArmed atomic.Bool
var yieldCtr atomic.Uint64
var yieldsTaken atomic.Int64

func instKind(i bytecode.SearchInstruction) string {
	switch i.(type) {
	case bytecode.MatchLiteral:
		return "MatchLiteral"
	case bytecode.MatchCharClass:
		return "MatchCharClass"
	case bytecode.MatchVariable:
		return "MatchVariable"
	case bytecode.MatchRange:
		return "MatchRange"
	case bytecode.CallSubroutine:
		return "CallSubroutine"
	case bytecode.Branch:
		return "Branch"
	case bytecode.StartNotIn:
		return "StartNotIn"
	case bytecode.EndNotIn:
		return "EndNotIn"
	case bytecode.FailNotIn:
		return "FailNotIn"
	case bytecode.StartLoop:
		return "StartLoop"
	case bytecode.StopLoop:
		return "StopLoop"
	case bytecode.StartVarDec:
		return "StartVarDec"
	case bytecode.EndVarDec:
		return "EndVarDec"
	case bytecode.StartSubroutine:
		return "StartSubroutine"
	case bytecode.EndSubroutine:
		return "EndSubroutine"
	case bytecode.Jump:
		return "Jump"
	}
	return fmt.Sprintf("%T", i)
}

func maybeYield() { maybeYieldMask(3) }

func maybeYieldMask(mask uint64) {
	if !yieldArmed.Load() {
		return
	}
	n := yieldCtr.Add(0x9E3779B97F4A7C15)
	n ^= n >> 29
	if n&mask == 0 {
		yieldsTaken.Add(1)
		runtime.Gosched()
	}
}

func stepHook(pc int, inst bytecode.SearchInstruction, btDepth int, callDepth int, loopDepth int) {
	if concMode.Load() {
		maybeYield()
		return
	}
	if !sm.on {
		return
	}
	sm.steps++
	if btDepth < sm.prevBT {
		sm.bt++
	}
	sm.prevBT = btDepth
	if btDepth > sm.maxBT {
		sm.maxBT = btDepth
	}
	if callDepth > sm.maxCall {
		sm.maxCall = callDepth
	}
	if loopDepth > sm.maxLoop {
		sm.maxLoop = loopDepth
	}
	if sm.wantKind {
		sm.kinds[instKind(inst)]++
	}
	if pc == sm.lastPC && btDepth == sm.lastBT && callDepth == sm.lastCall && loopDepth == sm.lastLoop && sm.curStart == sm.lastStart && sm.curOff == sm.lastOff && sm.steps > 1 {
		sm.same++
		if sm.same >= stuckAfter {
			panic(budgetSentinel{"stuck at pc " + fmt.Sprint(pc) + " (" + instKind(inst) + ") after steps", sm.steps})
		}
	} else {
		sm.same = 0
		sm.lastPC, sm.lastBT, sm.lastCall, sm.lastLoop = pc, btDepth, callDepth, loopDepth
		sm.lastStart, sm.lastOff = sm.curStart, sm.curOff
	}
	if sm.budget > 0 && sm.steps > sm.budget {
		panic(budgetSentinel{"steps", sm.steps})
	}
	// the VM copies its call stack on every step: the work of a run is the sum of the stack depths over its steps. A
	// runaway recursion reaches that bound (200 x the step budget) after a few thousand steps, long before it has used
	// the CPU-seconds a library call may take
	sm.work += callDepth
	if sm.budget > 0 && sm.work > 200*sm.budget {
		panic(budgetSentinel{"call-stack work after steps", sm.steps})
	}
}

func startSteps(budget int) {
	sm = stepMon{on: true, budget: budget, kinds: map[string]int{}, wantKind: true}
}

func stopSteps(r *wire.Run) {
	sm.on = false
	r.Steps = sm.steps
	r.Backtracks = sm.bt
	r.MaxBT = sm.maxBT
	r.MaxCall = sm.maxCall
	r.MaxLoop = sm.maxLoop
	r.Kinds = sm.kinds
}

// ---- lexer read monitor (H2) --------------------------------------------------

var lexReads int
var lexBudget int
var lexOn bool

func lexHook() {
	if concMode.Load() {
		maybeYieldMask(31) // the lexer runs before anything a compile might serialise: let lexing phases interleave
		return
	}
	if !lexOn {
		return
	}
	lexReads++
	if lexBudget > 0 && lexReads > lexBudget {
		panic(budgetSentinel{"lexreads", lexReads})
	}
}

// ---- file monitors (H4, H5) ---------------------------------------------------

type fileMon struct {
	mu        sync.Mutex
	on        bool
	truths    [][]byte
	reads     int
	mismatch  string
	fwd, back int
	edge      int
	lastByte  int
	lastStart int64
	haveStart bool
	opens     []string
	// rows: readers that are being read in a row without a seek in between; the place such a reader is at is then
	// this, not the offset of its last seek that the hook reports
	rows map[*files.Reader]int
}

var fm fileMon

func fileMonRow(r *files.Reader, off int) {
	fm.mu.Lock()
	if fm.rows == nil {
		fm.rows = map[*files.Reader]int{}
	}
	if off < 0 {
		delete(fm.rows, r)
	} else {
		fm.rows[r] = off
	}
	fm.mu.Unlock()
}

func readHook(r *files.Reader, op string, offset int, length int, buf []byte, n int) {
	fm.mu.Lock()
	defer fm.mu.Unlock()
	if !fm.on {
		return
	}
	fm.reads++
	if fm.mismatch != "" {
		return
	}
	size := r.Size()
	if at, ok := fm.rows[r]; ok && op == "read" {
		offset = at
		fm.rows[r] = at + n
	}
	okAny := false
	for _, t := range fm.truths {
		if len(t) != size {
			continue
		}
		if offset < 0 || offset+length > len(t) {
			continue
		}
		if n == length && bytes.Equal(buf[:n], t[offset:offset+length]) {
			okAny = true
			if length > 0 && offset+length == len(t) {
				fm.lastByte++
			}
			if length > 1 && offset/4096 != (offset+length-1)/4096 {
				fm.edge++
			}
			break
		}
	}
	if !okAny {
		fm.mismatch = fmt.Sprintf("%s offset=%d len=%d n=%d size=%d got=%q", op, offset, length, n, size, string(buf[:min(n, 32)]))
	}
}

func refillHook(requested int64, windowStart int64, bytesRead int) {
	fm.mu.Lock()
	defer fm.mu.Unlock()
	if !fm.on {
		return
	}
	if fm.haveStart {
		if windowStart > fm.lastStart {
			fm.fwd++
		} else if windowStart < fm.lastStart {
			fm.back++
		}
	}
	fm.lastStart = windowStart
	fm.haveStart = true
}

func openWriteHook(path string) {
	fm.mu.Lock()
	defer fm.mu.Unlock()
	fm.opens = append(fm.opens, path)
}

func startFileMon(truths [][]byte) {
	fm.mu.Lock()
	fm.on = true
	fm.truths = truths
	fm.reads, fm.mismatch, fm.fwd, fm.back, fm.edge, fm.lastByte = 0, "", 0, 0, 0, 0
	fm.haveStart = false
	fm.opens = nil
	fm.rows = nil
	fm.mu.Unlock()
}

func stopFileMon(r *wire.Run) {
	fm.mu.Lock()
	fm.on = false
	r.Reads = fm.reads
	r.ReadMismatch = fm.mismatch
	r.RefillFwd, r.RefillBack = fm.fwd, fm.back
	r.EdgeReads, r.LastByteReads = fm.edge, fm.lastByte
	r.WriteOpens = fm.opens
	fm.opens = nil
	fm.mu.Unlock()
}

func yieldHook(site string) {
	if concMode.Load() {
		maybeYield()
	}
}

func installHooks() {
	engine.VerifStep = stepHook
	engine.VerifStepPos = stepPosHook
	ast.VerifLexRead = lexHook
	ast.VerifYield = yieldHook
	bytecode.VerifYield = yieldHook
	files.VerifRead = readHook
	files.VerifRefill = refillHook
	files.VerifOpenWrite = openWriteHook
}

// ---- panic capture -----------------------------------------------------------

var repoPrefix = func() string {
	if v := os.Getenv("VW_REPO_PREFIX"); v != "" {
		return v
	}
	return "/repo/"
}()

func panicInfo(r any) *wire.PanicInfo {
	buf := make([]byte, 1<<16)
	n := runtime.Stack(buf, false)
	st := string(buf[:n])
	frame := ""
	lines := strings.Split(st, "\n")
	for i := 0; i+1 < len(lines); i++ {
		l := strings.TrimSpace(lines[i+1])
		if strings.HasPrefix(l, repoPrefix) && !strings.Contains(l, "hooks_verif.go") {
			fn := strings.TrimSpace(lines[i])
			if k := strings.LastIndex(fn, "("); k > 0 {
				fn = fn[:k]
			}
			if k := strings.LastIndex(fn, "/"); k >= 0 {
				fn = fn[k+1:]
			}
			loc := "/repo/" + strings.TrimPrefix(l, repoPrefix)
			if k := strings.Index(loc, " +0x"); k > 0 {
				loc = loc[:k]
			}
			frame = fn + " " + loc
			break
		}
	}
	msg := ""
	switch v := r.(type) {
	case error:
		msg = v.Error()
	default:
		msg = fmt.Sprint(r)
	}
	if len(st) > 4000 {
		st = st[:4000]
	}
	return &wire.PanicInfo{Msg: msg, Frame: frame, Stack: st}
}
