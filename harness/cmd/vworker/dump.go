package main

import (
	"fmt"
	"reflect"
	"sort"
	"strconv"
	"strings"
)

// dumper renders any value canonically: pointers and interfaces are followed, unexported
// fields are read through reflection, loop ids (random per compilation) are replaced by
// their order of first appearance.
type dumper struct {
	sb      strings.Builder
	loopIDs map[int64]int
	holes   []string
	depth   int
}

func newDumper() *dumper { return &dumper{loopIDs: map[int64]int{}} }

func (d *dumper) dump(v reflect.Value, path string) {
	d.depth++
	defer func() { d.depth-- }()
	if d.depth > 400 {
		d.sb.WriteString("<deep>")
		return
	}
	switch v.Kind() {
	case reflect.Invalid:
		d.sb.WriteString("<invalid>")
		d.holes = append(d.holes, path+":invalid")
	case reflect.Interface:
		if v.IsNil() {
			d.sb.WriteString("<nil-iface>")
			d.holes = append(d.holes, path+":nil-interface("+v.Type().String()+")")
			return
		}
		d.dump(v.Elem(), path)
	case reflect.Ptr:
		if v.IsNil() {
			d.sb.WriteString("<nil-ptr>")
			d.holes = append(d.holes, path+":nil-pointer("+v.Type().String()+")")
			return
		}
		d.sb.WriteString("&")
		d.dump(v.Elem(), path)
	case reflect.Struct:
		t := v.Type()
		d.sb.WriteString(t.Name())
		d.sb.WriteString("{")
		for i := 0; i < v.NumField(); i++ {
			if i > 0 {
				d.sb.WriteString(" ")
			}
			fn := t.Field(i).Name
			d.sb.WriteString(fn)
			d.sb.WriteString(":")
			if fn == "Id" && (t.Name() == "StartLoop" || t.Name() == "StopLoop") && v.Field(i).Kind() == reflect.Int64 {
				id := v.Field(i).Int()
				k, ok := d.loopIDs[id]
				if !ok {
					k = len(d.loopIDs)
					d.loopIDs[id] = k
				}
				d.sb.WriteString("L" + strconv.Itoa(k))
				continue
			}
			d.dump(v.Field(i), path+"."+fn)
		}
		d.sb.WriteString("}")
	case reflect.Slice, reflect.Array:
		d.sb.WriteString("[")
		for i := 0; i < v.Len(); i++ {
			if i > 0 {
				d.sb.WriteString(" ")
			}
			d.dump(v.Index(i), path+"["+strconv.Itoa(i)+"]")
		}
		d.sb.WriteString("]")
	case reflect.Map:
		keys := v.MapKeys()
		sort.Slice(keys, func(i, j int) bool { return fmt.Sprint(keys[i]) < fmt.Sprint(keys[j]) })
		d.sb.WriteString("map[")
		for _, k := range keys {
			d.dump(k, path)
			d.sb.WriteString(":")
			d.dump(v.MapIndex(k), path+"["+fmt.Sprint(k)+"]")
			d.sb.WriteString(" ")
		}
		d.sb.WriteString("]")
	case reflect.String:
		d.sb.WriteString(strconv.Quote(v.String()))
	case reflect.Bool:
		d.sb.WriteString(strconv.FormatBool(v.Bool()))
	case reflect.Int, reflect.Int8, reflect.Int16, reflect.Int32, reflect.Int64:
		d.sb.WriteString(strconv.FormatInt(v.Int(), 10))
	case reflect.Uint, reflect.Uint8, reflect.Uint16, reflect.Uint32, reflect.Uint64:
		d.sb.WriteString(strconv.FormatUint(v.Uint(), 10))
	default:
		d.sb.WriteString("<" + v.Kind().String() + ">")
	}
}

func canonical(x any) (string, []string) {
	d := newDumper()
	d.dump(reflect.ValueOf(x), "")
	return d.sb.String(), d.holes
}
