package main

import (
	"crypto/sha256"
	"encoding/hex"
	"encoding/json"
	"fmt"
	"os"
	"path/filepath"
	"reflect"
	"runtime"
	"sort"
	"strings"
	"sync"
	"sync/atomic"
	"syscall"
	"time"

	"github.com/jmeaster30/vore/libvore"
	"github.com/jmeaster30/vore/libvore/bytecode"
	"github.com/jmeaster30/vore/libvore/engine"
	"github.com/jmeaster30/vore/libvore/files"

	"verifharness/wire"
)

func execCase(c *wire.Case) (res *wire.Result) {
	res = &wire.Result{ID: c.ID}
	defer func() {
		if r := recover(); r != nil {
			res.Panic = panicInfo(r)
		}
	}()
	for _, ps := range c.Prelude {
		func() {
			defer func() { recover() }() // whatever a prelude compile does is judged by the checks that own it
			libvore.Compile(string(ps))
		}()
	}
	switch c.Op {
	case "compile":
		_, cr := doCompile(c.Src, c)
		res.Compile = cr
	case "compilefile":
		opCompileFile(c, res)
	case "jsonscan":
		opJSONScan(c, res)
	case "bigwindows":
		opBigWindows(c, res)
	case "run", "json":
		opRun(c, res)
	case "astcmp":
		opASTCmp(c, res)
	case "runfiles":
		opRunFiles(c, res)
	case "reader":
		opReader(c, res)
	case "hugerun":
		opHugeRun(c, res)
	case "readerbig":
		opReaderBig(c, res)
	case "glob":
		opGlob(c, res)
	case "hist":
		opHist(c, res)
	case "conc":
		opConc(c, res)
	case "session":
		opSession(c, res)
	default:
		res.Panic = &wire.PanicInfo{Msg: "unknown op " + c.Op}
	}
	return res
}

func hashStr(s string) string {
	h := sha256.Sum256([]byte(s))
	return hex.EncodeToString(h[:12])
}

// doCompile compiles under the lexer-read monitor and classifies the outcome.
func doCompile(src []byte, c *wire.Case) (v *libvore.Vore, cr *wire.Compile) {
	cr = &wire.Compile{}
	caseStartCPU.Store(cpuMicros())
	caseStartWall.Store(time.Now().UnixNano())
	lexReads = 0
	lexBudget = c.LexBudget
	if lexBudget == 0 {
		lexBudget = 64*(len(src)+8) + 4096
	}
	lexOn = true
	var err error
	func() {
		defer func() {
			lexOn = false
			if r := recover(); r != nil {
				if b, ok := r.(budgetSentinel); ok {
					cr.Budget = fmt.Sprintf("%s:%d", b.kind, b.count)
				} else {
					cr.Panic = panicInfo(r)
				}
				v = nil
				err = nil
			}
		}()
		if compileViaPath != "" {
			v, err = libvore.CompileFile(compileViaPath)
		} else if compileViaFile {
			f, ferr := os.CreateTemp("", "vw-src-*.vore")
			if ferr != nil {
				panic("harness: " + ferr.Error())
			}
			f.Write(src)
			f.Close()
			defer os.Remove(f.Name())
			v, err = libvore.CompileFile(f.Name())
		} else {
			v, err = libvore.Compile(string(src))
		}
	}()
	cr.LexReads = lexReads
	if cr.Panic != nil || cr.Budget != "" {
		return nil, cr
	}
	if v == nil && err == nil {
		cr.BothNil = true
		return nil, cr
	}
	if v != nil && err != nil {
		cr.BothSet = true
	}
	if err != nil {
		cr.ErrType = fmt.Sprintf("%T", err)
		func() {
			defer func() {
				if r := recover(); r != nil {
					cr.ErrPanic = panicInfo(r)
				}
			}()
			cr.Err = err.Error()
		}()
		return nil, cr
	}
	cr.OK = true
	// structural walk of the AST for holes left by a failed parse
	astDump, holes := canonical(v.VerifAST())
	cr.Holes = holes
	if len(cr.Holes) > 8 {
		cr.Holes = cr.Holes[:8]
	}
	if c.WantAST {
		cr.AST = astDump
	}
	bc := v.VerifBytecode()
	if bc == nil {
		cr.Holes = append(cr.Holes, "bytecode:nil")
	} else {
		if c.WantBC {
			d, _ := canonical(bc)
			cr.BC = hashStr(d)
		}
		cr.Reloc, cr.NInst = relocKinds(bc)
	}
	return v, cr
}

// relocKinds lists "name:Kind" for every instruction found between a StartSubroutine and its end.
func relocKinds(bc *bytecode.Bytecode) ([]string, int) {
	seen := map[string]bool{}
	n := 0
	scan := func(body []bytecode.SearchInstruction) {
		n += len(body)
		for pc, inst := range body {
			if ss, ok := inst.(bytecode.StartSubroutine); ok {
				for q := pc + 1; q < len(body) && q < ss.EndOffset; q++ {
					seen[ss.Name+":"+instKind(body[q])] = true
				}
			}
		}
	}
	for _, cmd := range bc.Bytecode {
		switch c := cmd.(type) {
		case bytecode.FindCommand:
			scan(c.Body)
		case bytecode.ReplaceCommand:
			scan(c.Body)
		}
	}
	out := make([]string, 0, len(seen))
	for k := range seen {
		out = append(out, k)
	}
	sort.Strings(out)
	return out, n
}

func convVar(v engine.Value) *wire.Var {
	if v == nil {
		return nil
	}
	switch x := v.(type) {
	case engine.ValueString:
		return &wire.Var{Str: []byte(x.Value)}
	case engine.ValueHashMap:
		m := &wire.Var{IsMap: true, Map: map[string]*wire.Var{}}
		for k, e := range x.Value {
			m.Map[k] = convVar(e)
		}
		return m
	}
	return &wire.Var{Str: []byte(fmt.Sprintf("<unknown value %T>", v))}
}

func convMatches(ms engine.Matches) []wire.Match {
	out := make([]wire.Match, 0, len(ms))
	for _, m := range ms {
		w := wire.Match{
			File: m.Filename, Num: m.MatchNumber,
			S: m.Offset.Start, E: m.Offset.End,
			L1: m.Line.Start, L2: m.Line.End,
			C1: m.Column.Start, C2: m.Column.End,
			Val: []byte(m.Value),
		}
		if m.Replacement.HasValue() {
			w.HasRepl = true
			w.Repl = []byte(m.Replacement.GetValue())
		}
		if m.Variables.Value != nil {
			w.Vars = convVar(m.Variables)
		} else {
			w.Vars = &wire.Var{IsMap: true, Map: map[string]*wire.Var{}}
		}
		out = append(out, w)
	}
	return out
}

func stepBudget(c *wire.Case) int {
	if c.StepBudget > 0 {
		return c.StepBudget
	}
	return 50_000_000
}

// monitoredRun executes fn (a Run or RunFiles call) under the step monitor.
func monitoredRun(c *wire.Case, fn func() engine.Matches) (r wire.Run, ms engine.Matches) {
	caseStartCPU.Store(cpuMicros()) // the guards bound one library call, not one case
	caseStartWall.Store(time.Now().UnixNano())
	startSteps(stepBudget(c))
	func() {
		defer func() {
			if rec := recover(); rec != nil {
				if b, ok := rec.(budgetSentinel); ok {
					r.Budget = fmt.Sprintf("%s:%d", b.kind, b.count)
				} else {
					r.Panic = panicInfo(rec)
				}
				ms = nil
			}
		}()
		ms = fn()
	}()
	stopSteps(&r)
	if r.Panic == nil && r.Budget == "" {
		r.Matches = convMatches(ms)
	}
	return r, ms
}

func renderJSON(c *wire.Case, r *wire.Run, ms engine.Matches) {
	if !c.WantJSON || r.Panic != nil || r.Budget != "" {
		return
	}
	func() {
		defer func() {
			if rec := recover(); rec != nil {
				r.JSONErr = panicInfo(rec)
			}
		}()
		r.JSON = []byte(ms.Json())
	}()
	func() {
		defer func() {
			if rec := recover(); rec != nil {
				r.FJSONErr = panicInfo(rec)
			}
		}()
		r.FJSON = []byte(ms.FormattedJson())
	}()
	if c.ConcRender > 0 && r.JSONErr == nil && r.FJSONErr == nil && len(ms) > 0 {
		// ONE result list rendered by several goroutines at the same time (a server answering two requests from one
		// cached result): every rendering is the text the list gives when rendered alone
		var wg sync.WaitGroup
		var mu sync.Mutex
		bad := ""
		for g := 0; g < c.ConcRender; g++ {
			wg.Add(1)
			go func(g int) {
				defer wg.Done()
				defer func() {
					if rec := recover(); rec != nil {
						mu.Lock()
						bad = fmt.Sprint("a concurrent rendering panicked: ", rec)
						mu.Unlock()
					}
				}()
				for k := 0; k < 12; k++ {
					var got, want string
					if (g+k)%2 == 0 {
						got, want = ms.Json(), string(r.JSON)
					} else {
						got, want = ms.FormattedJson(), string(r.FJSON)
					}
					if got != want {
						mu.Lock()
						if bad == "" {
							bad = fmt.Sprintf("rendered next to %d other renderings of the same list: %d bytes instead of %d", c.ConcRender-1, len(got), len(want))
						}
						mu.Unlock()
						return
					}
				}
			}(g)
		}
		wg.Wait()
		if bad != "" {
			r.ConcRenderMismatch = bad
		}
	}
}

func opRun(c *wire.Case, res *wire.Result) {
	v, cr := doCompile(c.Src, c)
	res.Compile = cr
	if v == nil {
		return
	}
	type rendered struct {
		ms    engine.Matches
		j, fj string
		ti    int
	}
	var kept []rendered
	for ti, t := range c.Texts {
		text := string(t)
		r, ms := monitoredRun(c, func() engine.Matches { return v.Run(text) })
		if ms == nil {
			ms = engine.Matches{}
		}
		renderJSON(c, &r, ms)
		if c.WantJSON && r.JSONErr == nil && r.FJSONErr == nil && r.Panic == nil && r.Budget == "" && len(ms) > 0 {
			kept = append(kept, rendered{ms, string(r.JSON), string(r.FJSON), ti})
		}
		res.Runs = append(res.Runs, r)
	}
	// a caller may keep one result buffer and refill it: the rendering is a function of what the list holds NOW
	for a := 0; a < len(kept) && res.Mismatch == ""; a++ {
		for b := 0; b < len(kept); b++ {
			if a == b || len(kept[a].ms) != len(kept[b].ms) || kept[a].j == kept[b].j {
				continue
			}
			buf := kept[a].ms
			saved := append(engine.Matches{}, buf...)
			var j, fj string
			func() {
				defer func() { recover() }()
				_, _ = buf.Json(), buf.FormattedJson()  // rendered with its own matches last of all ...
				copy(buf, kept[b].ms)                   // ... refilled in place ...
				j, fj = buf.Json(), buf.FormattedJson() // ... and rendered again
			}()
			copy(buf, saved)
			if j != kept[b].j || fj != kept[b].fj {
				res.Mismatch = fmt.Sprintf("result list of text %d, rendered, then refilled in place with the %d matches of text %d: rendered again it gives %.120s where the list now holds %.120s", kept[a].ti, len(buf), kept[b].ti, j, kept[b].j)
			}
			break
		}
	}
	if c.WantBC {
		d, _ := canonical(v.VerifBytecode())
		cr.BCAfter = hashStr(d)
	}
}

// opJSONScan: one program run on one text; then EVERY prefix length n of its result list with c.Ops <= n < c.Seed
// is rendered both ways and both texts must be valid JSON (checked here, in the worker: shipping millions of
// matches to the driver would cost more than rendering them).
func opJSONScan(c *wire.Case, res *wire.Result) {
	v, cr := doCompile(c.Src, c)
	res.Compile = cr
	if v == nil || len(c.Texts) == 0 {
		return
	}
	var ms engine.Matches
	func() {
		defer func() {
			if r := recover(); r != nil {
				res.Panic = panicInfo(r)
			}
		}()
		ms = v.Run(string(c.Texts[0]))
	}()
	res.Counters = map[string]int{"matches": len(ms)}
	// lists a caller can build itself: the nil list, the empty list, an emptied list that keeps its capacity
	for name, l := range map[string]engine.Matches{"nil": nil, "empty": {}, "emptied": ms[:0]} {
		var j, f string
		var p any
		func() {
			defer func() { p = recover() }()
			j, f = l.Json(), l.FormattedJson()
		}()
		if p != nil {
			res.Mismatch = fmt.Sprintf("rendering the %s list panicked: %v", name, p)
			return
		}
		var dj, df any
		if json.Unmarshal([]byte(j), &dj) != nil || json.Unmarshal([]byte(f), &df) != nil {
			res.Mismatch = fmt.Sprintf("the %s list does not render as JSON: Json() %q FormattedJson() %q", name, j, f)
			return
		}
		if !reflect.DeepEqual(dj, df) {
			res.Mismatch = fmt.Sprintf("Json() and FormattedJson() of the %s list are different documents: %q and %q", name, j, f)
			return
		}
		res.Counters["special_lists_rendered"]++
	}
	lo, hi := c.Ops, int(c.Seed)
	for n := lo; n < hi && n <= len(ms); n++ {
		sub := ms[:n]
		var j, f string
		var p any
		func() {
			defer func() { p = recover() }()
			j, f = sub.Json(), sub.FormattedJson()
		}()
		if p != nil {
			res.Mismatch = fmt.Sprintf("rendering a list of %d matches panicked: %v", n, p)
			return
		}
		if !json.Valid([]byte(j)) {
			res.Mismatch = fmt.Sprintf("Json() of a list of %d matches is not valid JSON (ends %q)", n, tailOf(j, 24))
			return
		}
		if !json.Valid([]byte(f)) {
			res.Mismatch = fmt.Sprintf("FormattedJson() of a list of %d matches is not valid JSON (ends %q)", n, tailOf(f, 24))
			return
		}
		res.Counters["lengths_rendered"]++
	}
}

func tailOf(s string, n int) string {
	if len(s) > n {
		return s[len(s)-n:]
	}
	return s
}

// compileViaFile: the next doCompile goes through CompileFile
var compileViaFile bool

// compileViaPath: the next doCompile is CompileFile of this path
var compileViaPath string

// opCompileFile: the source delivered through the file system in the way c.Mode names - a regular file, a symbolic
// link to it, a named pipe, /dev/null (then the source is empty), a directory, a missing path. Compiles[0] is the
// outcome of CompileFile, Compiles[1] that of Compile on the same bytes.
func opCompileFile(c *wire.Case, res *wire.Result) {
	dir, err := os.MkdirTemp("", "vw-cf-*")
	if err != nil {
		res.Panic = &wire.PanicInfo{Msg: "harness: " + err.Error()}
		return
	}
	defer os.RemoveAll(dir)
	src := c.Src
	path := filepath.Join(dir, "prog.vore")
	switch c.Mode {
	case "file":
		os.WriteFile(path, src, 0o644)
	case "symlink":
		os.WriteFile(filepath.Join(dir, "real.vore"), src, 0o644)
		os.Symlink("real.vore", path)
	case "fifo":
		if err := syscall.Mkfifo(path, 0o644); err != nil {
			res.Panic = &wire.PanicInfo{Msg: "harness: mkfifo: " + err.Error()}
			return
		}
		go func() {
			if f, err := os.OpenFile(path, os.O_WRONLY, 0); err == nil {
				f.Write(src)
				f.Close()
			}
		}()
	case "devnull":
		path, src = "/dev/null", nil
	case "dir":
		path = dir
	case "missing":
		path = filepath.Join(dir, "no-such-file.vore")
	}
	compileViaPath = path
	_, cr := doCompile(src, c)
	compileViaPath = ""
	res.Compiles = append(res.Compiles, *cr)
	_, cr2 := doCompile(src, c)
	res.Compiles = append(res.Compiles, *cr2)
}

func opASTCmp(c *wire.Case, res *wire.Result) {
	var base string
	var baseV *libvore.Vore
	for i, s := range c.Srcs {
		cc := *c
		cc.WantAST = false
		compileViaFile = false
		for _, k := range c.ViaFile {
			if k == i {
				compileViaFile = true
			}
		}
		v, cr := doCompile(s, &cc)
		compileViaFile = false
		eq := false
		if v != nil {
			d, _ := canonical(v.VerifAST())
			if i == 0 {
				base = d
				baseV = v
				eq = true
			} else if baseV != nil {
				eq = d == base && reflect.DeepEqual(v.VerifAST(), baseV.VerifAST())
			}
			if c.WantAST && !eq {
				cr.AST = d
			}
		}
		res.Compiles = append(res.Compiles, *cr)
		res.ASTEqual = append(res.ASTEqual, eq)
		// run texts on every variant so results can be compared too
		if v != nil {
			for _, t := range c.Texts {
				text := string(t)
				r, _ := monitoredRun(c, func() engine.Matches { return v.Run(text) })
				r.Kinds = nil
				res.Runs = append(res.Runs, r)
			}
		} else {
			for range c.Texts {
				res.Runs = append(res.Runs, wire.Run{Budget: "not-compiled"})
			}
		}
	}
}

func parseMode(s string) engine.ReplaceMode {
	switch s {
	case "NEW":
		return engine.NEW
	case "OVERWRITE":
		return engine.OVERWRITE
	}
	return engine.NOTHING
}

func opRunFiles(c *wire.Case, res *wire.Result) {
	v, cr := doCompile(c.Src, c)
	res.Compile = cr
	if v == nil {
		return
	}
	var truths [][]byte
	for _, f := range c.Files {
		st, err := os.Stat(f)
		if err != nil {
			continue
		}
		if st.IsDir() {
			ents, _ := os.ReadDir(f)
			for _, e := range ents {
				if b, err := os.ReadFile(filepath.Join(f, e.Name())); err == nil {
					truths = append(truths, b)
				}
			}
		} else if b, err := os.ReadFile(f); err == nil {
			truths = append(truths, b)
		}
	}
	startFileMon(truths)
	mode := parseMode(c.Mode)
	if c.FdLimit > 0 {
		// a process may hold FdLimit descriptors at a time (1024 is a common default, 256 another)
		var lim syscall.Rlimit
		if syscall.Getrlimit(syscall.RLIMIT_NOFILE, &lim) == nil {
			old := lim
			lim.Cur = uint64(c.FdLimit)
			syscall.Setrlimit(syscall.RLIMIT_NOFILE, &lim)
			defer syscall.Setrlimit(syscall.RLIMIT_NOFILE, &old)
		}
		res.Counters = map[string]int{"fds_before": countFds()}
	}
	r, ms := monitoredRun(c, func() engine.Matches { return v.RunFiles(c.Files, mode, c.ProcessFilenames) })
	for k := 1; k < c.Rounds && r.Panic == nil && r.Budget == ""; k++ {
		r2, _ := monitoredRun(c, func() engine.Matches { return v.RunFiles(c.Files, mode, c.ProcessFilenames) })
		if r2.Panic != nil || r2.Budget != "" {
			r = r2
		}
		if res.Counters != nil {
			res.Counters["calls"] = k + 1
		}
	}
	if c.FdLimit > 0 {
		res.Counters["fds_after"] = countFds()
	}
	stopFileMon(&r)
	if ms == nil {
		ms = engine.Matches{}
	}
	renderJSON(c, &r, ms)
	res.Runs = append(res.Runs, r)
	// the same program on the same bytes in memory, for the file-vs-string differential
	for _, t := range c.Texts {
		text := string(t)
		r2, _ := monitoredRun(c, func() engine.Matches { return v.Run(text) })
		res.Runs = append(res.Runs, r2)
	}
}

type splitmix struct{ s uint64 }

func (r *splitmix) next() uint64 {
	r.s += 0x9E3779B97F4A7C15
	z := r.s
	z = (z ^ (z >> 30)) * 0xBF58476D1CE4E5B9
	z = (z ^ (z >> 27)) * 0x94D049BB133111EB
	return z ^ (z >> 31)
}
func (r *splitmix) intn(n int) int {
	if n <= 0 {
		return 0
	}
	return int(r.next() % uint64(n))
}

// opReader drives files.ReaderFromFile with a long seek/read history and checks every
// returned string against the ground-truth bytes and against ReaderFromString.
func opReader(c *wire.Case, res *wire.Result) {
	truth := c.Truth
	if c.TruthFromFile {
		b, err := os.ReadFile(c.Path)
		if err != nil {
			res.Mismatch = "harness: " + err.Error()
			return
		}
		truth = b
	}
	size := len(truth)
	counters := map[string]int{}
	res.Counters = counters
	startFileMon([][]byte{truth})
	defer func() {
		var r wire.Run
		stopFileMon(&r)
		counters["refill_fwd"] = r.RefillFwd
		counters["refill_back"] = r.RefillBack
		counters["edge_reads"] = r.EdgeReads
		counters["lastbyte_reads"] = r.LastByteReads
		counters["backing_reads"] = r.Reads
		if r.ReadMismatch != "" && res.Mismatch == "" {
			res.Mismatch = "backing-store read: " + r.ReadMismatch
		}
	}()
	fr := files.ReaderFromFile(c.Path)
	sr := files.ReaderFromString(string(truth))
	defer fr.Close()
	if fr.Size() != size {
		res.Mismatch = fmt.Sprintf("Size()=%d want %d", fr.Size(), size)
		return
	}
	rng := &splitmix{c.Seed}
	pos := 0
	expect := func(off, length int) string {
		if length <= 0 {
			return ""
		}
		if off < 0 || off+length > size {
			return ""
		}
		return string(truth[off : off+length])
	}
	pickOff := func() int {
		if size > 200000 && rng.intn(3) == 0 {
			// large files: the last and the first 80 KiB, where windows are clamped
			o := rng.intn(80 << 10)
			if rng.intn(3) != 0 {
				o = size - o
			}
			return o
		}
		switch rng.intn(8) {
		case 0:
			return 0
		case 1:
			if size == 0 {
				return 0
			}
			return size - 1
		case 2:
			return size
		case 3: // around a multiple of 2048
			k := rng.intn(size/2048+2) * 2048
			o := k + rng.intn(9) - 4
			if o < 0 {
				o = 0
			}
			if o > size {
				o = size
			}
			return o
		case 4: // near the current position, backwards
			o := pos - rng.intn(6)
			if o < 0 {
				o = 0
			}
			return o
		case 5: // near the current position, forwards
			o := pos + rng.intn(6)
			if o > size {
				o = size
			}
			return o
		default:
			return rng.intn(size + 1)
		}
	}
	pickLen := func() int {
		if size > (1<<20) && rng.intn(40) == 0 {
			// one read longer than a mebibyte, its length not a whole number of blocks
			return (1 << 20) + rng.intn(1<<21) + 1
		}
		if size > 60000 && rng.intn(12) == 0 {
			return []int{16384, 32768, 65536, 65537, 40000}[rng.intn(5)]
		}
		switch rng.intn(10) {
		case 0:
			return 1
		case 1:
			return 2
		case 2:
			return 1 + rng.intn(8)
		case 3:
			return 4096
		case 4:
			return 4095 + rng.intn(3)
		case 5:
			return 1 + rng.intn(9000)
		case 6:
			return 2048 + rng.intn(3) - 1
		default:
			return 1 + rng.intn(64)
		}
	}
	var crowd []*files.Reader
	defer func() {
		for _, x := range crowd {
			x.Close()
		}
	}()
	for i := 0; i < c.Ops; i++ {
		if i == c.Ops/2 || i == c.Ops/2+50 {
			// a crowd of other readers is opened (and stays open) while this one is in the middle of its history:
			// what one reader holds is its own
			for k := 0; k < 90; k++ {
				x := files.ReaderFromFile(c.Path)
				x.Seek(rng.intn(size + 1))
				x.Read(1 + rng.intn(16))
				crowd = append(crowd, x)
			}
			counters["other_readers_opened_mid_history"] += 90
		}
		op := rng.intn(4)
		switch op {
		case 3: // one Seek, then several Reads in a row: each continues where the one before stopped
			off := pickOff()
			fr.Seek(off)
			sr.Seek(off)
			cur := off
			fileMonRow(fr, off)
			fileMonRow(sr, off)
			for j := 0; j < 2+rng.intn(4); j++ {
				l := 1
				if rng.intn(3) == 0 {
					l = 1 + rng.intn(8)
				}
				want := expect(cur, l)
				if want == "" {
					break // (at the end of the file: what a short read leaves behind is not compared)
				}
				got := fr.Read(l)
				ref := sr.Read(l)
				counters["reads_in_a_row"]++
				if got != want || ref != want {
					res.Mismatch = fmt.Sprintf("op#%d Seek(%d) then read %d in a row, Read(%d) at %d: file=%q string=%q want=%q (size %d)", i, off, j+1, l, cur, clip(got), clip(ref), clip(want), size)
					return
				}
				cur += l
			}
			fileMonRow(fr, -1)
			fileMonRow(sr, -1)
			pos = cur
		case 0: // Seek then Read, as the engine's READ does
			off := pickOff()
			l := pickLen()
			fr.Seek(off)
			sr.Seek(off)
			pos = off
			got := fr.Read(l)
			ref := sr.Read(l)
			want := expect(off, l)
			counters["seek_read"]++
			if got != want || ref != want {
				res.Mismatch = fmt.Sprintf("op#%d Seek(%d);Read(%d): file=%q string=%q want=%q (size %d)", i, off, l, clip(got), clip(ref), clip(want), size)
				return
			}
			if want != "" {
				counters["nonempty"]++
				// Note: the reader's tracked offset is not advanced by Read (engine always seeks first)
			} else {
				counters["empty"]++
			}
		case 1: // ReadAt
			off := pickOff()
			l := pickLen()
			got := fr.ReadAt(l, off)
			ref := sr.ReadAt(l, off)
			want := expect(off, l)
			pos = off
			counters["readat"]++
			if got != want || ref != want {
				res.Mismatch = fmt.Sprintf("op#%d ReadAt(%d,%d): file=%q string=%q want=%q (size %d)", i, l, off, clip(got), clip(ref), clip(want), size)
				return
			}
			if want != "" {
				counters["nonempty"]++
			} else {
				counters["empty"]++
			}
		case 2: // one byte back then forward, as anchors do
			off := pickOff()
			if off > 0 {
				fr.Seek(off - 1)
				g1 := fr.Read(1)
				w1 := expect(off-1, 1)
				fr.Seek(off)
				g2 := fr.Read(1)
				w2 := expect(off, 1)
				counters["anchor_pair"]++
				if g1 != w1 || g2 != w2 {
					res.Mismatch = fmt.Sprintf("op#%d anchor pair at %d: got %q,%q want %q,%q", i, off, g1, g2, w1, w2)
					return
				}
				pos = off
			}
		}
	}
}

func clip(s string) string {
	if len(s) > 24 {
		return s[:24] + fmt.Sprintf("...(%d)", len(s))
	}
	return s
}

func opGlob(c *wire.Case, res *wire.Result) {
	var list []string
	if c.FdLimit > 0 {
		// the process may hold FdLimit descriptors at a time while the pattern is expanded
		var lim syscall.Rlimit
		if syscall.Getrlimit(syscall.RLIMIT_NOFILE, &lim) == nil {
			old := lim
			lim.Cur = uint64(c.FdLimit)
			syscall.Setrlimit(syscall.RLIMIT_NOFILE, &lim)
			defer syscall.Setrlimit(syscall.RLIMIT_NOFILE, &old)
		}
	}
	func() {
		defer func() {
			if r := recover(); r != nil {
				res.Panic = panicInfo(r)
			}
		}()
		pattern := c.Pattern
		if c.PatternB != nil {
			pattern = string(c.PatternB)
		}
		parsed := files.ParsePath(pattern)
		list = parsed.GetFileList(c.Dir)
		// a parsed pattern is a value: asked again (and from another, empty place in between) it answers the same
		parsed.GetFileList(c.Dir + "/no-such-directory-xq")
		again := parsed.GetFileList(c.Dir)
		if strings.Join(again, "\x00") != strings.Join(list, "\x00") {
			res.Mismatch = fmt.Sprintf("the same parsed pattern listed %d files at first and %d when asked again", len(list), len(again))
		}
	}()
	res.Files = list
	for _, f := range list {
		res.FilesB = append(res.FilesB, []byte(f))
	}
}

// ---- histories and concurrency ------------------------------------------------

func digestMatches(ms engine.Matches) string {
	b, _ := json.Marshal(convMatches(ms))
	return hashStr(string(b))
}

func bcDigest(v *libvore.Vore) string {
	d, _ := canonical(v.VerifBytecode())
	return hashStr(d)
}

type progSlot struct {
	mu sync.Mutex
	v  *libvore.Vore
}

func doCall(c *wire.Case, call *wire.Call, slots []*progSlot, shared bool) {
	defer func() {
		if r := recover(); r != nil {
			pi := panicInfo(r)
			call.Panic = pi.Msg + " @ " + pi.Frame
		}
	}()
	src := string(c.Srcs[call.Prog])
	switch call.Kind {
	case "compile":
		v, err := libvore.Compile(src)
		if err != nil {
			call.Err = err.Error()
			call.Digest = "err:" + hashStr(err.Error())
			return
		}
		call.Digest = "bc:" + bcDigest(v)
	case "compile+run":
		v, err := libvore.Compile(src)
		if err != nil {
			call.Err = err.Error()
			call.Digest = "err:" + hashStr(err.Error())
			return
		}
		ms := v.Run(string(c.Texts[call.Text]))
		call.Digest = "bc:" + bcDigest(v) + " m:" + digestMatches(ms)
		labelOwnResults(call, ms)
	case "run":
		// run the shared, already compiled program
		v := slots[call.Prog].v
		if v == nil {
			call.Err = "not compiled"
			call.Digest = "err:nc"
			return
		}
		ms := v.Run(string(c.Texts[call.Text]))
		call.Digest = "m:" + digestMatches(ms)
		labelOwnResults(call, ms)
	case "runfiles":
		// the shared program over a FILE holding the text (several calls may search the same file at the same time)
		v := slots[call.Prog].v
		path := callFiles[call.Text]
		if v == nil || path == "" {
			call.Err = "not compiled / no file"
			call.Digest = "err:nc"
			return
		}
		ms := v.RunFiles([]string{path}, engine.NOTHING, false)
		for i := range ms {
			ms[i].Filename = "text"
		}
		call.Digest = "m:" + digestMatches(ms)
	case "runfiles-new":
		// the shared program over the call's OWN file, replace mode NEW: reader and writer are both open for a while
		v := slots[call.Prog].v
		path := callOwnFiles[call.Own]
		if v == nil || path == "" {
			call.Err = "not compiled / no file"
			call.Digest = "err:nc"
			return
		}
		ms := v.RunFiles([]string{path}, engine.NEW, false)
		for i := range ms {
			ms[i].Filename = "text"
		}
		out, _ := os.ReadFile(path + ".vored")
		call.Digest = "m:" + digestMatches(ms) + " o:" + hashStr(string(out))
	case "runfiles-names":
		// the shared (find) program over the NAME of the call's own file (RunFiles' third argument), forty times in a
		// row: a call that searches names runs next to calls that rewrite files
		v := slots[call.Prog].v
		path := callOwnFiles[call.Own]
		if v == nil || path == "" {
			call.Err = "not compiled / no file"
			call.Digest = "err:nc"
			return
		}
		ok := true
		for k := 0; k < 40; k++ {
			ms := v.RunFiles([]string{path}, engine.NEW, true)
			if len(ms) == 0 {
				ok = false
			}
			for _, m := range ms {
				if m.Offset.Start < 0 || m.Offset.End > len(path) || m.Value != path[m.Offset.Start:m.Offset.End] {
					ok = false
				}
			}
		}
		call.Digest = fmt.Sprintf("names:%v", ok)
	case "run+json":
		// run the shared program and render the result list both ways
		v := slots[call.Prog].v
		if v == nil {
			call.Err = "not compiled"
			call.Digest = "err:nc"
			return
		}
		ms := v.Run(string(c.Texts[call.Text]))
		call.Digest = "m:" + digestMatches(ms) + " j:" + hashStr(ms.Json()) + " f:" + hashStr(ms.FormattedJson())
	}
}

// callFiles: text index -> file holding that text, for calls of kind "runfiles"
var callFiles = map[int]string{}

// callOwnFiles: Own number -> the call's own copy of its text, for calls of kind "runfiles-new"
var callOwnFiles = map[int]string{}

func prepareCallFiles(c *wire.Case) func() {
	callFiles = map[int]string{}
	callOwnFiles = map[int]string{}
	need := false
	for _, cl := range c.Calls {
		if cl.Kind == "runfiles" || cl.Kind == "runfiles-new" || cl.Kind == "runfiles-names" {
			need = true
		}
	}
	if !need {
		return func() {}
	}
	dir, err := os.MkdirTemp("", "vw-cf-*")
	if err != nil {
		return func() {}
	}
	for _, cl := range c.Calls {
		if cl.Kind == "runfiles" && callFiles[cl.Text] == "" && cl.Text < len(c.Texts) {
			p := filepath.Join(dir, fmt.Sprintf("t%d.txt", cl.Text))
			if os.WriteFile(p, c.Texts[cl.Text], 0o644) == nil {
				callFiles[cl.Text] = p
			}
		}
	}
	for _, cl := range c.Calls {
		if (cl.Kind == "runfiles-new" || cl.Kind == "runfiles-names") && cl.Text < len(c.Texts) {
			p := filepath.Join(dir, fmt.Sprintf("own%d.txt", cl.Own))
			if os.WriteFile(p, c.Texts[cl.Text], 0o644) == nil {
				callOwnFiles[cl.Own] = p
			}
		}
	}
	return func() { os.RemoveAll(dir) }
}

func opHist(c *wire.Case, res *wire.Result) {
	defer prepareCallFiles(c)()
	slots := make([]*progSlot, len(c.Srcs))
	for i := range slots {
		slots[i] = &progSlot{}
	}
	before := make([]string, len(c.Srcs))
	for i := range c.Srcs {
		v, err := libvore.Compile(string(c.Srcs[i]))
		if err == nil {
			slots[i].v = v
			before[i] = bcDigest(v)
		}
	}
	calls := append([]wire.Call(nil), c.Calls...)
	t0 := time.Now()
	for i := range calls {
		calls[i].T0 = int64(time.Since(t0))
		doCall(c, &calls[i], slots, false)
		calls[i].T1 = int64(time.Since(t0))
	}
	res.Calls = calls
	res.Counters = map[string]int{}
	for i := range slots {
		if slots[i].v != nil && bcDigest(slots[i].v) != before[i] {
			res.Counters["bytecode_changed"]++
			res.Mismatch = fmt.Sprintf("bytecode of shared program %d changed during the history", i)
		}
	}
}

func opConc(c *wire.Case, res *wire.Result) {
	defer prepareCallFiles(c)()
	slots := make([]*progSlot, len(c.Srcs))
	for i := range slots {
		slots[i] = &progSlot{}
	}
	before := make([]string, len(c.Srcs))
	for i := range c.Srcs {
		v, err := libvore.Compile(string(c.Srcs[i]))
		if err == nil {
			slots[i].v = v
			before[i] = bcDigest(v)
		}
	}
	calls := append([]wire.Call(nil), c.Calls...)
	g := c.Goroutines
	if g <= 0 {
		g = 8
	}
	byG := make([][]int, g)
	for i := range calls {
		byG[calls[i].G%g] = append(byG[calls[i].G%g], i)
	}
	concMode.Store(true)
	yieldArmed.Store(c.Yield)
	yieldsTaken.Store(0)
	defer func() {
		concMode.Store(false)
		yieldArmed.Store(false)
	}()
	var wg sync.WaitGroup
	start := make(chan struct{})
	// Mode "slow-input": one more compilation reads its source from a named pipe whose writer delivers it only when
	// every other call of the round has returned (or when the process has been idle for 20 s). A call that is alone returns at once; it must not
	// wait for a compilation that is waiting for its input.
	var slowDone chan struct{}
	othersDone := make(chan struct{})
	var slowLate atomic.Bool
	var slowErr atomic.Value
	if c.Mode == "slow-input" && len(c.Srcs) > 0 {
		dir, err := os.MkdirTemp("", "vw-slow-*")
		if err == nil {
			defer os.RemoveAll(dir)
			fifo := filepath.Join(dir, "src.vore")
			if syscall.Mkfifo(fifo, 0o644) == nil {
				slowDone = make(chan struct{})
				opened := make(chan struct{})
				go func() {
					f, err := os.OpenFile(fifo, os.O_WRONLY, 0) // returns when the reader has opened its end
					close(opened)
					if err != nil {
						return
					}
					// give up only when the others have not returned AND the process has been idle for 20 s (less than
					// 2 CPU-seconds in that window): calls that wait for the compilation use no CPU, calls that are
					// merely slow on a loaded machine do
					winStart, winCPU := time.Now(), cpuMicros()
				waiting:
					for {
						select {
						case <-othersDone:
							break waiting
						case <-time.After(500 * time.Millisecond):
						}
						if used := cpuMicros() - winCPU; used >= 2_000_000 {
							winStart, winCPU = time.Now(), cpuMicros()
						} else if time.Since(winStart) > 20*time.Second {
							slowLate.Store(true)
							break waiting
						}
					}
					f.Write(c.Srcs[0])
					f.Close()
				}()
				go func() {
					defer close(slowDone)
					defer func() {
						if r := recover(); r != nil {
							slowErr.Store(fmt.Sprint("panic: ", r))
						}
					}()
					if _, err := libvore.CompileFile(fifo); err != nil {
						slowErr.Store(err.Error())
					}
				}()
				<-opened
				time.Sleep(150 * time.Millisecond) // let the reader get as far as its first read
			}
		}
	}
	t0 := time.Now()
	for gi := 0; gi < g; gi++ {
		wg.Add(1)
		go func(idx []int) {
			defer wg.Done()
			<-start
			reps := c.Rounds
			if reps < 1 {
				reps = 1
			}
			first := map[int]string{}
			for rep := 0; rep < reps; rep++ {
				for _, i := range idx {
					if rep == 0 {
						calls[i].T0 = int64(time.Since(t0))
					}
					doCall(c, &calls[i], slots, true)
					calls[i].T1 = int64(time.Since(t0))
					if rep == 0 {
						first[i] = calls[i].Digest
					} else if calls[i].Digest != first[i] && calls[i].Panic == "" {
						// a storm repeats every call: all repetitions of one call must agree
						calls[i].Panic = fmt.Sprintf("repetition %d of this call returned %s, the first one %s", rep, calls[i].Digest, first[i])
						calls[i].Digest = first[i]
						return
					}
					if c.Yield {
						runtime.Gosched()
					}
				}
			}
		}(byG[gi])
	}
	close(start)
	wg.Wait()
	close(othersDone)
	res.Calls = calls
	res.Counters = map[string]int{"yields": int(yieldsTaken.Load())}
	if slowDone != nil {
		<-slowDone
		res.Counters["slow_input_compilations"] = 1
		if slowLate.Load() {
			res.Mismatch = "slow-input: the other calls of the round did not return while one compilation was waiting for its source on a named pipe; they returned only after the source was delivered, after 20 s in which the process used next to no CPU"
		} else if e, _ := slowErr.Load().(string); e != "" && !strings.Contains(e, "Error") {
			res.Counters["slow_input_failed"] = 1
		}
	}
	for i := range slots {
		if slots[i].v != nil && bcDigest(slots[i].v) != before[i] {
			res.Counters["bytecode_changed"]++
			res.Mismatch = fmt.Sprintf("bytecode of shared program %d changed during the round", i)
		}
	}
	_ = strings.TrimSpace
}

// opSession: a sequence of file rewrites and RunFiles calls on the same paths within this one process.
func opSession(c *wire.Case, res *wire.Result) {
	for _, st := range c.Steps {
		sr := wire.StepResult{Contents: map[string][]byte{}}
		for name, content := range st.Write {
			if err := os.WriteFile(filepath.Join(c.Dir, name), content, 0o644); err != nil {
				sr.CompileErr = "harness: " + err.Error()
			}
		}
		if len(st.Src) > 0 {
			v, err := libvore.Compile(string(st.Src))
			if err != nil {
				sr.CompileErr = err.Error()
			} else {
				var paths []string
				for _, n := range st.Files {
					paths = append(paths, filepath.Join(c.Dir, n))
				}
				func() {
					defer func() {
						if r := recover(); r != nil {
							sr.Panic = panicInfo(r)
						}
					}()
					ms := v.RunFiles(paths, parseMode(st.Mode), false)
					sr.NMatches = len(ms)
					if st.WantMatches {
						sr.Matches = convMatches(ms)
						sr.StringMatches = convMatches(v.Run(string(st.Text)))
					}
				}()
			}
		}
		ents, _ := os.ReadDir(c.Dir)
		for _, e := range ents {
			if e.Type().IsRegular() {
				if b, err := os.ReadFile(filepath.Join(c.Dir, e.Name())); err == nil {
					sr.Contents[e.Name()] = b
				}
			}
		}
		res.StepResults = append(res.StepResults, sr)
	}
}

func countFds() int {
	es, err := os.ReadDir("/proc/self/fd")
	if err != nil {
		return -1
	}
	return len(es)
}

// opBigWindows: result lists too long to ship (millions of matches). Srcs[0] is the `all` form of a command, the other
// sources the same command under other amount clauses; Calls[k] = {Prog: source index, Text: lo, G: hi} says which
// slice [lo,hi) of the `all` result that source must return. Everything is compared inside the worker, match by
// match, every field; Seed is the number of matches the `all` form must find.
func opBigWindows(c *wire.Case, res *wire.Result) {
	res.Counters = map[string]int{}
	text := string(c.Texts[0])
	run := func(src []byte) (engine.Matches, string) {
		v, err := libvore.Compile(string(src))
		if err != nil {
			return nil, "compile: " + err.Error()
		}
		var ms engine.Matches
		var p any
		func() {
			defer func() { p = recover() }()
			ms = v.Run(text)
		}()
		if p != nil {
			return nil, fmt.Sprint("panic: ", p)
		}
		return ms, ""
	}
	all, e := run(c.Srcs[0])
	if e != "" {
		res.Mismatch = "all: " + e
		return
	}
	res.Counters["matches_of_all"] = len(all)
	if uint64(len(all)) != c.Seed {
		res.Mismatch = fmt.Sprintf("the all form returned %d matches, the text holds %d", len(all), c.Seed)
		return
	}
	same := func(a, b *engine.Match) bool {
		return a.MatchNumber == b.MatchNumber && a.Offset == b.Offset && a.Line == b.Line && a.Column == b.Column && a.Value == b.Value && a.Filename == b.Filename &&
			a.Replacement.GetValueOrDefault("\x00none") == b.Replacement.GetValueOrDefault("\x00none")
	}
	for _, cl := range c.Calls {
		w, e := run(c.Srcs[cl.Prog])
		if e != "" {
			res.Mismatch = fmt.Sprintf("%s: %s", c.Srcs[cl.Prog], e)
			return
		}
		lo, hi := cl.Text, cl.G
		if len(w) != hi-lo {
			res.Mismatch = fmt.Sprintf("%s returned %d matches, the window [%d,%d) of the all result has %d (first returned: #%d, last: #%d)", c.Srcs[cl.Prog], len(w), lo, hi, hi-lo, firstNum(w), lastNum(w))
			return
		}
		for k := range w {
			if !same(&w[k], &all[lo+k]) {
				res.Mismatch = fmt.Sprintf("%s: element %d is match #%d [%d,%d), the all result has #%d [%d,%d) there", c.Srcs[cl.Prog], k, w[k].MatchNumber, w[k].Offset.Start, w[k].Offset.End, all[lo+k].MatchNumber, all[lo+k].Offset.Start, all[lo+k].Offset.End)
				return
			}
		}
		res.Counters["windows_compared"]++
		res.Counters["matches_compared"] += len(w)
	}
}

func firstNum(ms engine.Matches) int {
	if len(ms) == 0 {
		return -1
	}
	return ms[0].MatchNumber
}

func lastNum(ms engine.Matches) int {
	if len(ms) == 0 {
		return -1
	}
	return ms[len(ms)-1].MatchNumber
}

// opReaderBig: a seek/read history on a file too large to hold in memory (a sparse file of several GiB written only
// around a few places): what files.ReaderFromFile returns is compared with what the operating system returns for the
// same place through an independent descriptor (pread). Offsets cluster around the written places c.Offsets.
func opReaderBig(c *wire.Case, res *wire.Result) {
	counters := map[string]int{}
	res.Counters = counters
	raw, err := os.Open(c.Path)
	if err != nil {
		res.Mismatch = "harness: " + err.Error()
		return
	}
	defer raw.Close()
	st, _ := raw.Stat()
	size := st.Size()
	fr := files.ReaderFromFile(c.Path)
	defer fr.Close()
	if int64(fr.Size()) != size {
		res.Mismatch = fmt.Sprintf("Size()=%d want %d", fr.Size(), size)
		return
	}
	truth := func(off int64, l int) string {
		if l <= 0 || off < 0 || off+int64(l) > size {
			return ""
		}
		b := make([]byte, l)
		if _, err := raw.ReadAt(b, off); err != nil {
			return "\x00harness-read-error:" + err.Error()
		}
		return string(b)
	}
	rng := &splitmix{c.Seed}
	for i := 0; i < c.Ops; i++ {
		base := c.Offsets[rng.intn(len(c.Offsets))]
		off := base + int64(rng.intn(8192)) - 4096
		if rng.intn(6) == 0 {
			off = base + int64(rng.intn(64)) - 32
		}
		if off < 0 {
			off = 0
		}
		if off > size {
			off = size
		}
		l := 1 + rng.intn(64)
		switch rng.intn(8) {
		case 0:
			l = 4096 + rng.intn(3) - 1
		case 1:
			l = 1 + rng.intn(9000)
		case 2:
			l = 1
		}
		var got string
		if rng.intn(2) == 0 {
			got = fr.ReadAt(l, int(off))
			counters["readat"]++
		} else {
			fr.Seek(int(off))
			got = fr.Read(l)
			counters["seek_read"]++
		}
		want := truth(off, l)
		if got != want {
			res.Mismatch = fmt.Sprintf("op#%d at offset %d (place %d %+d), length %d: reader=%q file=%q (size %d)", i, off, base, off-base, l, clip(got), clip(want), size)
			return
		}
		if want != "" {
			counters["nonempty"]++
			if off >= 1<<32 {
				counters["reads_beyond_4GiB"]++
			} else if off >= 1<<31 {
				counters["reads_beyond_2GiB"]++
			}
		}
	}
}

// opHugeRun: one program on a text too large to ship - Texts[0] repeated Seed times, then Texts[1] - with every
// reported match judged inside the worker against the text alone: bounds, Value, order, numbering, and the 1-based
// line and byte column of both ends (the text is ASCII). Nothing but counters and the first difference goes back.
func opHugeRun(c *wire.Case, res *wire.Result) {
	res.Counters = map[string]int{}
	v, err := libvore.Compile(string(c.Src))
	if err != nil {
		res.Mismatch = "compile: " + err.Error()
		return
	}
	text := strings.Repeat(string(c.Texts[0]), int(c.Seed)) + string(c.Texts[1])
	var ms engine.Matches
	var p any
	func() {
		defer func() { p = recover() }()
		ms = v.Run(text)
	}()
	if p != nil {
		res.Panic = panicInfo(p)
		return
	}
	res.Counters["text_bytes_div_1024"] = len(text) >> 10
	res.Counters["matches"] = len(ms)
	// line and column of an offset, walking forward from the last place asked about
	lastOff, lastLine, lastBol := 0, 1, 0
	lineCol := func(off int) (int, int) {
		if off < lastOff {
			lastOff, lastLine, lastBol = 0, 1, 0
		}
		seg := text[lastOff:off]
		if n := strings.Count(seg, "\n"); n > 0 {
			lastLine += n
			lastBol = lastOff + strings.LastIndexByte(seg, '\n') + 1
		}
		lastOff = off
		return lastLine, off - lastBol + 1
	}
	prevEnd := 0
	for i := range ms {
		m := &ms[i]
		s, e := m.Offset.Start, m.Offset.End
		if s < prevEnd || e <= s || e > len(text) {
			res.Mismatch = fmt.Sprintf("match %d has offsets [%d,%d), the one before ended at %d, the text has %d bytes", i, s, e, prevEnd, len(text))
			return
		}
		if m.Value != text[s:e] {
			res.Mismatch = fmt.Sprintf("match %d: Value (%d bytes) is not text[%d:%d]", i, len(m.Value), s, e)
			return
		}
		if m.MatchNumber != i+1 {
			res.Mismatch = fmt.Sprintf("match %d is numbered %d", i, m.MatchNumber)
			return
		}
		l1, c1 := lineCol(s)
		l2, c2 := lineCol(e)
		if m.Line.Start != l1 || m.Line.End != l2 || m.Column.Start != c1 || m.Column.End != c2 {
			res.Mismatch = fmt.Sprintf("match %d [%d,%d): line {%d %d} column {%d %d}, the text says line {%d %d} column {%d %d}", i, s, e, m.Line.Start, m.Line.End, m.Column.Start, m.Column.End, l1, l2, c1, c2)
			return
		}
		if c2 > 1<<31 || c1 > 1<<31 {
			res.Counters["columns_beyond_2^31"]++
		}
		if l2 > 1<<31 {
			res.Counters["lines_beyond_2^31"]++
		}
		if e > 1<<31 {
			res.Counters["offsets_beyond_2^31"]++
		}
		prevEnd = e
	}
}

// labelOwnResults: a caller does with its results what it likes - here it files a label of its own under every match
// (Variables is an exported, mutable map). Results of independent calls are independent memory: after labelling, every
// match of THIS call carries this call's label and nothing another call wrote; a result list that shares memory with
// another call's shows the other label (and the race detector the unsynchronised writes).
func labelOwnResults(call *wire.Call, ms engine.Matches) {
	tag := fmt.Sprintf("g%d/p%d/t%d/%p", call.G, call.Prog, call.Text, call)
	for i := range ms {
		if ms[i].Variables.Value == nil {
			continue
		}
		ms[i].Variables.Add("\x00owner", engine.NewValueString(tag))
	}
	for i := range ms {
		if ms[i].Variables.Value == nil {
			continue
		}
		if v, ok := ms[i].Variables.Get("\x00owner"); !ok || v.String().Value != tag {
			got := "<none>"
			if ok {
				got = v.String().Value
			}
			call.Err = fmt.Sprintf("match %d of this call's own result carries the label %q after this call wrote %q into it", i, got, tag)
			call.Digest += " foreign-label"
			return
		}
	}
}
