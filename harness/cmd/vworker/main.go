// vworker links the real library (built from /repo's working tree with -tags verif),
// executes the cases it is given and reports what it observed. It decides nothing.
//
// usage: vworker <cases.jsonl> <out.jsonl>
// out protocol: "B <id>" before a case, "E <json>" after it, "G <id> <kind>" when a guard fired.
package main

import (
	"bufio"
	"encoding/json"
	"fmt"
	"os"
	"runtime"
	"runtime/debug"
	"strconv"
	"strings"
	"sync/atomic"
	"syscall"
	"time"

	"verifharness/wire"
)

var out *bufio.Writer
var outFile *os.File

var curCase atomic.Int64
var caseStartCPU atomic.Int64  // microseconds of process CPU at the start of the current library call
var caseStartWall atomic.Int64 // unix nanoseconds at the start of the current library call

func cpuMicros() int64 {
	var ru syscall.Rusage
	if err := syscall.Getrusage(syscall.RUSAGE_SELF, &ru); err != nil {
		return 0
	}
	return (ru.Utime.Sec+ru.Stime.Sec)*1e6 + int64(ru.Utime.Usec+ru.Stime.Usec)
}

func rssBytes() int64 {
	b, err := os.ReadFile("/proc/self/statm")
	if err != nil {
		return 0
	}
	f := strings.Fields(string(b))
	if len(f) < 2 {
		return 0
	}
	pages, _ := strconv.ParseInt(f[1], 10, 64)
	return pages * int64(os.Getpagesize())
}

func envInt(name string, def int64) int64 {
	if v := os.Getenv(name); v != "" {
		if n, err := strconv.ParseInt(v, 10, 64); err == nil {
			return n
		}
	}
	return def
}

func watchdog() {
	cpuLimit := envInt("VW_CPU_LIMIT_S", 30) * 1e6
	rssLimit := envInt("VW_RSS_LIMIT_MB", 1536) << 20
	blockedWall := envInt("VW_BLOCKED_WALL_S", 40) * 1e9
	blockedCPU := envInt("VW_BLOCKED_CPU_MS", 4000) * 1e3
	// the window the blocked test looks at: it restarts whenever the process has used blockedCPU since its start,
	// so a case that worked for a while and THEN stopped (calls that wait for each other) is seen as well as one
	// that never got going; this goroutine and the runtime's own background work stay far below the threshold
	winCase, winWall, winCPU := int64(-1), int64(0), int64(0)
	lastForcedGC := int64(0)
	for {
		time.Sleep(100 * time.Millisecond)
		id := curCase.Load()
		if id < 0 {
			continue
		}
		kind := ""
		cpuNow := cpuMicros()
		wallNow := time.Now().UnixNano()
		cpuUsed := cpuNow - caseStartCPU.Load()
		if id != winCase || cpuNow-winCPU >= blockedCPU {
			winCase, winWall, winCPU = id, wallNow, cpuNow
		}
		if cpuUsed > cpuLimit {
			kind = "cpu"
		} else if rssBytes() > rssLimit && wallNow-lastForcedGC > 1e9 {
			// what counts is what the call HOLDS, not what the collector has not got round to yet (on a loaded machine
			// the concurrent collector falls behind and the resident set overshoots): collect, hand pages back, look again
			lastForcedGC = wallNow
			runtime.GC()
			debug.FreeOSMemory()
			if rssBytes() > rssLimit {
				kind = "heap"
			}
		} else if wallNow-winWall > blockedWall {
			// a call that has been "running" for a long time while the process used next to no CPU is
			// not slow, it is blocked (a lock that is never released, a read that never returns)
			kind = "blocked"
		}
		if kind != "" {
			// The main goroutine may be spinning; write through a fresh descriptor position.
			fmt.Fprintf(os.Stderr, "GUARD %d %s\n", id, kind)
			f, err := os.OpenFile(outFile.Name()+".guard", os.O_CREATE|os.O_WRONLY|os.O_TRUNC, 0o644)
			if err == nil {
				fmt.Fprintf(f, "G %d %s\n", id, kind)
				f.Close()
			}
			os.Exit(3)
		}
	}
}

func main() {
	if len(os.Args) != 3 {
		fmt.Fprintln(os.Stderr, "usage: vworker cases.jsonl out.jsonl")
		os.Exit(2)
	}
	debug.SetGCPercent(200)
	in, err := os.Open(os.Args[1])
	if err != nil {
		fmt.Fprintln(os.Stderr, err)
		os.Exit(2)
	}
	outFile, err = os.OpenFile(os.Args[2], os.O_CREATE|os.O_WRONLY|os.O_APPEND, 0o644)
	if err != nil {
		fmt.Fprintln(os.Stderr, err)
		os.Exit(2)
	}
	out = bufio.NewWriterSize(outFile, 1<<16)
	curCase.Store(-1)
	go watchdog()
	installHooks()

	sc := bufio.NewScanner(in)
	sc.Buffer(make([]byte, 1<<20), 1<<28)
	for sc.Scan() {
		line := sc.Bytes()
		if len(line) == 0 {
			continue
		}
		var c wire.Case
		if err := json.Unmarshal(line, &c); err != nil {
			fmt.Fprintln(os.Stderr, "bad case:", err)
			os.Exit(2)
		}
		fmt.Fprintf(out, "B %d\n", c.ID)
		out.Flush()
		caseStartCPU.Store(cpuMicros())
		caseStartWall.Store(time.Now().UnixNano())
		curCase.Store(int64(c.ID))
		t0 := time.Now()
		res := execCase(&c)
		res.ElapsedMs = int(time.Since(t0).Milliseconds())
		curCase.Store(-1)
		b, err := json.Marshal(res)
		if err != nil {
			fmt.Fprintln(os.Stderr, "marshal:", err)
			os.Exit(2)
		}
		out.WriteString("E ")
		out.Write(b)
		out.WriteString("\n")
		out.Flush()
	}
	out.Flush()
	outFile.Close()
}
