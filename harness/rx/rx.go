// Package rx turns the regular subset of the harness AST into Go regexp source and emulates
// vore's scan with it, position by position (DESIGN §4.3). Go's engine is leftmost-first on
// this subset, i.e. the same priority order a backtracking matcher explores.
package rx

import (
	"fmt"
	"regexp"
	"strings"

	"verifharness/gen"
)

type tr struct {
	prog    *gen.Program
	subs    map[string][]gen.Node
	globals map[string]*gen.Global
	depth   int
	ok      bool
	why     string
}

func (t *tr) fail(why string) string {
	if t.ok {
		t.ok = false
		t.why = why
	}
	return ""
}

func setByte(b byte) string {
	switch b {
	case '\\', ']', '[', '^', '-':
		return "\\" + string([]byte{b})
	case '\n':
		return "\\n"
	case '\t':
		return "\\t"
	case '\r':
		return "\\r"
	}
	if b < 0x20 || b >= 0x7f {
		return fmt.Sprintf("\\x%02x", b)
	}
	return string([]byte{b})
}

func foldSet(b byte, caseless bool) string {
	s := setByte(b)
	if caseless {
		if b >= 'a' && b <= 'z' {
			s += setByte(b - 32)
		} else if b >= 'A' && b <= 'Z' {
			s += setByte(b + 32)
		}
	}
	return s
}

func classSet(kind string) string {
	switch kind {
	case "whitespace":
		return " \\t\\n\\r"
	case "digit":
		return "0-9"
	case "upper":
		return "A-Z"
	case "lower":
		return "a-z"
	case "letter":
		return "A-Za-z"
	}
	return ""
}

func litRe(s string, caseless bool) string {
	var sb strings.Builder
	for i := 0; i < len(s); i++ {
		sb.WriteString("[" + foldSet(s[i], caseless) + "]")
	}
	return sb.String()
}

func (t *tr) item(it gen.ListItem) string {
	switch it.Kind {
	case "lit":
		if len(it.S) != 1 {
			t.fail("multi-byte list item")
			return ""
		}
		return foldSet(it.S[0], it.Caseless)
	case "range":
		if len(it.From) != 1 || len(it.To) != 1 {
			t.fail("range with multi-byte bounds")
			return ""
		}
		return setByte(it.From[0]) + "-" + setByte(it.To[0])
	case "class":
		if it.Class == "any" {
			return "\\x00-\\x{10FFFF}"
		}
		return classSet(it.Class)
	}
	t.fail("item")
	return ""
}

func (t *tr) seq(items []gen.Node) string {
	var sb strings.Builder
	for _, it := range items {
		sb.WriteString(t.node(it))
	}
	return sb.String()
}

func (t *tr) node(n gen.Node) string {
	if !t.ok {
		return ""
	}
	switch x := n.(type) {
	case gen.Lit:
		if len(x.S) == 0 {
			if x.Not {
				return "[^\\x00-\\x{10FFFF}]"
			}
			return "(?:)"
		}
		if !x.Not {
			return litRe(x.S, x.Caseless)
		}
		// any len(S) bytes that are not S
		var alts []string
		for i := 0; i < len(x.S); i++ {
			a := litRe(x.S[:i], x.Caseless) + "[^" + foldSet(x.S[i], x.Caseless) + "]"
			if rest := len(x.S) - 1 - i; rest > 0 {
				a += fmt.Sprintf("(?s:.{%d})", rest)
			}
			alts = append(alts, a)
		}
		return "(?:" + strings.Join(alts, "|") + ")"
	case gen.Class:
		if x.Kind == "any" {
			if x.Not {
				return "[^\\x00-\\x{10FFFF}]"
			}
			return "(?s:.)"
		}
		if x.Not {
			return "[^" + classSet(x.Kind) + "]"
		}
		return "[" + classSet(x.Kind) + "]"
	case gen.Anchor:
		var re string
		switch x.Kind {
		case "filestart":
			re = "\\A"
		case "fileend":
			re = "\\z"
		case "linestart":
			re = "(?m:^)"
		case "lineend":
			re = "(?m:$)"
		default:
			return t.fail("word anchor")
		}
		if x.Not {
			return t.fail("negated anchor")
		}
		return re
	case gen.In:
		multi := false
		for _, it := range x.Items {
			if it.Kind == "lit" && len(it.S) > 1 {
				multi = true
			}
		}
		if multi {
			if x.Not {
				return t.fail("multi-byte item in a negated list")
			}
			// ordered alternation, earlier item first
			var alts []string
			for _, it := range x.Items {
				if it.Kind == "lit" {
					alts = append(alts, litRe(it.S, it.Caseless))
				} else {
					alts = append(alts, "["+t.item(it)+"]")
				}
			}
			return "(?:" + strings.Join(alts, "|") + ")"
		}
		var sb strings.Builder
		for _, it := range x.Items {
			sb.WriteString(t.item(it))
		}
		if x.Not {
			return "[^" + sb.String() + "]"
		}
		return "[" + sb.String() + "]"
	case gen.Seq:
		return "(?:" + t.seq(x.Items) + ")"
	case gen.Or:
		parts := make([]string, len(x.Alts))
		for i, a := range x.Alts {
			parts[i] = t.node(a)
		}
		return "(?:" + strings.Join(parts, "|") + ")"
	case gen.Capture:
		return "(?:" + t.node(x.Body) + ")"
	case gen.BackRef:
		return t.fail("back-reference")
	case gen.SubDef:
		t.depth++
		defer func() { t.depth-- }()
		if t.depth > 8 {
			return t.fail("recursion")
		}
		return "(?:" + t.seq(x.Body) + ")"
	case gen.SubCall:
		t.depth++
		defer func() { t.depth-- }()
		if t.depth > 8 {
			return t.fail("recursion")
		}
		b, ok := t.subs[x.Name]
		if !ok {
			return t.fail("unknown sub")
		}
		return "(?:" + t.seq(b) + ")"
	case gen.GlobalRef:
		g, ok := t.globals[x.Name]
		if !ok {
			return t.fail("unknown global")
		}
		if g.Pred != nil {
			return t.fail("predicate")
		}
		t.depth++
		defer func() { t.depth-- }()
		return "(?:" + t.seq(g.Body) + ")"
	case gen.Regex:
		return t.node(x.Tree)
	case gen.Loop:
		if x.Name != "" {
			return t.fail("named loop")
		}
		if x.Min != x.Max && t.nullable(x.Body) {
			return t.fail("nullable loop body")
		}
		if x.Max >= 0 && x.Max < x.Min {
			return t.fail("max<min")
		}
		body := "(?:" + t.node(x.Body) + ")"
		var q string
		switch {
		case x.Max == -1:
			q = fmt.Sprintf("{%d,}", x.Min)
		case x.Min == x.Max:
			q = fmt.Sprintf("{%d}", x.Min)
		default:
			q = fmt.Sprintf("{%d,%d}", x.Min, x.Max)
		}
		if x.Lazy && x.Min != x.Max {
			q += "?"
		}
		return body + q
	}
	return t.fail(fmt.Sprintf("node %T", n))
}

func (t *tr) nullable(n gen.Node) bool {
	switch x := n.(type) {
	case gen.Lit:
		return len(x.S) == 0 && !x.Not
	case gen.Class, gen.In:
		return false
	case gen.Anchor:
		return true
	case gen.Seq:
		for _, it := range x.Items {
			if !t.nullable(it) {
				return false
			}
		}
		return true
	case gen.Or:
		for _, a := range x.Alts {
			if t.nullable(a) {
				return true
			}
		}
		return false
	case gen.Capture:
		return t.nullable(x.Body)
	case gen.SubDef:
		return t.nullable(gen.Seq{Items: x.Body})
	case gen.SubCall:
		t.depth++
		defer func() { t.depth-- }()
		if t.depth > 8 {
			return true
		}
		return t.nullable(gen.Seq{Items: t.subs[x.Name]})
	case gen.GlobalRef:
		if g, ok := t.globals[x.Name]; ok {
			return t.nullable(gen.Seq{Items: g.Body})
		}
		return true
	case gen.Loop:
		return x.Min == 0 || t.nullable(x.Body)
	case gen.Regex:
		return t.nullable(x.Tree)
	}
	return true
}

func collect(nodes []gen.Node, into map[string][]gen.Node) {
	for _, n := range nodes {
		switch x := n.(type) {
		case gen.SubDef:
			into[x.Name] = x.Body
			collect(x.Body, into)
		case gen.Seq:
			collect(x.Items, into)
		case gen.Loop:
			collect([]gen.Node{x.Body}, into)
		case gen.Or:
			collect(x.Alts, into)
		case gen.Capture:
			collect([]gen.Node{x.Body}, into)
		case gen.Regex:
			collect([]gen.Node{x.Tree}, into)
		}
	}
}

// Translate returns the Go regexp source for a command body, or ok=false with the reason
// the body is outside the regular subset.
func Translate(p *gen.Program, body []gen.Node) (re string, ok bool, why string) {
	t := &tr{prog: p, subs: map[string][]gen.Node{}, globals: map[string]*gen.Global{}, ok: true}
	for i := range p.Globals {
		t.globals[p.Globals[i].Name] = &p.Globals[i]
		collect(p.Globals[i].Body, t.subs)
	}
	collect(body, t.subs)
	re = t.seq(body)
	return re, t.ok, t.why
}

// Scanner emulates vore's scan loop with Go's regexp.
type Scanner struct {
	re    string
	cache map[int]*regexp.Regexp
}

func NewScanner(re string) *Scanner { return &Scanner{re: re, cache: map[int]*regexp.Regexp{}} }

func (s *Scanner) at(p int) (*regexp.Regexp, error) {
	if r, ok := s.cache[p]; ok {
		return r, nil
	}
	src := fmt.Sprintf("\\A(?s:.{%d})(%s)", p, s.re)
	r, err := regexp.Compile(src)
	if err != nil {
		return nil, err
	}
	s.cache[p] = r
	return r, nil
}

// TextOK: the emulation is exact only for ASCII (plus isolated invalid bytes) without \r and \f.
func TextOK(text string) bool {
	for i := 0; i < len(text); i++ {
		c := text[i]
		if c == '\r' || c == '\f' {
			return false
		}
		if c >= 0x80 {
			// an isolated lead byte is an invalid sequence of width 1 for Go: fine; anything that
			// could combine into a multi-byte rune is not
			if c >= 0x80 && c < 0xC0 {
				return false
			}
			if i+1 < len(text) && text[i+1] >= 0x80 {
				return false
			}
		}
	}
	return true
}

func (s *Scanner) Scan(text string) ([][2]int, error) {
	var out [][2]int
	n := len(text)
	p := 0
	for p < n {
		r, err := s.at(p)
		if err != nil {
			return nil, err
		}
		loc := r.FindStringSubmatchIndex(text)
		if loc != nil && loc[3] > loc[2] {
			out = append(out, [2]int{loc[2], loc[3]})
			p = loc[3]
		} else {
			p++
		}
	}
	return out, nil
}
