package gen

import (
	"fmt"
	"strings"
	"unicode/utf8"
)

// ---- pattern nodes ----------------------------------------------------------------

type Node interface{}

type Lit struct {
	S        string
	Not      bool
	Caseless bool
}

// Class is a single-byte class: any whitespace digit upper lower letter.
type Class struct {
	Kind string
	Not  bool
}

// Anchor is zero-width: filestart fileend linestart lineend wordstart wordend.
type Anchor struct {
	Kind string
	Not  bool
}

// Whole is one of the consuming "whole file|line|word" classes (outside the C01 scope).
type Whole struct {
	Kind string // file line word
	Not  bool
}

type ListItem struct {
	Kind     string // "lit" "range" "class"
	S        string // lit
	From, To string // range
	Class    string
	Caseless bool
}

type In struct {
	Not   bool
	Items []ListItem
}

type Loop struct {
	Min, Max int // Max == -1: unbounded
	Lazy     bool
	Body     Node
	Name     string // named loop (outside the C01 scope)
	Form     string // "maybe" "atleast" "atmost" "between" "exactly" ("" = derive)
	Zeros    int    // leading zeros in the spelling of the counts
}

type Or struct{ Alts []Node }

// Seq is a parenthesised group when nested, a plain sequence at command level.
type Seq struct{ Items []Node }

type Capture struct {
	Name string
	Body Node
}

type BackRef struct{ Name string }

type SubDef struct {
	Name string
	Body []Node
}

type SubCall struct{ Name string }

// GlobalRef references a `set name to pattern ...` definition of the program.
type GlobalRef struct{ Name string }

// Regex embeds a regex literal (source kept verbatim) together with its harness translation.
type Regex struct {
	Src  string
	Tree Node
}

// ---- program level ----------------------------------------------------------------

type Pred struct {
	Src string                // process statements between begin ... end
	Fn  func(sub string) bool // what they compute
}

type Global struct {
	Name string
	Body []Node
	Pred *Pred
}

type Amount struct {
	Kind       string // all skip skiptake take top last
	Skip, Take int
	Last       int
	Zeros      int // leading zeros in the spelling of every number (the value is decimal all the same)
	Sep        string // what stands between `skip s` and `take t` instead of one blank (comments, line breaks)
}

// Num spells n in decimal with the given number of leading zeros.
func Num(n, zeros int) string { return strings.Repeat("0", zeros) + fmt.Sprint(n) }

func (a Amount) String() string {
	switch a.Kind {
	case "", "all":
		return "all"
	case "skip":
		return "skip " + Num(a.Skip, a.Zeros)
	case "skiptake":
		sep := " "
		if a.Sep != "" {
			sep = a.Sep
		}
		return "skip " + Num(a.Skip, a.Zeros) + sep + "take " + Num(a.Take, a.Zeros)
	case "take":
		return "take " + Num(a.Take, a.Zeros)
	case "top":
		return "top " + Num(a.Take, a.Zeros)
	case "last":
		return "last " + Num(a.Last, a.Zeros)
	}
	return "all"
}

type WithItem struct {
	Kind     string // "str" "var"
	S        string
	Caseless bool // a string written `caseless '..'` (accepted by the parser; the modifier means nothing in a replacement)
}

type Command struct {
	Replace bool
	Amount  Amount
	Body    []Node
	With    []WithItem
}

type Transform struct {
	Name string
	Src  string // statements between "set name to transform" and "end"
}

type Program struct {
	Globals    []Global
	Transforms []Transform
	Commands   []Command
}

// ---- rendering ------------------------------------------------------------------

var hexd = "0123456789abcdef"

// Quote renders a byte string as a vore string literal.
func Quote(s string) string {
	q := byte('\'')
	if strings.IndexByte(s, '\'') >= 0 && strings.IndexByte(s, '"') < 0 {
		q = '"'
	}
	var sb strings.Builder
	sb.WriteByte(q)
	for i := 0; i < len(s); i++ {
		c := s[i]
		if c >= 0x80 {
			// a source is UTF-8 text: a well-formed multi-byte character is written raw (the \xHH escape denotes
			// the code point U+00HH, not the byte)
			if rn, w := utf8.DecodeRuneInString(s[i:]); rn != utf8.RuneError && w > 1 {
				sb.WriteString(s[i : i+w])
				i += w - 1
				continue
			}
		}
		switch {
		case c == q || c == '\\':
			sb.WriteByte('\\')
			sb.WriteByte(c)
		case c == '\n':
			sb.WriteString("\\n")
		case c == '\t':
			sb.WriteString("\\t")
		case c == '\r':
			sb.WriteString("\\r")
		case c < 0x20 || c >= 0x7f:
			sb.WriteString("\\x")
			sb.WriteByte(hexd[c>>4])
			sb.WriteByte(hexd[c&15])
		default:
			sb.WriteByte(c)
		}
	}
	sb.WriteByte(q)
	return sb.String()
}

var classWord = map[string]string{
	"any": "any", "whitespace": "whitespace", "digit": "digit", "upper": "upper", "lower": "lower", "letter": "letter",
}

var anchorWord = map[string]string{
	"filestart": "file start", "fileend": "file end", "linestart": "line start", "lineend": "line end",
	"wordstart": "word start", "wordend": "word end",
}

// isLiteral reports whether n renders as a grammar `literal` (usable as an `or` operand,
// a capture body) without parentheses.
func isLiteral(n Node) bool {
	switch x := n.(type) {
	case Lit, Class, Anchor, Whole, BackRef, SubCall, GlobalRef:
		return true
	case Seq:
		_ = x
		return true // rendered with parentheses
	}
	return false
}

func renderLiteral(n Node) string {
	if isLiteral(n) {
		return Render(n)
	}
	return "(" + Render(n) + ")"
}

func renderItem(it ListItem) string {
	switch it.Kind {
	case "lit":
		if it.Caseless {
			return "caseless " + Quote(it.S)
		}
		return Quote(it.S)
	case "range":
		return Quote(it.From) + " to " + Quote(it.To)
	case "class":
		return classWord[it.Class]
	}
	return "''"
}

// Render produces vore source for one node in expression position.
func Render(n Node) string {
	switch x := n.(type) {
	case Lit:
		s := Quote(x.S)
		if x.Caseless {
			s = "caseless " + s
		}
		if x.Not {
			s = "not " + s
		}
		return s
	case Class:
		if x.Not {
			return "not " + classWord[x.Kind]
		}
		return classWord[x.Kind]
	case Anchor:
		if x.Not {
			return "not " + anchorWord[x.Kind]
		}
		return anchorWord[x.Kind]
	case Whole:
		if x.Not {
			return "not whole " + x.Kind
		}
		return "whole " + x.Kind
	case In:
		parts := make([]string, len(x.Items))
		for i, it := range x.Items {
			parts[i] = renderItem(it)
		}
		s := "in " + strings.Join(parts, ", ")
		if x.Not {
			s = "not " + s
		}
		return s
	case Loop:
		body := x.Body
		var bs string
		switch body.(type) {
		case Loop, Or:
			// `fewest`/`named` bind to the innermost open loop; `or` after a loop body would
			// extend the body: parenthesise to keep the tree unambiguous.
			bs = "(" + Render(body) + ")"
		case Capture:
			bs = "(" + Render(body) + ")"
		default:
			bs = Render(body)
		}
		form := x.Form
		if form == "" {
			switch {
			case x.Min == 0 && x.Max == 1:
				form = "maybe"
			case x.Max == -1:
				form = "atleast"
			case x.Min == 0:
				form = "atmost"
			case x.Min == x.Max && !x.Lazy:
				form = "exactly"
			default:
				form = "between"
			}
		}
		var s string
		switch form {
		case "maybe":
			s = "maybe " + bs
		case "atleast":
			s = "at least " + Num(x.Min, x.Zeros) + " " + bs
		case "atmost":
			s = "at most " + Num(x.Max, x.Zeros) + " " + bs
		case "exactly":
			s = "exactly " + Num(x.Min, x.Zeros) + " " + bs
		default:
			s = "between " + Num(x.Min, x.Zeros) + " and " + Num(x.Max, x.Zeros) + " " + bs
		}
		if x.Lazy && form != "exactly" {
			s += " fewest"
		}
		if x.Name != "" {
			s += " named " + x.Name
		}
		return s
	case Or:
		parts := make([]string, len(x.Alts))
		for i, a := range x.Alts {
			parts[i] = renderLiteral(a)
		}
		return strings.Join(parts, " or ")
	case Seq:
		return "(" + RenderSeq(x.Items) + ")"
	case Capture:
		return renderLiteral(x.Body) + " = " + x.Name
	case BackRef:
		return x.Name
	case SubDef:
		return "{" + RenderSeq(x.Body) + "} = " + x.Name
	case SubCall:
		return x.Name
	case GlobalRef:
		return x.Name
	case Regex:
		return "@/" + x.Src + "/"
	}
	panic(fmt.Sprintf("render: unknown node %T", n))
}

func RenderSeq(items []Node) string {
	parts := make([]string, len(items))
	for i, it := range items {
		parts[i] = Render(it)
	}
	return strings.Join(parts, " ")
}

func RenderCommand(c Command) string {
	var sb strings.Builder
	if c.Replace {
		sb.WriteString("replace ")
	} else {
		sb.WriteString("find ")
	}
	sb.WriteString(c.Amount.String())
	sb.WriteString(" ")
	sb.WriteString(RenderSeq(c.Body))
	if c.Replace {
		sb.WriteString(" with")
		for _, w := range c.With {
			sb.WriteString(" ")
			if w.Kind == "str" {
				if w.Caseless {
					sb.WriteString("caseless ")
				}
				sb.WriteString(Quote(w.S))
			} else {
				sb.WriteString(w.S)
			}
		}
	}
	return sb.String()
}

func RenderGlobal(g Global) string {
	s := "set " + g.Name + " to pattern " + RenderSeq(g.Body)
	if g.Pred != nil {
		s += " begin " + g.Pred.Src + " end"
	}
	return s
}

func RenderProgram(p *Program) string {
	var parts []string
	for _, g := range p.Globals {
		parts = append(parts, RenderGlobal(g))
	}
	for _, t := range p.Transforms {
		parts = append(parts, "set "+t.Name+" to transform "+t.Src+" end")
	}
	for _, c := range p.Commands {
		parts = append(parts, RenderCommand(c))
	}
	return strings.Join(parts, "\n")
}
