// Package gen holds the harness's own program representation, its renderer to vore source,
// the input sampler and the deterministic PRNG. Nothing here imports the library.
package gen

// Rng is SplitMix64. Case lists are pure functions of (property, tier, seed, index).
type Rng struct{ s uint64 }

func NewRng(seed uint64) *Rng { return &Rng{s: seed} }

// Derive gives an independent stream for (seed, label, index).
func Derive(seed uint64, label string, index int) *Rng {
	h := seed ^ 0xA0761D6478BD642F
	for i := 0; i < len(label); i++ {
		h = (h ^ uint64(label[i])) * 0x100000001B3
	}
	h ^= uint64(index) * 0x9E3779B97F4A7C15
	r := &Rng{s: h}
	r.Next()
	r.Next()
	return r
}

func (r *Rng) Next() uint64 {
	r.s += 0x9E3779B97F4A7C15
	z := r.s
	z = (z ^ (z >> 30)) * 0xBF58476D1CE4E5B9
	z = (z ^ (z >> 27)) * 0x94D049BB133111EB
	return z ^ (z >> 31)
}

func (r *Rng) Intn(n int) int {
	if n <= 0 {
		return 0
	}
	return int(r.Next() % uint64(n))
}

func (r *Rng) Bool() bool { return r.Next()&1 == 1 }

// Chance is true with probability num/den.
func (r *Rng) Chance(num, den int) bool { return r.Intn(den) < num }

func (r *Rng) Pick(s []string) string { return s[r.Intn(len(s))] }

func (r *Rng) Byte(alpha []byte) byte { return alpha[r.Intn(len(alpha))] }
