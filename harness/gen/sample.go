package gen

// Sampler derives input texts from a program: strings the pattern is likely to match,
// their prefixes, one-byte edits and concatenations, plus uniform noise over the text alphabet.
type Sampler struct {
	R       *Rng
	Prog    *Program
	TextAlpha []byte
	subs    map[string][]Node
	globals map[string][]Node
	env     map[string]string
	depth   int
}

func NewSampler(r *Rng, p *Program, textAlpha []byte) *Sampler {
	s := &Sampler{R: r, Prog: p, TextAlpha: textAlpha, subs: map[string][]Node{}, globals: map[string][]Node{}, env: map[string]string{}}
	for _, g := range p.Globals {
		s.globals[g.Name] = g.Body
		collectSubDefs(g.Body, s.subs)
	}
	for _, c := range p.Commands {
		collectSubDefs(c.Body, s.subs)
	}
	return s
}

func collectSubDefs(nodes []Node, into map[string][]Node) {
	for _, n := range nodes {
		switch x := n.(type) {
		case SubDef:
			into[x.Name] = x.Body
			collectSubDefs(x.Body, into)
		case Seq:
			collectSubDefs(x.Items, into)
		case Loop:
			collectSubDefs([]Node{x.Body}, into)
		case Or:
			collectSubDefs(x.Alts, into)
		case Capture:
			collectSubDefs([]Node{x.Body}, into)
		case Regex:
			collectSubDefs([]Node{x.Tree}, into)
		}
	}
}

func classMember(kind string) []byte {
	switch kind {
	case "whitespace":
		return []byte(" \n\t")
	case "digit":
		return []byte("0123")
	case "upper":
		return []byte("ABZ")
	case "lower":
		return []byte("abz")
	case "letter":
		return []byte("abAZ")
	}
	return nil
}

func inClass(kind string, b byte) bool {
	switch kind {
	case "any":
		return true
	case "whitespace":
		return b == ' ' || b == '\t' || b == '\n' || b == '\r'
	case "digit":
		return b >= '0' && b <= '9'
	case "upper":
		return b >= 'A' && b <= 'Z'
	case "lower":
		return b >= 'a' && b <= 'z'
	case "letter":
		return (b >= 'a' && b <= 'z') || (b >= 'A' && b <= 'Z')
	}
	return false
}

func (s *Sampler) anyByte() byte { return s.TextAlpha[s.R.Intn(len(s.TextAlpha))] }

func (s *Sampler) seq(items []Node) string {
	out := ""
	for _, it := range items {
		out += s.Node(it)
		if len(out) > 64 {
			break
		}
	}
	return out
}

func (s *Sampler) item(it ListItem) string {
	switch it.Kind {
	case "lit":
		return it.S
	case "range":
		lo, hi := it.From[0], it.To[0]
		if hi < lo {
			return string([]byte{lo})
		}
		return string([]byte{lo + byte(s.R.Intn(int(hi-lo)+1))})
	case "class":
		m := classMember(it.Class)
		if m == nil {
			return string([]byte{s.anyByte()})
		}
		return string([]byte{m[s.R.Intn(len(m))]})
	}
	return ""
}

// Node samples a string that the node can match (best effort; anchors are ignored).
func (s *Sampler) Node(n Node) string {
	s.depth++
	defer func() { s.depth-- }()
	r := s.R
	switch x := n.(type) {
	case Lit:
		if !x.Not {
			if x.Caseless && r.Bool() {
				b := []byte(x.S)
				for i := range b {
					if r.Bool() {
						if b[i] >= 'a' && b[i] <= 'z' {
							b[i] -= 32
						} else if b[i] >= 'A' && b[i] <= 'Z' {
							b[i] += 32
						}
					}
				}
				return string(b)
			}
			return x.S
		}
		b := make([]byte, len(x.S))
		for i := range b {
			b[i] = s.anyByte()
		}
		return string(b)
	case Class:
		if x.Not {
			for i := 0; i < 8; i++ {
				b := s.anyByte()
				if !inClass(x.Kind, b) {
					return string([]byte{b})
				}
			}
			return "\n"
		}
		m := classMember(x.Kind)
		if m == nil {
			return string([]byte{s.anyByte()})
		}
		return string([]byte{m[r.Intn(len(m))]})
	case Anchor:
		if x.Kind == "linestart" && r.Chance(1, 3) {
			return "\n"
		}
		return ""
	case Whole:
		return "ab"
	case In:
		if !x.Not {
			return s.item(x.Items[r.Intn(len(x.Items))])
		}
		return string([]byte{s.anyByte()})
	case Seq:
		return s.seq(x.Items)
	case Or:
		return s.Node(x.Alts[r.Intn(len(x.Alts))])
	case Capture:
		v := s.Node(x.Body)
		s.env[x.Name] = v
		return v
	case BackRef:
		return s.env[x.Name]
	case SubDef:
		return s.seq(x.Body)
	case SubCall:
		if s.depth > 6 {
			return ""
		}
		return s.seq(s.subs[x.Name])
	case GlobalRef:
		if s.depth > 6 {
			return ""
		}
		return s.seq(s.globals[x.Name])
	case Regex:
		return s.Node(x.Tree)
	case Loop:
		extra := 0
		if x.Max == -1 {
			extra = r.Intn(3)
		} else if x.Max > x.Min {
			extra = r.Intn(x.Max - x.Min + 1)
		}
		if s.depth > 5 {
			extra = 0
		}
		out := ""
		for i := 0; i < x.Min+extra; i++ {
			out += s.Node(x.Body)
			if len(out) > 48 {
				break
			}
		}
		return out
	}
	return ""
}

// Inputs returns up to n distinct texts of at most maxLen bytes for the command body.
func (s *Sampler) Inputs(body []Node, n int, maxLen int) [][]byte {
	seen := map[string]bool{}
	var out [][]byte
	add := func(t string) {
		if len(t) > maxLen {
			t = t[:maxLen]
		}
		if !seen[t] && len(out) < n {
			seen[t] = true
			out = append(out, []byte(t))
		}
	}
	r := s.R
	var pos []string
	for i := 0; i < 4; i++ {
		s.env = map[string]string{}
		m := s.seq(body)
		pos = append(pos, m)
		add(m)
	}
	// several matches separated by noise, resume-after-match
	if len(pos) >= 2 {
		add(pos[0] + pos[1])
		add(pos[0] + string([]byte{s.anyByte()}) + pos[1])
		add(string([]byte{s.anyByte()}) + pos[2%len(pos)] + pos[3%len(pos)])
	}
	for tries := 0; len(out) < n && tries < 20*n+40; tries++ {
		base := pos[r.Intn(len(pos))]
		switch r.Intn(6) {
		case 0: // prefix: input ends in the middle of a construct
			if len(base) > 0 {
				add(base[:r.Intn(len(base))])
			} else {
				add(string([]byte{s.anyByte()}))
			}
		case 1: // deletion
			if len(base) > 0 {
				i := r.Intn(len(base))
				add(base[:i] + base[i+1:])
			} else {
				add(string([]byte{s.anyByte(), s.anyByte()}))
			}
		case 2: // insertion
			i := r.Intn(len(base) + 1)
			add(base[:i] + string([]byte{s.anyByte()}) + base[i:])
		case 3: // substitution
			if len(base) > 0 {
				i := r.Intn(len(base))
				add(base[:i] + string([]byte{s.anyByte()}) + base[i+1:])
			} else {
				add(string([]byte{s.anyByte()}))
			}
		case 4: // concatenation of two samples
			add(base + pos[r.Intn(len(pos))])
		default: // uniform noise
			l := 1 + r.Intn(maxLen)
			b := make([]byte, l)
			for i := range b {
				b[i] = s.anyByte()
			}
			add(string(b))
		}
	}
	return out
}
