package gen

import "fmt"

// Widths are item counts on both sides of 10, 16, 32, 64, 100, 128, 256.
var Widths = []int{9, 10, 11, 15, 16, 17, 31, 32, 33, 63, 64, 65, 99, 100, 101, 127, 128, 129, 255, 256, 257, 300}

const WideKinds = 7

// WideProgram builds a linear-time find program that is wide rather than deep: many captures and back-references,
// many alternatives, many list items, many groups in a row, many inline subroutines, many stored patterns, many
// anchors. The texts hold matches, near misses and leftovers. kind selects the shape (0..WideKinds-1).
func WideProgram(rng *Rng, kind int) (*Program, [][]byte, string) {
	letters := "abcxyzABQ"
	pick := func() byte { return letters[rng.Intn(len(letters))] }
	p := &Program{}
	var body []Node
	var texts [][]byte
	label := ""
	switch kind {
	case 0: // K captures in a row, then R back-references
		K := Widths[rng.Intn(13)]
		R := 1 + rng.Intn(6)
		label = fmt.Sprintf("captures:%d", K)
		refs := make([]int, R)
		for k := 0; k < K; k++ {
			body = append(body, Capture{Name: fmt.Sprintf("c%d", k+1), Body: Seq{Items: []Node{Class{Kind: "letter"}}}})
		}
		body = append(body, Lit{S: "="})
		for j := range refs {
			refs[j] = rng.Intn(K)
			if j == 0 && rng.Bool() {
				refs[j] = K - 1
			}
			body = append(body, BackRef{Name: fmt.Sprintf("c%d", refs[j]+1)})
		}
		for t := 0; t < 3; t++ {
			var text []byte
			for m := 0; m < 3; m++ {
				blk := make([]byte, K)
				for k := range blk {
					blk[k] = pick()
				}
				text = append(text, blk...)
				text = append(text, '=')
				for j, rf := range refs {
					b := blk[rf]
					if m == 1 && j == t%len(refs) {
						b = '!' // one block of each text misses by one back-reference
					}
					text = append(text, b)
				}
				text = append(text, " \n;"[m])
			}
			texts = append(texts, text)
		}
	case 1: // N alternatives, each a two-byte literal; the text walks through first, last, middle and absent ones
		N := Widths[rng.Intn(len(Widths))]
		label = fmt.Sprintf("alternatives:%d", N)
		alts := make([]Node, N)
		for k := range alts {
			alts[k] = Lit{S: fmt.Sprintf("%c%c", 'a'+k%26, 'A'+(k/26)%26)}
		}
		body = []Node{Lit{S: "<"}, Or{Alts: alts}, Lit{S: ">"}}
		var text []byte
		for _, k := range []int{0, N - 1, N / 2, N, 9, 10, N - 2, 255 % N, 256 % N, 99 % N, 100 % N} {
			text = append(text, fmt.Sprintf("<%c%c>", 'a'+k%26, 'A'+(k/26)%26)...)
		}
		texts = [][]byte{text}
	case 2: // an `in` list of N items (strings of one or two bytes and ranges)
		N := Widths[rng.Intn(len(Widths))]
		label = fmt.Sprintf("list-items:%d", N)
		items := make([]ListItem, N)
		for k := range items {
			if k%7 == 3 {
				c := string(rune('0' + k%10))
				items[k] = ListItem{Kind: "range", From: c, To: c}
			} else {
				items[k] = ListItem{Kind: "lit", S: fmt.Sprintf("%c%c", 'a'+k%26, 'A'+(k/26)%26)}
			}
		}
		body = []Node{Lit{S: "<"}, In{Items: items}, Lit{S: ">"}}
		var text []byte
		for _, k := range []int{0, N - 1, N / 2, N, 9, 10, N - 2, 255 % N, 256 % N, 99 % N, 100 % N} {
			text = append(text, fmt.Sprintf("<%c%c>", 'a'+k%26, 'A'+(k/26)%26)...)
		}
		text = append(text, "<3><aA"...)
		texts = [][]byte{text}
	case 3: // N optional groups in a row
		N := Widths[rng.Intn(14)]
		label = fmt.Sprintf("groups:%d", N)
		for k := 0; k < N; k++ {
			body = append(body, Loop{Min: 0, Max: 1, Form: "maybe", Body: Seq{Items: []Node{Lit{S: string(rune('a' + k%3))}}}})
		}
		body = append(body, Lit{S: ";"})
		var text []byte
		for m := 0; m < 4; m++ {
			for k := 0; k < N; k++ {
				if rng.Intn(4) > 0 {
					text = append(text, byte('a'+k%3))
				}
			}
			text = append(text, ';')
		}
		texts = [][]byte{text}
	case 4: // N inline subroutines, each defined where it first matches and called once afterwards
		N := Widths[rng.Intn(11)]
		label = fmt.Sprintf("subroutines:%d", N)
		for k := 0; k < N; k++ {
			body = append(body, SubDef{Name: fmt.Sprintf("s%d", k+1), Body: []Node{In{Items: []ListItem{{Kind: "lit", S: string(rune('a' + k%5))}, {Kind: "lit", S: string(rune('A' + k%5))}}}}})
		}
		body = append(body, Lit{S: "="})
		calls := []int{0, N - 1, N / 2, 9 % N, 10 % N}
		for _, k := range calls {
			body = append(body, SubCall{Name: fmt.Sprintf("s%d", k+1)})
		}
		var text []byte
		for m := 0; m < 3; m++ {
			for k := 0; k < N; k++ {
				text = append(text, byte("aA"[rng.Intn(2)]+byte(k%5)))
			}
			text = append(text, '=')
			for j, k := range calls {
				b := byte("aA"[rng.Intn(2)] + byte(k%5))
				if m == 1 && j == 1 {
					b = 'z'
				}
				text = append(text, b)
			}
			text = append(text, ' ')
		}
		texts = [][]byte{text}
	case 5: // N stored patterns, all referenced
		N := Widths[rng.Intn(14)]
		label = fmt.Sprintf("stored-patterns:%d", N)
		for k := 0; k < N; k++ {
			p.Globals = append(p.Globals, Global{Name: fmt.Sprintf("g%d", k+1), Body: []Node{Lit{S: fmt.Sprintf("%c", 'a'+k%7)}}})
			body = append(body, GlobalRef{Name: fmt.Sprintf("g%d", k+1)})
		}
		var text []byte
		for m := 0; m < 3; m++ {
			for k := 0; k < N; k++ {
				b := byte('a' + k%7)
				if m == 1 && k == N-1 {
					b = 'z'
				}
				text = append(text, b)
			}
		}
		texts = [][]byte{text}
	case 6: // N lines, each found through its anchors
		N := Widths[rng.Intn(len(Widths))]
		label = fmt.Sprintf("lines:%d", N)
		body = []Node{Anchor{Kind: "linestart"}, Loop{Min: 1, Max: -1, Form: "atleast", Body: Class{Kind: "letter"}}, Anchor{Kind: "lineend"}}
		var text []byte
		for k := 0; k < N; k++ {
			for j := 0; j <= k%3; j++ {
				text = append(text, pick())
			}
			if k%11 == 5 {
				text = append(text, '1')
			}
			text = append(text, '\n')
		}
		texts = [][]byte{text}
	}
	p.Commands = []Command{{Body: body}}
	return p, texts, label
}
