package gen

import (
	"fmt"
	"strings"
)

// Scope bounds what the random program generator may produce.
type Scope struct {
	Alpha     string // bytes used in pattern literals
	MaxDepth  int
	MaxItems  int // items per sequence
	Captures  bool
	BackRefs  bool
	Subs      bool
	Globals   bool
	Preds     bool
	Anchors   bool
	WordAnch  bool
	Classes   bool
	Lists     bool
	Lazy      bool
	Caseless  bool
	NotLit    bool
	CapHeavy  bool // bias towards captures under alternation/optional groups
	GlobalCaps bool // captures inside `set ... to pattern` bodies (bound at run time like any other)
	EmptyLit bool // the empty string literal '' (matches without consuming)
	MultiByteItems bool // string items of more than one byte in `in` lists (order becomes observable)
	NoNullableLoopBody bool
	BigCounts bool // now and then a loop count of 3..12 instead of 0..4
}

var DefaultScope = Scope{
	Alpha: "ab", MaxDepth: 3, MaxItems: 3,
	Captures: true, BackRefs: true, Subs: true, Globals: true, Preds: true,
	Anchors: true, WordAnch: true, Classes: true, Lists: true, Lazy: true, Caseless: true, NotLit: true, MultiByteItems: true, EmptyLit: true, BigCounts: true,
}

// PG is the state of one program generation.
type PG struct {
	R  *Rng
	Sc Scope

	caps     []string // captures declared so far in this command (textual order)
	subs     []string // subroutines whose definition has started
	globals  []Global
	nCap     int
	nSub     int
	noDecl   int // >0 while under a loop that vore unrolls (declarations would clash)
	inGlobal bool
	budget   int // remaining composite nodes
}

func NewPG(r *Rng, sc Scope) *PG { return &PG{R: r, Sc: sc, budget: 10} }

// Predicates the generator can attach to a global pattern. Each is written in the process
// language and mirrored by a Go function of the text the pattern consumed.
var PredLib = []Pred{
	{"return matchLength > 1", func(s string) bool { return len(s) > 1 }},
	{"return matchLength <= 2", func(s string) bool { return len(s) <= 2 }},
	{"return match == 'a'", func(s string) bool { return s == "a" }},
	{"return match != 'ab'", func(s string) bool { return s != "ab" }},
	{"return head match == 'a'", func(s string) bool { return len(s) > 0 && s[0] == 'a' }},
	{"return tail match == 'b'", func(s string) bool { return len(s) > 1 && s[1:] == "b" }},
	{"if matchLength % 2 == 0 then return true end return false", func(s string) bool { return len(s)%2 == 0 }},
	{"set n to matchLength * 2 return n >= 4", func(s string) bool { return len(s)*2 >= 4 }},
	{"return match < 'b'", func(s string) bool { return s < "b" }},
	// a predicate that ends without executing `return` accepts, whatever it evaluated last
	{"if matchLength > 1 then return false end", func(s string) bool { return len(s) <= 1 }},
	{"set n to matchLength - 2", func(s string) bool { return true }},
	{"if match == 'a' then return true end set k to 0", func(s string) bool { return true }},
	{"if matchLength > 2 then return false else set e to '' end", func(s string) bool { return len(s) <= 2 }},
	{"loop break end if false then return false end", func(s string) bool { return true }},
}

func (g *PG) lit() Lit {
	if g.Sc.EmptyLit && g.R.Chance(1, 30) {
		return Lit{S: "", Caseless: g.R.Chance(1, 4)}
	}
	n := 1
	if g.R.Chance(1, 4) {
		n = 2
	}
	b := make([]byte, n)
	for i := range b {
		b[i] = g.Sc.Alpha[g.R.Intn(len(g.Sc.Alpha))]
	}
	l := Lit{S: string(b)}
	if g.Sc.Caseless && g.R.Chance(1, 10) {
		l.Caseless = true
		if g.R.Bool() {
			l.S = strings.ToUpper(l.S)
		}
	}
	if g.Sc.NotLit && !l.Caseless && g.R.Chance(1, 8) { // the grammar has no `not caseless`
		l.Not = true
	}
	return l
}

var classKinds = []string{"any", "lower", "letter", "digit", "upper", "whitespace"}
var anchorKinds = []string{"linestart", "lineend", "filestart", "fileend", "wordstart", "wordend"}

func (g *PG) listItem(positive bool) ListItem {
	if positive && g.Sc.MultiByteItems && g.R.Chance(1, 3) {
		// two- and three-byte strings over a tiny alphabet: one item is often a prefix of another
		n := 2 + g.R.Intn(2)
		b := make([]byte, n)
		for i := range b {
			b[i] = g.Sc.Alpha[g.R.Intn(len(g.Sc.Alpha))]
		}
		return ListItem{Kind: "lit", S: string(b)}
	}
	switch g.R.Intn(4) {
	case 0:
		a := g.Sc.Alpha[g.R.Intn(len(g.Sc.Alpha))]
		b := a + byte(g.R.Intn(3))
		if positive && g.Sc.MultiByteItems && g.R.Chance(1, 5) {
			// bounds of different lengths: 'a' to 'bb' holds a, aa .. az, b, ba, bb (string order), longest reading first
			return ListItem{Kind: "range", From: string([]byte{a}), To: string([]byte{b, g.Sc.Alpha[g.R.Intn(len(g.Sc.Alpha))]})}
		}
		return ListItem{Kind: "range", From: string([]byte{a}), To: string([]byte{b})}
	case 1:
		return ListItem{Kind: "class", Class: classKinds[1+g.R.Intn(len(classKinds)-1)]}
	default:
		it := ListItem{Kind: "lit", S: string([]byte{g.Sc.Alpha[g.R.Intn(len(g.Sc.Alpha))]})}
		if g.Sc.Caseless && g.R.Chance(1, 8) {
			it.Caseless = true
		}
		return it
	}
}

// consuming atom: always eats at least one byte when it matches.
func (g *PG) consumingAtom() Node {
	if g.Sc.Classes && g.R.Chance(1, 4) {
		return Class{Kind: classKinds[g.R.Intn(3)]}
	}
	for {
		l := g.lit()
		if l.S != "" {
			return l
		}
	}
}

func (g *PG) atom() Node {
	r := g.R
	for tries := 0; tries < 8; tries++ {
		switch r.Intn(12) {
		case 0, 1, 2, 3:
			return g.lit()
		case 4:
			if g.Sc.Classes {
				c := Class{Kind: classKinds[r.Intn(len(classKinds))]}
				if r.Chance(1, 4) && c.Kind != "any" {
					c.Not = true
				}
				return c
			}
		case 5:
			if g.Sc.Anchors {
				n := len(anchorKinds)
				if !g.Sc.WordAnch {
					n = 4
				}
				a := Anchor{Kind: anchorKinds[r.Intn(n)]}
				if r.Chance(1, 5) {
					a.Not = true
				}
				return a
			}
		case 6, 7:
			if g.Sc.Lists {
				n := 1 + r.Intn(4)
				in := In{Not: r.Chance(1, 3)}
				for i := 0; i < n; i++ {
					in.Items = append(in.Items, g.listItem(!in.Not))
				}
				return in
			}
		case 8:
			if g.Sc.BackRefs && len(g.caps) > 0 {
				return BackRef{Name: g.caps[r.Intn(len(g.caps))]}
			}
		case 9:
			if g.Sc.Subs && len(g.subs) > 0 {
				return SubCall{Name: g.subs[r.Intn(len(g.subs))]}
			}
		case 10, 11:
			if g.Sc.Globals && len(g.globals) > 0 && !g.inGlobal {
				return GlobalRef{Name: g.globals[r.Intn(len(g.globals))].Name}
			}
		}
	}
	return g.lit()
}

func (g *PG) loopOf(body Node) Loop {
	r := g.R
	l := Loop{Body: body}
	switch r.Intn(7) {
	case 0:
		l.Min, l.Max, l.Form = 0, 1, "maybe"
	case 1:
		l.Min, l.Max, l.Form = r.Intn(3), -1, "atleast"
	case 2:
		l.Min, l.Max, l.Form = 0, -1, "atleast"
	case 3:
		l.Min, l.Max, l.Form = 0, 1+r.Intn(3), "atmost"
	case 4:
		lo := r.Intn(3)
		l.Min, l.Max, l.Form = lo, lo+r.Intn(3), "between"
		if l.Max == 0 {
			l.Max = 1
		}
	case 5:
		n := r.Intn(3)
		l.Min, l.Max, l.Form = n, n, "exactly"
	case 6:
		l.Min, l.Max, l.Form = 1, -1, "atleast"
	}
	if g.Sc.BigCounts && r.Chance(1, 12) {
		k := 3 + r.Intn(4)
		if r.Chance(1, 3) {
			k = 8 + r.Intn(5)
		}
		if r.Chance(1, 3) {
			l.Zeros = 1 + r.Intn(2)
		}
		switch l.Form {
		case "atleast":
			l.Min = k
		case "atmost":
			l.Max = k
		case "between":
			l.Min, l.Max = k-2, k+r.Intn(3)
		case "exactly":
			l.Min, l.Max = k, k
		}
	}
	if g.Sc.Lazy && l.Form != "exactly" && r.Chance(1, 3) {
		l.Lazy = true
	}
	return l
}

// Node generates an expression of at most the given depth.
func (g *PG) Node(depth int) Node {
	r := g.R
	if depth <= 0 || g.budget <= 0 {
		return g.atom()
	}
	for tries := 0; tries < 6; tries++ {
		switch r.Intn(11) {
		case 0, 1, 2:
			return g.atom()
		case 3, 4:
			g.budget--
			// decide the loop shape first so that declarations are suppressed under unrolled loops
			probe := g.loopOf(nil)
			// vore emits no code at all for a loop whose Max is 0: declarations inside would be missing
			if probe.Max == 0 {
				g.noDecl++
			}
			body := g.Node(depth - 1)
			if probe.Max == 0 {
				g.noDecl--
			}
			if (probe.Min >= 5 || probe.Max >= 5) && loopNest(body) > 1 {
				// a big count over nested loops (or calls) multiplies the backtracking: big counts only over bodies with at most one loop level
				if probe.Min > 2 {
					probe.Min = 2
				}
				if probe.Max > 3 {
					probe.Max = 3
				}
				if probe.Form == "exactly" {
					probe.Max = probe.Min
				}
			}
			probe.Body = body
			return probe
		case 5, 6:
			g.budget--
			n := 2 + r.Intn(2)
			o := Or{}
			for i := 0; i < n; i++ {
				if r.Chance(1, 2) {
					o.Alts = append(o.Alts, g.atomOrGroup(depth-1))
				} else {
					o.Alts = append(o.Alts, g.atom())
				}
			}
			return o
		case 7:
			g.budget--
			return Seq{Items: g.Items(depth-1, 1+r.Intn(g.Sc.MaxItems))}
		case 8:
			if g.Sc.Captures && g.noDecl == 0 && (!g.inGlobal || g.Sc.GlobalCaps) {
				g.budget--
				g.nCap++
				name := fmt.Sprintf("v%d", g.nCap)
				var body Node
				if r.Chance(1, 2) {
					body = g.atomOrGroup(depth - 1)
				} else {
					body = g.consumingAtom()
				}
				g.caps = append(g.caps, name) // visible to later siblings only after the body
				return Capture{Name: name, Body: body}
			}
		case 9:
			if g.Sc.Subs && g.noDecl == 0 {
				g.budget--
				g.nSub++
				name := fmt.Sprintf("s%d", g.nSub)
				g.subs = append(g.subs, name) // visible inside its own body: recursion
				body := []Node{g.consumingAtom()}
				body = append(body, g.Items(depth-1, r.Intn(g.Sc.MaxItems))...)
				return SubDef{Name: name, Body: body}
			}
		case 10:
			if g.Sc.CapHeavy && g.Sc.Captures && g.noDecl == 0 && !g.inGlobal {
				// ('x' = v 'y') or (...) : a binding made in an alternative that may then fail
				g.budget--
				g.nCap++
				name := fmt.Sprintf("v%d", g.nCap)
				first := Seq{Items: []Node{Capture{Name: name, Body: g.consumingAtom()}, g.atom()}}
				g.caps = append(g.caps, name)
				second := g.atomOrGroup(depth - 1)
				return Or{Alts: []Node{first, second}}
			}
		}
	}
	return g.atom()
}

// loopNest: nesting depth of loops in n; calls count as two levels (they may recurse).
func loopNest(n Node) int {
	best := 0
	up := func(d int) {
		if d > best {
			best = d
		}
	}
	switch x := n.(type) {
	case Loop:
		up(1 + loopNest(x.Body))
	case Seq:
		for _, it := range x.Items {
			up(loopNest(it))
		}
	case Or:
		for _, it := range x.Alts {
			up(loopNest(it))
		}
	case Capture:
		up(loopNest(x.Body))
	case SubDef, SubCall, GlobalRef:
		up(2)
	}
	return best
}

func (g *PG) atomOrGroup(depth int) Node {
	if depth <= 0 || g.budget <= 0 || g.R.Chance(1, 2) {
		return g.atom()
	}
	g.budget--
	return Seq{Items: g.Items(depth-1, 1+g.R.Intn(g.Sc.MaxItems))}
}

func (g *PG) Items(depth int, n int) []Node {
	out := make([]Node, 0, n)
	for i := 0; i < n; i++ {
		out = append(out, g.Node(depth))
	}
	return out
}

// Global generates one `set gN to pattern ...` definition (capture-free; may reference earlier globals).
func (g *PG) Global() Global {
	name := fmt.Sprintf("g%d", len(g.globals)+1)
	saveCaps, saveSubs := g.caps, g.subs
	g.caps, g.subs = nil, nil
	g.inGlobal = true
	body := []Node{g.consumingAtom()}
	// let globals reference earlier globals (nested relocation)
	if len(g.globals) > 0 && g.R.Chance(1, 3) {
		body = append(body, GlobalRef{Name: g.globals[g.R.Intn(len(g.globals))].Name})
	}
	g.inGlobal = false
	inner := g.globals
	_ = inner
	g.inGlobal = true
	body = append(body, g.Items(g.Sc.MaxDepth-1, 1+g.R.Intn(2))...)
	g.inGlobal = false
	g.caps, g.subs = saveCaps, saveSubs
	gl := Global{Name: name, Body: body}
	if g.Sc.Preds && g.R.Chance(1, 3) {
		p := PredLib[g.R.Intn(len(PredLib))]
		gl.Pred = &p
	}
	g.globals = append(g.globals, gl)
	return gl
}

// FindProgram generates `[set ... to pattern ...]* find all <body>`.
func (g *PG) FindProgram() *Program {
	p := &Program{}
	if g.Sc.Globals {
		n := g.R.Intn(3)
		for i := 0; i < n; i++ {
			g.budget = 4
			g.Global()
		}
		p.Globals = g.globals
	}
	g.budget = 8
	body := g.Items(g.Sc.MaxDepth, 1+g.R.Intn(g.Sc.MaxItems))
	p.Commands = []Command{{Amount: Amount{Kind: "all"}, Body: body}}
	return p
}

// LoopDepth is the maximal nesting of unbounded/optional loops, used to cap input length.
func LoopDepth(nodes []Node, globals map[string][]Node) int {
	best := 0
	for _, n := range nodes {
		d := 0
		switch x := n.(type) {
		case Loop:
			d = LoopDepth([]Node{x.Body}, globals)
			if x.Max != x.Min {
				d++
			}
		case Seq:
			d = LoopDepth(x.Items, globals)
		case Or:
			d = LoopDepth(x.Alts, globals)
		case Capture:
			d = LoopDepth([]Node{x.Body}, globals)
		case SubDef:
			d = LoopDepth(x.Body, globals) + 1
		case SubCall:
			d = 1
		case GlobalRef:
			if b, ok := globals[x.Name]; ok {
				d = LoopDepth(b, globals)
			}
		case Regex:
			d = LoopDepth([]Node{x.Tree}, globals)
		}
		if d > best {
			best = d
		}
	}
	return best
}
