package gen

import "fmt"

// Decorations that take a core program outside the C01 scope but keep it acceptable:
// named loops, whole line/word/file, amount clauses, replace commands.

// NameLoops gives names to some loops (never `exactly`/`maybe`, whose syntax has no `named`).
func NameLoops(r *Rng, nodes []Node, counter *int) []Node {
	out := make([]Node, len(nodes))
	for i, n := range nodes {
		out[i] = nameLoopsNode(r, n, counter)
	}
	return out
}

func nameLoopsNode(r *Rng, n Node, counter *int) Node {
	switch x := n.(type) {
	case Loop:
		x.Body = nameLoopsNode(r, x.Body, counter)
		if x.Form != "exactly" && x.Form != "maybe" && x.Form != "" && r.Chance(1, 3) {
			*counter++
			x.Name = fmt.Sprintf("L%d", *counter)
		}
		return x
	case Seq:
		x.Items = NameLoops(r, x.Items, counter)
		return x
	case Or:
		x.Alts = NameLoops(r, x.Alts, counter)
		return x
	case Capture:
		x.Body = nameLoopsNode(r, x.Body, counter)
		return x
	case SubDef:
		x.Body = NameLoops(r, x.Body, counter)
		return x
	}
	return n
}

var BuiltinWith = []string{"value", "matchNumber", "startOffset", "endOffset", "lineNumber", "columnNumber", "totalMatches", "filename"}

// RandomAmount picks an amount clause with parameters that straddle small match counts.
func RandomAmount(r *Rng) Amount {
	switch r.Intn(7) {
	case 0:
		return Amount{Kind: "skip", Skip: r.Intn(4)}
	case 1:
		return Amount{Kind: "skiptake", Skip: r.Intn(3), Take: r.Intn(4)}
	case 2:
		return Amount{Kind: "take", Take: r.Intn(4)}
	case 3:
		return Amount{Kind: "top", Take: r.Intn(4)}
	case 4:
		return Amount{Kind: "last", Last: 1 + r.Intn(3)}
	}
	return Amount{Kind: "all"}
}

// CaptureNames lists the `= name` captures of a body in textual order.
func CaptureNames(nodes []Node) []string {
	var out []string
	var walk func(n Node)
	walk = func(n Node) {
		switch x := n.(type) {
		case Capture:
			walk(x.Body)
			out = append(out, x.Name)
		case Seq:
			for _, it := range x.Items {
				walk(it)
			}
		case Or:
			for _, it := range x.Alts {
				walk(it)
			}
		case Loop:
			walk(x.Body)
		case SubDef:
			for _, it := range x.Body {
				walk(it)
			}
		case Regex:
			walk(x.Tree)
		}
	}
	for _, n := range nodes {
		walk(n)
	}
	return out
}

// LoopNames lists named loops of a body.
func LoopNames(nodes []Node) []string {
	var out []string
	var walk func(n Node)
	walk = func(n Node) {
		switch x := n.(type) {
		case Capture:
			walk(x.Body)
		case Seq:
			for _, it := range x.Items {
				walk(it)
			}
		case Or:
			for _, it := range x.Alts {
				walk(it)
			}
		case Loop:
			if x.Name != "" {
				out = append(out, x.Name)
			}
			walk(x.Body)
		case SubDef:
			for _, it := range x.Body {
				walk(it)
			}
		}
	}
	for _, n := range nodes {
		walk(n)
	}
	return out
}

// AnyProgram produces an accepted single-command program drawing on every construct the
// harness knows: the core language, regex literals, named loops, whole-*, amount clauses, replace.
func AnyProgram(r *Rng, i int) *Program {
	var p *Program
	switch i % 6 {
	case 5:
		rg := &RegexGen{R: r, Alpha: "abc", Named: r.Chance(1, 4), BackRefs: r.Bool(), Anchors: true}
		re := rg.Regex(2)
		p = &Program{Commands: []Command{{Amount: Amount{Kind: "all"}, Body: []Node{re}}}}
	default:
		sc := DefaultScope
		if i%2 == 0 {
			sc.Alpha = "abc"
		}
		pg := NewPG(r, sc)
		p = pg.FindProgram()
	}
	c := &p.Commands[0]
	if i%6 != 5 {
		n := 0
		if r.Chance(1, 2) {
			c.Body = NameLoops(r, c.Body, &n)
		}
		if r.Chance(1, 6) {
			kinds := []string{"line", "word", "file"}
			w := Whole{Kind: kinds[r.Intn(3)], Not: r.Chance(1, 5)}
			pos := r.Intn(len(c.Body) + 1)
			nb := append([]Node{}, c.Body[:pos]...)
			nb = append(nb, w)
			nb = append(nb, c.Body[pos:]...)
			c.Body = nb
		}
	}
	if r.Chance(1, 3) {
		c.Amount = RandomAmount(r)
	}
	if r.Chance(1, 3) {
		c.Replace = true
		var names []string
		for _, nm := range append(CaptureNames(c.Body), LoopNames(c.Body)...) {
			if nm[0] != '_' { // numbered regex groups (_1) cannot be spelled as identifiers
				names = append(names, nm)
			}
		}
		nw := 1 + r.Intn(4)
		for k := 0; k < nw; k++ {
			switch r.Intn(4) {
			case 0:
				c.With = append(c.With, WithItem{Kind: "str", S: []string{"", "X", "<>", "a\nb", "--"}[r.Intn(5)]})
			case 1:
				if len(names) > 0 {
					c.With = append(c.With, WithItem{Kind: "var", S: names[r.Intn(len(names))]})
					continue
				}
				fallthrough
			case 2:
				c.With = append(c.With, WithItem{Kind: "var", S: BuiltinWith[r.Intn(len(BuiltinWith))]})
			default:
				c.With = append(c.With, WithItem{Kind: "var", S: "undefinedName"})
			}
		}
	}
	return p
}

// GlobalCaptureNames lists the captures declared inside the global patterns a body references
// (they are ordinary variables of every match at run time).
func GlobalCaptureNames(p *Program, nodes []Node) []string {
	seen := map[string]bool{}
	var out []string
	gl := map[string][]Node{}
	for _, g := range p.Globals {
		gl[g.Name] = g.Body
	}
	var walk func(n Node)
	walk = func(n Node) {
		switch x := n.(type) {
		case GlobalRef:
			if !seen[x.Name] {
				seen[x.Name] = true
				out = append(out, CaptureNames(gl[x.Name])...)
				for _, k := range gl[x.Name] {
					walk(k)
				}
			}
		case Capture:
			walk(x.Body)
		case Seq:
			for _, it := range x.Items {
				walk(it)
			}
		case Or:
			for _, it := range x.Alts {
				walk(it)
			}
		case Loop:
			walk(x.Body)
		case SubDef:
			for _, it := range x.Body {
				walk(it)
			}
		}
	}
	for _, n := range nodes {
		walk(n)
	}
	return out
}

// CollideNames renames one named loop to the name of a capture of the same body (a name may be bound to a
// string by a capture and to a map by a loop in turn; back-references and `with` items then meet either).
// Returns false when the body has no capture or no named loop.
func CollideNames(r *Rng, body []Node) ([]Node, bool) {
	caps, loops := CaptureNames(body), LoopNames(body)
	var usable []string
	for _, c := range caps {
		if c[0] != '_' {
			usable = append(usable, c)
		}
	}
	if len(usable) == 0 || len(loops) == 0 {
		return body, false
	}
	from := loops[r.Intn(len(loops))]
	to := usable[r.Intn(len(usable))]
	var ren func(n Node) Node
	renAll := func(ns []Node) []Node {
		out := make([]Node, len(ns))
		for i, n := range ns {
			out[i] = ren(n)
		}
		return out
	}
	ren = func(n Node) Node {
		switch x := n.(type) {
		case Loop:
			x.Body = ren(x.Body)
			if x.Name == from {
				x.Name = to
			}
			return x
		case Seq:
			x.Items = renAll(x.Items)
			return x
		case Or:
			x.Alts = renAll(x.Alts)
			return x
		case Capture:
			x.Body = ren(x.Body)
			return x
		case SubDef:
			x.Body = renAll(x.Body)
			return x
		}
		return n
	}
	return renAll(body), true
}

// RenameCapture renames the capture `from` (its declaration and every back-reference to it) to `to`.
func RenameCapture(body []Node, from, to string) []Node {
	var ren func(n Node) Node
	renAll := func(ns []Node) []Node {
		out := make([]Node, len(ns))
		for i, n := range ns {
			out[i] = ren(n)
		}
		return out
	}
	ren = func(n Node) Node {
		switch x := n.(type) {
		case Capture:
			x.Body = ren(x.Body)
			if x.Name == from {
				x.Name = to
			}
			return x
		case BackRef:
			if x.Name == from {
				x.Name = to
			}
			return x
		case Loop:
			x.Body = ren(x.Body)
			return x
		case Seq:
			x.Items = renAll(x.Items)
			return x
		case Or:
			x.Alts = renAll(x.Alts)
			return x
		case SubDef:
			x.Body = renAll(x.Body)
			return x
		}
		return n
	}
	return renAll(body)
}
