package gen

import "strings"

// Tok is a lexical unit of vore source as the harness (not the library) splits it.
type Tok struct {
	Kind string // ws comment string regex word number punct
	Text string
}

func isLetter(c byte) bool { return (c >= 'a' && c <= 'z') || (c >= 'A' && c <= 'Z') }
func isDigit(c byte) bool  { return c >= '0' && c <= '9' }
func isSpace(c byte) bool  { return c == ' ' || c == '\t' || c == '\n' || c == '\r' }

// Tokenize splits ASCII vore source. It is only applied to programs the harness knows to be
// well formed (corpus and generator output).
func Tokenize(src string) []Tok {
	var out []Tok
	i := 0
	n := len(src)
	for i < n {
		c := src[i]
		switch {
		case isSpace(c):
			j := i
			for j < n && isSpace(src[j]) {
				j++
			}
			out = append(out, Tok{"ws", src[i:j]})
			i = j
		case c == '-' && i+2 < n && src[i+1] == '-' && src[i+2] == '(':
			j := strings.Index(src[i+3:], ")--")
			if j < 0 {
				out = append(out, Tok{"comment", src[i:]})
				i = n
			} else {
				out = append(out, Tok{"comment", src[i : i+3+j+3]})
				i = i + 3 + j + 3
			}
		case c == '-' && i+1 < n && src[i+1] == '-':
			j := i
			for j < n && src[j] != '\n' {
				j++
			}
			out = append(out, Tok{"comment", src[i:j]})
			i = j
		case c == '\'' || c == '"':
			j := i + 1
			for j < n && src[j] != c {
				if src[j] == '\\' {
					j++
				}
				j++
			}
			if j >= n {
				j = n - 1
			}
			out = append(out, Tok{"string", src[i : j+1]})
			i = j + 1
		case c == '@' && i+1 < n && src[i+1] == '/':
			j := i + 2
			for j < n && src[j] != '/' {
				j++
			}
			if j >= n {
				j = n - 1
			}
			out = append(out, Tok{"regex", src[i : j+1]})
			i = j + 1
		case isLetter(c):
			j := i
			for j < n && (isLetter(src[j]) || isDigit(src[j])) {
				j++
			}
			out = append(out, Tok{"word", src[i:j]})
			i = j
		case isDigit(c):
			j := i
			for j < n && isDigit(src[j]) {
				j++
			}
			out = append(out, Tok{"number", src[i:j]})
			i = j
		default:
			if i+1 < n {
				two := src[i : i+2]
				if two == "==" || two == "!=" || two == "<=" || two == ">=" || two == ":=" {
					out = append(out, Tok{"punct", two})
					i += 2
					continue
				}
			}
			out = append(out, Tok{"punct", string(c)})
			i++
		}
	}
	return out
}

// Significant drops whitespace and comments.
func Significant(ts []Tok) []Tok {
	var out []Tok
	for _, t := range ts {
		if t.Kind != "ws" && t.Kind != "comment" {
			out = append(out, t)
		}
	}
	return out
}

func wordish(t Tok) bool { return t.Kind == "word" || t.Kind == "number" }

// JoinMinimal concatenates significant tokens with a blank only where two adjacent tokens
// would otherwise fuse (word/number next to word/number, or operator characters that would
// form another token).
func JoinMinimal(ts []Tok) string {
	var sb strings.Builder
	for i, t := range ts {
		if i > 0 && NeedsSeparator(ts[i-1], t) {
			sb.WriteByte(' ')
		}
		sb.WriteString(t.Text)
	}
	return sb.String()
}

// NeedsSeparator: must whitespace stand between a and b for them to stay two tokens?
func NeedsSeparator(a, b Tok) bool {
	if wordish(a) && wordish(b) {
		return true
	}
	if a.Kind == "punct" && b.Kind == "punct" {
		x := a.Text + b.Text
		// sequences the lexer would read differently when glued
		for _, bad := range []string{"--", "==", "!=", "<=", ">=", ":="} {
			if strings.Contains(x, bad) && !strings.Contains(a.Text, bad) && !strings.Contains(b.Text, bad) {
				return true
			}
		}
	}
	if a.Kind == "punct" && a.Text == "-" && b.Kind == "comment" {
		return true
	}
	return false
}

func JoinWith(ts []Tok, sep string) string {
	parts := make([]string, len(ts))
	for i, t := range ts {
		parts[i] = t.Text
	}
	return strings.Join(parts, sep)
}

var Keywords = map[string]bool{}

func init() {
	for _, k := range strings.Fields("find replace with set to pattern matches transform function all skip take top last any whitespace digit upper lower letter line file word start end begin not at least most between and exactly maybe fewest named in or if then else debug return head tail loop continue break true false whole caseless") {
		Keywords[k] = true
	}
}
