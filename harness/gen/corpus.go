package gen

import (
	"os"
	"path/filepath"
	"sort"
)

// Corpus is a hand-written set of valid programs that together use every production of the
// documented grammar (commands, amount clauses, every loop form with fewest/named, lists,
// ranges, not, caseless, classes and anchors, whole-*, groups, or, captures, back-references,
// inline subroutines, recursion, set-to-pattern with predicate, transforms with every
// statement kind and operator, regex literals, comments).
var Corpus = []string{
	`find all 'a'`,
	`find all "a" 'b'`,
	`find skip 1 'a'`,
	`find skip 1 take 2 'a'`,
	`find take 2 'a'`,
	`find top 3 'a'`,
	`find last 2 'a'`,
	`find all at least 1 'a'`,
	`find all at least 0 'a' fewest`,
	`find all at most 2 'a'`,
	`find all at most 2 'a' fewest 'b'`,
	`find all between 1 and 3 'a'`,
	`find all between 1 and 3 'a' fewest named lp`,
	`find all exactly 2 'a'`,
	`find all maybe 'a' 'b'`,
	`find all maybe 'a' fewest 'b'`,
	`find all at least 1 digit named nums ' '`,
	`find all at least 1 ((digit = d) ',') named row`,
	`find all in 'a', 'b', 'c'`,
	`find all in 'a' to 'c', digit, 'x'`,
	`find all not in 'a', 'b' to 'd', whitespace`,
	`find all in caseless 'a', upper`,
	`find all not 'a'`,
	`find all not digit not upper not lower not letter not whitespace`,
	`find all caseless 'abc'`,
	`find all any whitespace digit upper lower letter`,
	`find all line start 'a' line end`,
	`find all file start any file end`,
	`find all word start at least 1 letter word end`,
	`find all not line start 'a' not line end`,
	`find all not word start 'a' not word end not file start not file end`,
	`find all whole line`,
	`find all whole word`,
	`find all whole file`,
	`find all not whole word 'a'`,
	`find all ('a' 'b') 'c'`,
	`find all ('a' ('b' 'c'))`,
	`find all 'a' or 'b'`,
	`find all 'a' or 'b' or ('c' 'd') or digit`,
	`find all 'a' or not 'b' or not digit`,
	`find all 'a' = x 'b' x`,
	`find all (at least 1 letter) = w ' ' w`,
	`find all ('a' or 'b') = x x`,
	`find all {'a' 'b'} = s s`,
	`find all {'a' maybe s 'b'} = s`,
	`find all {'(' at least 0 (s or letter) ')'} = s`,
	`find all ("'" or '"') = quote at least 0 any fewest quote`,
	`find all 'tab\there' "nl\nq\"x" 'q\'s' '\x41\\'`,
	"set p to pattern 'a' or 'b'\nfind all p p",
	"set p to pattern at least 1 digit begin return match % 3 == 0 end\nfind all p",
	"set p to pattern at least 1 digit\nbegin\n  if matchLength > 2 then return false end\n  return true\nend\nfind all 'x' p",
	"set a to pattern in 'a', 'b'\nset b to pattern a a\nfind all b '-' a",
	"set f to transform return match + '!' end\nreplace all 'a' with f",
	"set f to function begin return 'x' end\nreplace all 'a' with f 'y' value",
	"set f to transform\n  set n to 0\n  set s to match\n  loop\n    if s == '' then break end\n    set n to n + 1\n    set s to tail s\n  end\n  return n\nend\nreplace all at least 1 letter with f",
	"set f to transform\n  set i to 0\n  loop\n    set i to i + 1\n    if i < 3 then continue end\n    break\n  end\n  return i * 2 - 1\nend\nreplace all 'a' with f",
	"set f to transform\n  if match == 'a' and matchLength >= 1 or false then return 'A' else return head match + tail match end\nend\nreplace all letter with f",
	"set f to transform\n  debug match\n  if not (matchNumber % 2 == 0) then return 'odd' end\n  return 10 / 3 + 7 % 4 - 2 * 1\nend\nreplace all 'a' with f",
	"set f to transform\n  if 'abc' < 'abd' and 'b' > 'a' and 1 <= 2 and 2 >= 2 and 1 != 2 then return 'ok' end\n  return 'no'\nend\nreplace all 'a' with f",
	"set f to transform\n  if (true == true) != false then return (1 + 2) * 3 end\n  return 0\nend\nreplace all 'a' with f",
	`replace all 'a' with 'b'`,
	`replace all 'a' = x with x x 'z'`,
	`replace skip 1 take 1 'a' with 'b' matchNumber`,
	`replace last 1 'a' with startOffset '-' endOffset '-' lineNumber '-' columnNumber '-' totalMatches`,
	`replace all (at least 1 letter) = w with '<' w '>' nothingHere`,
	`find all @/a+b*/`,
	`find all @/(a|b)c\1/`,
	`find all @/(?<n>a)(?:b)?\k<n>/`,
	`find all @/^[a-c]{2,3}$/`,
	`find all @/[^ab]\d\D\s\S./`,
	`find all @/a{2}b{1,}c??d*?/`,
	"-- a line comment\nfind all 'a' -- trailing\n",
	"--( a block\ncomment )--\nfind all --(inline)-- 'a'",
	"find all 'a'\nfind all 'b'\nreplace all 'c' with 'd'",
	"FIND ALL 'a' OR 'b'",
	"Find All At Least 1 Digit Fewest",
	"set m to matches find all 'a'",
}

// ExampleFiles loads the .vore programs shipped with the repository (inputs, not oracles).
func ExampleFiles(repo string) []string {
	var out []string
	var paths []string
	filepath.Walk(filepath.Join(repo, "docs", "examples"), func(p string, info os.FileInfo, err error) error {
		if err == nil && !info.IsDir() && filepath.Ext(p) == ".vore" {
			paths = append(paths, p)
		}
		return nil
	})
	sort.Strings(paths)
	for _, p := range paths {
		if b, err := os.ReadFile(p); err == nil && len(b) < 8000 {
			out = append(out, string(b))
		}
	}
	return out
}
