package gen

import (
	"fmt"
	"strings"
)

// RegexGen builds regular expressions of the C14 subset together with the harness tree
// that states what they mean (independently of vore's regex parser).
type RegexGen struct {
	R        *Rng
	Alpha    string
	Named    bool // use named groups only
	Mixed    bool // named and numbered groups in one regex: only NAMED back-references are generated then
	                // (vore numbers the unnamed groups only, a conventional engine numbers all of them)
	BackRefs bool
	ManyGroups bool // open with 9..12 small numbered groups, so that back-references get two digits
	Anchors  bool
	nGroup   int
	nNamed   int
	closed   []string // capture names whose group has closed (usable by back-references)
	groupNullable map[string]bool
	budget   int
	HasBackRef bool
	NGroups  int
	Names    []string // capture names in order of their opening parenthesis
}

type rxPiece struct {
	src      string
	node     Node
	nullable bool
}

func (g *RegexGen) ch() byte { return g.Alpha[g.R.Intn(len(g.Alpha))] }

func (g *RegexGen) bracket() rxPiece {
	r := g.R
	neg := r.Chance(1, 3)
	n := 1 + r.Intn(3)
	var sb strings.Builder
	in := In{Not: neg}
	hy := r.Intn(12)
	switch hy {
	case 0: // a hyphen that opens the class stands for itself
		sb.WriteByte('-')
		in.Items = append(in.Items, ListItem{Kind: "lit", S: "-"})
	case 1: // ... unless it opens a range: '-' up to '.' or '0' or '9' (a '/' would end the literal)
		hi := []byte{'.', '0', '9'}[r.Intn(3)]
		sb.WriteString("--")
		sb.WriteByte(hi)
		in.Items = append(in.Items, ListItem{Kind: "range", From: "-", To: string([]byte{hi})})
	}
	for i := 0; i < n; i++ {
		if r.Chance(1, 3) {
			lo := g.ch()
			hi := lo + byte(r.Intn(3))
			sb.WriteByte(lo)
			sb.WriteByte('-')
			sb.WriteByte(hi)
			in.Items = append(in.Items, ListItem{Kind: "range", From: string([]byte{lo}), To: string([]byte{hi})})
		} else {
			c := g.ch()
			if r.Chance(1, 6) {
				// characters that are special outside a class are plain inside one
				sp := []byte(".*+?|(){}$")
				c = sp[r.Intn(len(sp))]
			}
			sb.WriteByte(c)
			in.Items = append(in.Items, ListItem{Kind: "lit", S: string([]byte{c})})
		}
	}
	if hy == 2 { // a hyphen that closes the class stands for itself too
		sb.WriteByte('-')
		in.Items = append(in.Items, ListItem{Kind: "lit", S: "-"})
	}
	src := "[" + sb.String() + "]"
	if neg {
		src = "[^" + sb.String() + "]"
	}
	return rxPiece{src, in, false}
}

// atom: one unquantified atom
func (g *RegexGen) atom(depth int) rxPiece {
	r := g.R
	for tries := 0; tries < 8; tries++ {
		switch r.Intn(13) {
		case 0, 1, 2, 3:
			c := g.ch()
			return rxPiece{string([]byte{c}), Lit{S: string([]byte{c})}, false}
		case 4:
			return rxPiece{".", Lit{S: "\n", Not: true}, false}
		case 5:
			return g.bracket()
		case 6:
			switch r.Intn(4) {
			case 0:
				return rxPiece{"\\d", Class{Kind: "digit"}, false}
			case 1:
				return rxPiece{"\\D", Class{Kind: "digit", Not: true}, false}
			case 2:
				return rxPiece{"\\s", Class{Kind: "whitespace"}, false}
			default:
				return rxPiece{"\\S", Class{Kind: "whitespace", Not: true}, false}
			}
		case 11:
			// an escaped special character is that character
			sp := []byte(".*+?|()[]{}^$-")
			c := sp[r.Intn(len(sp))]
			return rxPiece{"\\" + string([]byte{c}), Lit{S: string([]byte{c})}, false}
		case 7, 8, 9:
			if depth > 0 && g.budget > 0 {
				g.budget--
				return g.group(depth - 1)
			}
		case 10:
			if g.BackRefs && len(g.closed) > 0 {
				name := g.closed[r.Intn(len(g.closed))]
				if g.Mixed && strings.HasPrefix(name, "_") {
					continue
				}
				g.HasBackRef = true
				null := g.groupNullable[name]
				if strings.HasPrefix(name, "_") {
					return rxPiece{"\\" + name[1:], BackRef{Name: name}, null}
				}
				return rxPiece{"\\k<" + name + ">", BackRef{Name: name}, null}
			}
		}
	}
	c := g.ch()
	return rxPiece{string([]byte{c}), Lit{S: string([]byte{c})}, false}
}

func (g *RegexGen) group(depth int) rxPiece {
	r := g.R
	kind := r.Intn(3) // 0 capturing, 1 non-capturing, 2 capturing
	name := ""
	open := "("
	if kind == 1 {
		open = "(?:"
	} else {
		if g.Named || (g.Mixed && r.Bool()) {
			g.nNamed++
			name = fmt.Sprintf("n%d", g.nNamed)
			open = "(?<" + name + ">"
		} else {
			g.nGroup++
			name = fmt.Sprintf("_%d", g.nGroup)
		}
		g.Names = append(g.Names, name)
		g.NGroups++
	}
	inner := g.content(depth)
	if name != "" {
		g.closed = append(g.closed, name)
		if g.groupNullable == nil {
			g.groupNullable = map[string]bool{}
		}
		g.groupNullable[name] = inner.nullable
		return rxPiece{open + inner.src + ")", Seq{Items: []Node{Capture{Name: name, Body: Seq{Items: []Node{inner.node}}}}}, inner.nullable}
	}
	return rxPiece{open + inner.src + ")", Seq{Items: []Node{inner.node}}, inner.nullable}
}

// quantified: atom with an optional quantifier (only over non-nullable atoms)
func (g *RegexGen) quantified(depth int) rxPiece {
	r := g.R
	a := g.atom(depth)
	if _, isRef := a.node.(BackRef); isRef && (a.nullable || !r.Chance(1, 3)) {
		// a back-reference to a group that can be empty is a nullable body: never quantified
		return a
	}
	if a.nullable || !r.Chance(2, 5) {
		return a
	}
	l := Loop{Body: a.node}
	var q string
	switch r.Intn(7) {
	case 0:
		l.Min, l.Max, q = 0, -1, "*"
	case 1:
		l.Min, l.Max, q = 1, -1, "+"
	case 2:
		l.Min, l.Max, q = 0, 1, "?"
	case 3:
		n := 1 + r.Intn(2)
		l.Min, l.Max, q = n, n, fmt.Sprintf("{%d}", n)
	case 4:
		n := r.Intn(3)
		l.Min, l.Max, q = n, -1, fmt.Sprintf("{%d,}", n)
	case 5:
		lo := r.Intn(3)
		hi := lo + 1 + r.Intn(2)
		l.Min, l.Max, q = lo, hi, fmt.Sprintf("{%d,%d}", lo, hi)
	case 6:
		hi := 1 + r.Intn(3)
		l.Min, l.Max, q = 0, hi, fmt.Sprintf("{0,%d}", hi)
	}
	if r.Chance(1, 3) {
		l.Lazy = true
		q += "?"
	}
	return rxPiece{a.src + q, l, l.Min == 0}
}

// content of the whole regex or of a group: either a plain sequence, or an alternation whose
// operands are single quantified atoms or groups (the only alternations on which vore's
// reading and the conventional reading of the same source coincide).
func (g *RegexGen) content(depth int) rxPiece {
	r := g.R
	if r.Chance(1, 3) {
		n := 2 + r.Intn(2)
		var srcs []string
		or := Or{}
		nullable := false
		for i := 0; i < n; i++ {
			p := g.quantified(depth)
			srcs = append(srcs, p.src)
			// vore wraps every left operand in a sub-expression; meaning is the same
			or.Alts = append(or.Alts, p.node)
			nullable = nullable || p.nullable
		}
		return rxPiece{strings.Join(srcs, "|"), or, nullable}
	}
	n := 1 + r.Intn(3)
	var sb strings.Builder
	seq := Seq{}
	nullable := true
	for i := 0; i < n; i++ {
		p := g.quantified(depth)
		sb.WriteString(p.src)
		seq.Items = append(seq.Items, p.node)
		nullable = nullable && p.nullable
	}
	return rxPiece{sb.String(), seq, nullable}
}

// Regex generates one regex literal.
func (g *RegexGen) Regex(depth int) Regex {
	g.budget = 5
	var pre rxPiece
	if g.ManyGroups {
		// (a)(b)?([ab])... : every group one atom, some optional; then a tail that refers back to them
		n := 9 + g.R.Intn(4)
		seq := Seq{}
		var sb strings.Builder
		for k := 0; k < n; k++ {
			g.nGroup++
			name := fmt.Sprintf("_%d", g.nGroup)
			g.Names = append(g.Names, name)
			g.NGroups++
			c := g.ch()
			var inner Node = Lit{S: string([]byte{c})}
			isrc := string([]byte{c})
			if g.R.Chance(1, 4) {
				b := g.bracket()
				inner, isrc = b.node, b.src
			}
			var node Node = Seq{Items: []Node{Capture{Name: name, Body: Seq{Items: []Node{inner}}}}}
			gsrc := "(" + isrc + ")"
			g.closed = append(g.closed, name)
			if g.groupNullable == nil {
				g.groupNullable = map[string]bool{}
			}
			g.groupNullable[name] = false
			if g.R.Chance(1, 5) {
				node = Loop{Min: 0, Max: 1, Body: node}
				gsrc += "?"
			}
			seq.Items = append(seq.Items, node)
			sb.WriteString(gsrc)
		}
		// at least one two-digit reference, when there is a group to take it
		if g.BackRefs && n >= 10 {
			k := 10 + g.R.Intn(n-9)
			name := fmt.Sprintf("_%d", k)
			seq.Items = append(seq.Items, BackRef{Name: name})
			sb.WriteString(fmt.Sprintf("\\%d", k))
			g.HasBackRef = true
		}
		pre = rxPiece{sb.String(), seq, false}
		g.budget = 2
	}
	body := g.content(depth)
	src := body.src
	tree := body.node
	if g.ManyGroups {
		src = pre.src + "(?:" + body.src + ")"
		tree = Seq{Items: append(pre.node.(Seq).Items, Seq{Items: []Node{body.node}})}
	}
	if g.Anchors {
		// ^ and $ only at the ends of a sequence (never quantified, never alternation operands)
		if _, isSeq := tree.(Seq); isSeq {
			s := tree.(Seq)
			if g.R.Chance(1, 5) {
				src = "^" + src
				s.Items = append([]Node{Anchor{Kind: "linestart"}}, s.Items...)
			}
			if g.R.Chance(1, 5) {
				src = src + "$"
				s.Items = append(append([]Node{}, s.Items...), Anchor{Kind: "lineend"})
			}
			tree = s
		}
	}
	return Regex{Src: src, Tree: tree}
}

// CaptureUnderUnrolledLoop reports whether some capture sits under a loop with a minimum >= 1
// (vore unrolls those and then rejects the program with a name clash: known finding K2).
func CaptureUnderUnrolledLoop(n Node, under bool) bool {
	switch x := n.(type) {
	case Capture:
		if under {
			return true
		}
		return CaptureUnderUnrolledLoop(x.Body, under)
	case Seq:
		for _, it := range x.Items {
			if CaptureUnderUnrolledLoop(it, under) {
				return true
			}
		}
	case Or:
		for _, it := range x.Alts {
			if CaptureUnderUnrolledLoop(it, under) {
				return true
			}
		}
	case Loop:
		return CaptureUnderUnrolledLoop(x.Body, under || x.Min >= 1)
	case SubDef:
		if under {
			return true
		}
		for _, it := range x.Body {
			if CaptureUnderUnrolledLoop(it, under) {
				return true
			}
		}
	case Regex:
		return CaptureUnderUnrolledLoop(x.Tree, under)
	}
	return false
}
